import GcmpyModel.Model.EECC
import GcmpyModel.Lemmas.ConnectedSubgraphs
/-
Helper lemmas for `Model/EECC.lean` (claim C09): specifications of the building blocks
(`sortNat`, `pairs`, `hasEdge`, `removePairs`, `removeAll`, `maximalCliques`, `lmc`, `scoreZero`) and the loop
invariant `Inv` of the EECC heuristic with `aux_inv_init`, `aux_inv_step`, `aux_progress`, `aux_run_terminates`.
-/
namespace Gcmpy.EECC
open Gcmpy Gcmpy.Graph Gcmpy.Generate Gcmpy.MPCC

/-! ### vocabulary -/

def Simple (es : List Edge) : Prop := es.Nodup ∧ (∀ e ∈ es, e.1 ≠ e.2) ∧ ∀ e ∈ es, (e.2, e.1) ∉ es

/-- graph built from edges: the node list is duplicate free and consists exactly of the end points
    (no isolated vertices) -/
def NodesOf (es : List Edge) (nodes : List Nat) : Prop :=
  nodes.Nodup ∧ ∀ v, v ∈ nodes ↔ ∃ e ∈ es, e.1 = v ∨ e.2 = v

def HasPair (c : List Nat) (a b : Nat) : Prop := a ∈ c ∧ b ∈ c ∧ a ≠ b

/-- the undirected edge {a,b} is present in `g` -/
def EdgeIn (g : List Edge) (a b : Nat) : Prop := hasEdge g a b = true

/-- sorted duplicate-free clique of `g` -/
def IsCliqueOf (g : List Edge) (c : List Nat) : Prop :=
  c.Pairwise (· < ·) ∧ ∀ a ∈ c, ∀ b ∈ c, a ≠ b → EdgeIn g a b

/-- no self loops -/
def LoopFree (g : List Edge) : Prop := ∀ e ∈ g, e.1 ≠ e.2

instance (es : List Edge) : Decidable (Simple es) := by unfold Simple; infer_instance
instance (c : List Nat) (a b : Nat) : Decidable (HasPair c a b) := by unfold HasPair; infer_instance
instance (g : List Edge) (a b : Nat) : Decidable (EdgeIn g a b) := by unfold EdgeIn; infer_instance

theorem HasPair.symm {c : List Nat} {a b : Nat} (h : HasPair c a b) : HasPair c b a :=
  ⟨h.2.1, h.1, fun e => h.2.2 e.symm⟩

/-! ### `hasEdge` -/

theorem edgeIn_iff {g : List Edge} {a b : Nat} : EdgeIn g a b ↔ (a, b) ∈ g ∨ (b, a) ∈ g := by
  unfold EdgeIn hasEdge
  simp only [List.any_eq_true, decide_eq_true_eq, Prod.exists]
  constructor
  · rintro ⟨x, y, hm, (⟨rfl, rfl⟩ | ⟨rfl, rfl⟩)⟩
    · exact Or.inl hm
    · exact Or.inr hm
  · rintro (h | h)
    · exact ⟨a, b, h, Or.inl ⟨rfl, rfl⟩⟩
    · exact ⟨b, a, h, Or.inr ⟨rfl, rfl⟩⟩

theorem EdgeIn.symm {g : List Edge} {a b : Nat} (h : EdgeIn g a b) : EdgeIn g b a := by
  rw [edgeIn_iff] at *; exact h.symm

theorem EdgeIn.mono {g g' : List Edge} {a b : Nat} (hsub : ∀ e ∈ g, e ∈ g') (h : EdgeIn g a b) :
    EdgeIn g' a b := by
  rw [edgeIn_iff] at *; exact h.imp (hsub _) (hsub _)

theorem EdgeIn.ne {g : List Edge} {a b : Nat} (hl : LoopFree g) (h : EdgeIn g a b) : a ≠ b := by
  rw [edgeIn_iff] at h
  rcases h with h | h
  · exact hl _ h
  · exact fun e => hl _ h e.symm

theorem edgeIn_of_mem {g : List Edge} {e : Edge} (h : e ∈ g) : EdgeIn g e.1 e.2 :=
  edgeIn_iff.2 (Or.inl h)

theorem not_edgeIn_nil (a b : Nat) : ¬ EdgeIn [] a b := by simp [edgeIn_iff]

theorem Simple.loopFree {g : List Edge} (h : Simple g) : LoopFree g := h.2.1

theorem LoopFree.sublist {g g' : List Edge} (hs : g'.Sublist g) (h : LoopFree g) : LoopFree g' :=
  fun e he => h e (hs.subset he)

theorem Simple.sublist {g g' : List Edge} (hs : g'.Sublist g) (h : Simple g) : Simple g' :=
  ⟨h.1.sublist hs, fun e he => h.2.1 e (hs.subset he), fun e he hc => h.2.2 e (hs.subset he) (hs.subset hc)⟩

/-! ### `pairs` -/

theorem mem_pairs_mem {c : List Nat} {a b : Nat} (h : (a, b) ∈ pairs c) : a ∈ c ∧ b ∈ c := by
  induction c with
  | nil => simp [pairs] at h
  | cons x xs ih =>
    simp only [pairs, List.mem_append, List.mem_map, Prod.mk.injEq] at h
    rcases h with ⟨y, hy, rfl, rfl⟩ | h
    · exact ⟨List.mem_cons_self, List.mem_cons_of_mem _ hy⟩
    · exact ⟨List.mem_cons_of_mem _ (ih h).1, List.mem_cons_of_mem _ (ih h).2⟩

theorem mem_pairs_of_mem {c : List Nat} {a b : Nat} (ha : a ∈ c) (hb : b ∈ c) (hab : a ≠ b) :
    (a, b) ∈ pairs c ∨ (b, a) ∈ pairs c := by
  induction c with
  | nil => simp at ha
  | cons x xs ih =>
    simp only [pairs, List.mem_append, List.mem_map, Prod.mk.injEq]
    rcases List.mem_cons.1 ha with rfl | ha'
    · rcases List.mem_cons.1 hb with rfl | hb'
      · exact absurd rfl hab
      · exact Or.inl (Or.inl ⟨b, hb', rfl, rfl⟩)
    · rcases List.mem_cons.1 hb with rfl | hb'
      · exact Or.inr (Or.inl ⟨a, ha', rfl, rfl⟩)
      · rcases ih ha' hb' with h | h
        · exact Or.inl (Or.inr h)
        · exact Or.inr (Or.inr h)

theorem mem_pairs_lt {c : List Nat} (hc : c.Pairwise (· < ·)) {a b : Nat} (h : (a, b) ∈ pairs c) : a < b := by
  induction c with
  | nil => simp [pairs] at h
  | cons x xs ih =>
    simp only [pairs, List.mem_append, List.mem_map, Prod.mk.injEq] at h
    rw [List.pairwise_cons] at hc
    rcases h with ⟨y, hy, rfl, rfl⟩ | h
    · exact hc.1 _ hy
    · exact ih hc.2 h

theorem normE_eq_iff {x y a b : Nat} : normE (x, y) = normE (a, b) ↔ (x = a ∧ y = b) ∨ (x = b ∧ y = a) := by
  simp only [normE, Prod.mk.injEq]
  omega

/-- some pair of `c` has the same normal form as `(a,b)` iff `c` contains the two distinct vertices -/
theorem exists_pair_norm_iff {c : List Nat} {a b : Nat} (hab : a ≠ b) :
    (∃ p ∈ pairs c, normE p = normE (a, b)) ↔ HasPair c a b := by
  constructor
  · rintro ⟨⟨x, y⟩, hp, hn⟩
    have := mem_pairs_mem hp
    rcases normE_eq_iff.1 hn with ⟨rfl, rfl⟩ | ⟨rfl, rfl⟩
    · exact ⟨this.1, this.2, hab⟩
    · exact ⟨this.2, this.1, hab⟩
  · rintro ⟨ha, hb, _⟩
    rcases mem_pairs_of_mem ha hb hab with h | h
    · exact ⟨_, h, rfl⟩
    · exact ⟨_, h, normE_eq_iff.2 (Or.inr ⟨rfl, rfl⟩)⟩

/-! ### `removePairs`, `removeAll` -/

theorem removePairs_sublist (g : List Edge) (c : List Nat) : (removePairs g c).Sublist g :=
  List.filter_sublist

theorem mem_removePairs {g : List Edge} {c : List Nat} {e : Edge} :
    e ∈ removePairs g c ↔ e ∈ g ∧ ¬ ∃ p ∈ pairs c, normE p = normE e := by
  simp [removePairs, List.mem_filter]

/-- `removePairs` spec for a pair of distinct vertices (no assumption on `g`) -/
theorem edgeIn_removePairs_of_ne {g : List Edge} {c : List Nat} {a b : Nat} (hab : a ≠ b) :
    EdgeIn (removePairs g c) a b ↔ EdgeIn g a b ∧ ¬ HasPair c a b := by
  rw [edgeIn_iff, edgeIn_iff, mem_removePairs, mem_removePairs, exists_pair_norm_iff hab,
    exists_pair_norm_iff (Ne.symm hab)]
  constructor
  · rintro (⟨h, hn⟩ | ⟨h, hn⟩)
    · exact ⟨Or.inl h, hn⟩
    · exact ⟨Or.inr h, fun hp => hn hp.symm⟩
  · rintro ⟨h | h, hn⟩
    · exact Or.inl ⟨h, hn⟩
    · exact Or.inr ⟨h, fun hp => hn hp.symm⟩

/-- `removePairs` spec: `remove_edges_from(combinations(c, 2))` on a loop-free graph -/
theorem edgeIn_removePairs {g : List Edge} (hl : LoopFree g) {c : List Nat} {a b : Nat} :
    EdgeIn (removePairs g c) a b ↔ EdgeIn g a b ∧ ¬ HasPair c a b := by
  by_cases hab : a = b
  · subst hab
    constructor
    · intro h; exact absurd rfl (EdgeIn.ne (hl.sublist (removePairs_sublist g c)) h)
    · intro h; exact absurd rfl (EdgeIn.ne hl h.1)
  · exact edgeIn_removePairs_of_ne hab

theorem removeAll_sublist (g : List Edge) (EC : List (List Nat)) : (removeAll g EC).Sublist g := by
  unfold removeAll
  induction EC generalizing g with
  | nil => exact List.Sublist.refl _
  | cons c cs ih => exact (ih _).trans (removePairs_sublist g c)

theorem edgeIn_removeAll_of_ne {g : List Edge} {EC : List (List Nat)} {a b : Nat} (hab : a ≠ b) :
    EdgeIn (removeAll g EC) a b ↔ EdgeIn g a b ∧ ∀ c ∈ EC, ¬ HasPair c a b := by
  unfold removeAll
  induction EC generalizing g with
  | nil => simp
  | cons c cs ih =>
    rw [List.foldl_cons, ih, edgeIn_removePairs_of_ne hab]
    simp only [List.mem_cons, forall_eq_or_imp, and_assoc]

theorem edgeIn_removeAll {g : List Edge} (hl : LoopFree g) {EC : List (List Nat)} {a b : Nat} :
    EdgeIn (removeAll g EC) a b ↔ EdgeIn g a b ∧ ∀ c ∈ EC, ¬ HasPair c a b := by
  by_cases hab : a = b
  · subst hab
    constructor
    · intro h; exact absurd rfl (EdgeIn.ne (hl.sublist (removeAll_sublist g EC)) h)
    · intro h; exact absurd rfl (EdgeIn.ne hl h.1)
  · exact edgeIn_removeAll_of_ne hab

/-! ### `sortNat` and ascending lists -/

theorem mem_insertSorted {x v : Nat} {l : List Nat} : v ∈ insertSorted x l ↔ v = x ∨ v ∈ l := by
  induction l with
  | nil => simp [insertSorted]
  | cons y ys ih =>
    simp only [insertSorted]
    split
    · simp
    · simp only [List.mem_cons, ih]; grind

theorem length_insertSorted (x : Nat) (l : List Nat) : (insertSorted x l).length = l.length + 1 := by
  induction l with
  | nil => simp [insertSorted]
  | cons y ys ih =>
    simp only [insertSorted]
    split <;> simp [ih]

theorem insertSorted_lt {x : Nat} {l : List Nat} (hl : l.Pairwise (· < ·)) (hx : x ∉ l) :
    (insertSorted x l).Pairwise (· < ·) := by
  induction l with
  | nil => simp [insertSorted]
  | cons y ys ih =>
    rw [List.pairwise_cons] at hl
    simp only [List.mem_cons, not_or] at hx
    simp only [insertSorted]
    split
    · rename_i hle
      refine List.pairwise_cons.2 ⟨?_, List.pairwise_cons.2 hl⟩
      intro z hz
      rcases List.mem_cons.1 hz with rfl | hz
      · omega
      · have := hl.1 z hz; omega
    · rename_i hle
      refine List.pairwise_cons.2 ⟨?_, ih hl.2 hx.2⟩
      intro z hz
      rcases mem_insertSorted.1 hz with rfl | hz
      · omega
      · exact hl.1 z hz

theorem mem_sortNat {v : Nat} {l : List Nat} : v ∈ sortNat l ↔ v ∈ l := by
  induction l with
  | nil => simp [sortNat]
  | cons y ys ih =>
    have : sortNat (y :: ys) = insertSorted y (sortNat ys) := rfl
    rw [this, mem_insertSorted, ih, List.mem_cons]

theorem length_sortNat (l : List Nat) : (sortNat l).length = l.length := by
  induction l with
  | nil => simp [sortNat]
  | cons y ys ih =>
    have : sortNat (y :: ys) = insertSorted y (sortNat ys) := rfl
    rw [this, length_insertSorted, ih, List.length_cons]

theorem sortNat_lt {l : List Nat} (h : l.Nodup) : (sortNat l).Pairwise (· < ·) := by
  induction l with
  | nil => simp [sortNat]
  | cons y ys ih =>
    have : sortNat (y :: ys) = insertSorted y (sortNat ys) := rfl
    rw [List.nodup_cons] at h
    rw [this]
    exact insertSorted_lt (ih h.2) (fun hm => h.1 (mem_sortNat.1 hm))

/-- an ascending list all of whose members lie in an ascending list is a sub-list of it -/
theorem sublist_of_sorted_subset : ∀ {l c : List Nat}, c.Pairwise (· < ·) → l.Pairwise (· < ·) →
    (∀ v ∈ c, v ∈ l) → c.Sublist l := by
  intro l
  induction l with
  | nil =>
    intro c _ _ hsub
    cases c with
    | nil => exact List.Sublist.refl _
    | cons y ys => exact absurd (hsub y List.mem_cons_self) (by simp)
  | cons x xs ih =>
    intro c hc hl hsub
    cases c with
    | nil => exact List.nil_sublist _
    | cons y ys =>
      rw [List.pairwise_cons] at hc hl
      rcases List.mem_cons.1 (hsub y List.mem_cons_self) with rfl | hy
      · refine List.Sublist.cons_cons _ (ih hc.2 hl.2 ?_)
        intro v hv
        rcases List.mem_cons.1 (hsub v (List.mem_cons_of_mem _ hv)) with rfl | h
        · exact absurd (hc.1 _ hv) (Nat.lt_irrefl _)
        · exact h
      · refine List.Sublist.cons _ (ih (List.pairwise_cons.2 hc) hl.2 ?_)
        intro v hv
        rcases List.mem_cons.1 (hsub v hv) with rfl | h
        · exfalso
          have h1 := hl.1 y hy
          rcases List.mem_cons.1 hv with rfl | hv'
          · exact Nat.lt_irrefl _ h1
          · have := hc.1 _ hv'; omega
        · exact h

theorem eq_of_sorted_of_mem_iff {c d : List Nat} (hc : c.Pairwise (· < ·)) (hd : d.Pairwise (· < ·))
    (h : ∀ v, v ∈ c ↔ v ∈ d) : c = d :=
  (sublist_of_sorted_subset hc hd fun v => (h v).1).antisymm
    (sublist_of_sorted_subset hd hc fun v => (h v).2)

theorem sorted_nodup {c : List Nat} (hc : c.Pairwise (· < ·)) : c.Nodup :=
  hc.imp fun h => Nat.ne_of_lt h

/-- an ascending list of at most two elements containing `a ≠ b` is `[min a b, max a b]` -/
theorem eq_pair_of_sorted {c : List Nat} {a b : Nat} (hc : c.Pairwise (· < ·)) (hl : c.length ≤ 2)
    (ha : a ∈ c) (hb : b ∈ c) (hab : a ≠ b) : c = [min a b, max a b] := by
  match c, hl with
  | [], _ => simp at ha
  | [x], _ => simp at ha hb; omega
  | [x, y], _ =>
    have hxy : x < y := (List.pairwise_cons.1 hc).1 y (by simp)
    simp only [List.mem_cons, List.not_mem_nil, or_false] at ha hb
    have h1 : min a b = x := by omega
    have h2 : max a b = y := by omega
    rw [h1, h2]

/-- two distinct members force length ≥ 2 -/
theorem two_le_length_of_hasPair {c : List Nat} {a b : Nat} (h : HasPair c a b) : 2 ≤ c.length := by
  match c with
  | [] => exact absurd h.1 (by simp)
  | [x] =>
    have h1 := h.1; have h2 := h.2.1; have h3 := h.2.2
    simp at h1 h2; omega
  | _ :: _ :: _ => simp

theorem exists_hasPair_of_two_le {c : List Nat} (hc : c.Pairwise (· < ·)) (h : 2 ≤ c.length) :
    ∃ a b, HasPair c a b := by
  match c with
  | [] => simp at h
  | [x] => simp at h
  | x :: y :: l =>
    rw [List.pairwise_cons] at hc
    exact ⟨x, y, by simp, by simp, Nat.ne_of_lt (hc.1 y List.mem_cons_self)⟩

/-! ### `isClique`, `maximalCliques` -/

theorem isClique_iff {g : List Edge} {c : List Nat} :
    isClique g c = true ↔ ∀ a b, (a, b) ∈ pairs c → EdgeIn g a b := by
  simp [isClique, List.all_eq_true, EdgeIn]

theorem isClique_iff_of_sorted {g : List Edge} {c : List Nat} (hc : c.Pairwise (· < ·)) :
    isClique g c = true ↔ ∀ a ∈ c, ∀ b ∈ c, a ≠ b → EdgeIn g a b := by
  rw [isClique_iff]
  constructor
  · intro h a ha b hb hab
    rcases mem_pairs_of_mem ha hb hab with hp | hp
    · exact h _ _ hp
    · exact (h _ _ hp).symm
  · intro h a b hp
    exact h a (mem_pairs_mem hp).1 b (mem_pairs_mem hp).2 (Nat.ne_of_lt (mem_pairs_lt hc hp))

theorem isClique_cons {g : List Edge} {v : Nat} {c : List Nat} :
    isClique g (v :: c) = true ↔ (∀ y ∈ c, EdgeIn g v y) ∧ isClique g c = true := by
  simp only [isClique_iff, pairs, List.mem_append, List.mem_map, Prod.mk.injEq]
  constructor
  · intro h
    exact ⟨fun y hy => h v y (Or.inl ⟨y, hy, rfl, rfl⟩), fun a b hp => h a b (Or.inr hp)⟩
  · rintro ⟨h1, h2⟩ a b (⟨y, hy, rfl, rfl⟩ | hp)
    · exact h1 _ hy
    · exact h2 _ _ hp

/-- `maximalCliques`: the non-empty ascending cliques over `nodes` that no further vertex of `nodes` extends -/
theorem aux_mem_maximalCliques_iff {g : List Edge} {nodes c : List Nat} (hn : nodes.Nodup) :
    c ∈ maximalCliques g nodes ↔
      c ≠ [] ∧ IsCliqueOf g c ∧ (∀ v ∈ c, v ∈ nodes) ∧
        ∀ v ∈ nodes, v ∉ c → ∃ y ∈ c, ¬ EdgeIn g v y := by
  have hs := sortNat_lt hn
  simp only [maximalCliques, List.mem_filter, decide_eq_true_eq, List.all_eq_true,
    Automated.mem_sublists_iff]
  constructor
  · rintro ⟨hsub, hne, hcl, hmax⟩
    have hc : c.Pairwise (· < ·) := hs.sublist hsub
    refine ⟨hne, ⟨hc, (isClique_iff_of_sorted hc).1 hcl⟩, fun v hv => mem_sortNat.1 (hsub.subset hv), ?_⟩
    intro v hv hvc
    rcases hmax v hv with h | h
    · exact absurd h hvc
    · by_contra hcon
      apply h
      rw [isClique_cons]
      refine ⟨fun y hy => ?_, hcl⟩
      by_contra hy'
      exact hcon ⟨y, hy, hy'⟩
  · rintro ⟨hne, ⟨hc, hcl⟩, hsub, hmax⟩
    have hcl' := (isClique_iff_of_sorted hc).2 hcl
    refine ⟨sublist_of_sorted_subset hc hs fun v hv => mem_sortNat.2 (hsub v hv), hne, hcl', ?_⟩
    intro v hv
    by_cases hvc : v ∈ c
    · exact Or.inl hvc
    · right
      obtain ⟨y, hy, hny⟩ := hmax v hv hvc
      rw [isClique_cons]
      exact fun h => hny (h.1 y hy)

theorem length_le_of_sorted_subset {nodes c : List Nat} (hn : nodes.Nodup) (hc : c.Pairwise (· < ·))
    (hsub : ∀ v ∈ c, v ∈ nodes) : c.length ≤ nodes.length := by
  have := (sublist_of_sorted_subset hc (sortNat_lt hn) fun v hv => mem_sortNat.2 (hsub v hv)).length_le
  rwa [length_sortNat] at this

/-- every non-empty clique over `nodes` lies inside a maximal clique -/
theorem exists_maximal_extension {g : List Edge} {nodes : List Nat} (hn : nodes.Nodup) :
    ∀ (n : Nat) (c : List Nat), nodes.length - c.length ≤ n → c ≠ [] → IsCliqueOf g c →
      (∀ v ∈ c, v ∈ nodes) → ∃ d ∈ maximalCliques g nodes, ∀ v ∈ c, v ∈ d := by
  intro n
  induction n with
  | zero =>
    intro c hlen hne hcl hsub
    by_cases hmax : ∀ v ∈ nodes, v ∉ c → ∃ y ∈ c, ¬ EdgeIn g v y
    · exact ⟨c, (aux_mem_maximalCliques_iff hn).2 ⟨hne, hcl, hsub, hmax⟩, fun v hv => hv⟩
    · exfalso
      simp only [not_forall, not_exists, not_and, Decidable.not_not] at hmax
      obtain ⟨v, hv, hvc, hall⟩ := hmax
      have h1 := length_le_of_sorted_subset hn (insertSorted_lt hcl.1 hvc)
        (fun w hw => by rcases mem_insertSorted.1 hw with rfl | h; exacts [hv, hsub w h])
      rw [length_insertSorted] at h1
      omega
  | succ n ih =>
    intro c hlen hne hcl hsub
    by_cases hmax : ∀ v ∈ nodes, v ∉ c → ∃ y ∈ c, ¬ EdgeIn g v y
    · exact ⟨c, (aux_mem_maximalCliques_iff hn).2 ⟨hne, hcl, hsub, hmax⟩, fun v hv => hv⟩
    · simp only [not_forall, not_exists, not_and, Decidable.not_not] at hmax
      obtain ⟨v, hv, hvc, hall⟩ := hmax
      have hsub' : ∀ w ∈ insertSorted v c, w ∈ nodes := fun w hw => by
        rcases mem_insertSorted.1 hw with rfl | h; exacts [hv, hsub w h]
      have hcl' : IsCliqueOf g (insertSorted v c) := by
        refine ⟨insertSorted_lt hcl.1 hvc, ?_⟩
        intro a ha b hb hab
        rcases mem_insertSorted.1 ha with rfl | ha' <;> rcases mem_insertSorted.1 hb with rfl | hb'
        · exact absurd rfl hab
        · exact hall b hb'
        · exact (hall a ha').symm
        · exact hcl.2 a ha' b hb' hab
      obtain ⟨d, hd, hcd⟩ := ih (insertSorted v c) (by rw [length_insertSorted]; omega)
        (by intro h; have := length_insertSorted v c; rw [h] at this; simp at this) hcl' hsub'
      exact ⟨d, hd, fun w hw => hcd w (mem_insertSorted.2 (Or.inr hw))⟩

/-- every edge between two nodes lies in a maximal clique -/
theorem edge_in_some_maximal {g : List Edge} {nodes : List Nat} (hn : nodes.Nodup) {a b : Nat}
    (he : EdgeIn g a b) (hab : a ≠ b) (ha : a ∈ nodes) (hb : b ∈ nodes) :
    ∃ d ∈ maximalCliques g nodes, HasPair d a b := by
  have hcl : IsCliqueOf g [min a b, max a b] := by
    refine ⟨by simp; omega, ?_⟩
    intro x hx y hy hxy
    simp only [List.mem_cons, List.not_mem_nil, or_false] at hx hy
    have h1 : (x = a ∧ y = b) ∨ (x = b ∧ y = a) := by omega
    rcases h1 with ⟨rfl, rfl⟩ | ⟨rfl, rfl⟩
    · exact he
    · exact he.symm
  have hsub : ∀ v ∈ [min a b, max a b], v ∈ nodes := by
    intro v hv
    simp only [List.mem_cons, List.not_mem_nil, or_false] at hv
    have : v = a ∨ v = b := by omega
    rcases this with rfl | rfl <;> assumption
  obtain ⟨d, hd, hcd⟩ := exists_maximal_extension (g := g) hn _ _ (Nat.le_refl _) (by simp) hcl hsub
  refine ⟨d, hd, hcd a ?_, hcd b ?_, hab⟩
  · simp only [List.mem_cons, List.not_mem_nil, or_false]; omega
  · simp only [List.mem_cons, List.not_mem_nil, or_false]; omega

/-! ### `lmc` (= `limited_maximal_cliques`) -/

theorem insertKey_perm (x : List Nat) (l : List (List Nat)) : (insertKey x l).Perm (x :: l) := by
  induction l with
  | nil => exact List.Perm.refl _
  | cons y ys ih =>
    simp only [insertKey]
    split
    · exact (List.Perm.cons y ih).trans (List.Perm.swap x y ys)
    · exact List.Perm.refl _

theorem foldr_insertKey_perm (l : List (List Nat)) : (l.foldr insertKey []).Perm l := by
  induction l with
  | nil => exact List.Perm.refl _
  | cons x xs ih => exact (insertKey_perm x _).trans (List.Perm.cons x ih)

theorem nodup_eraseDups_aux {α : Type} [BEq α] [LawfulBEq α] :
    ∀ (n : Nat) (l : List α), l.length ≤ n → l.eraseDups.Nodup
  | 0, l, h => by
    have : l = [] := List.eq_nil_of_length_eq_zero (by omega)
    subst this; simp
  | _+1, [], _ => by simp
  | n+1, a :: as, h => by
    rw [List.eraseDups_cons, List.nodup_cons]
    refine ⟨?_, nodup_eraseDups_aux n _ ?_⟩
    · simp [List.mem_eraseDups, List.mem_filter]
    · have := List.length_filter_le (fun b => !b == a) as
      simp only [List.length_cons] at h
      omega

theorem nodup_eraseDups {α : Type} [BEq α] [LawfulBEq α] (l : List α) : l.eraseDups.Nodup :=
  nodup_eraseDups_aux _ l (Nat.le_refl _)

theorem aux_lmc_nodup (g : List Edge) (nodes : List Nat) (m0 : Nat) : (lmc g nodes m0).Nodup := by
  unfold lmc
  exact (foldr_insertKey_perm _).nodup_iff.2 (nodup_eraseDups _)

/-- membership in `lmc`: a maximal clique of at most `m0` vertices, or an `m0`-subset of a larger one -/
theorem mem_lmc_iff {g : List Edge} {nodes : List Nat} {m0 : Nat} {c : List Nat} :
    c ∈ lmc g nodes m0 ↔
      ∃ d ∈ maximalCliques g nodes, (m0 < d.length ∧ c.Sublist d ∧ c.length = m0) ∨ (d.length ≤ m0 ∧ c = d) := by
  unfold lmc
  rw [(foldr_insertKey_perm _).mem_iff, List.mem_eraseDups, List.mem_flatMap]
  constructor
  · rintro ⟨d, hd, hc⟩
    refine ⟨d, hd, ?_⟩
    split at hc
    · rename_i h
      exact Or.inl ⟨h, Automated.mem_combinations_iff.1 hc⟩
    · rename_i h
      exact Or.inr ⟨by omega, by simpa using hc⟩
  · rintro ⟨d, hd, (⟨h, hc⟩ | ⟨h, rfl⟩)⟩
    · refine ⟨d, hd, ?_⟩
      rw [if_pos h]
      exact Automated.mem_combinations_iff.2 hc
    · refine ⟨c, hd, ?_⟩
      rw [if_neg (by omega)]
      simp

theorem IsCliqueOf.sublist {g : List Edge} {c d : List Nat} (h : IsCliqueOf g d) (hs : c.Sublist d) :
    IsCliqueOf g c :=
  ⟨h.1.sublist hs, fun a ha b hb hab => h.2 a (hs.subset ha) b (hs.subset hb) hab⟩

theorem IsCliqueOf.mono {g g' : List Edge} {c : List Nat} (h : IsCliqueOf g c) (hsub : ∀ e ∈ g, e ∈ g') :
    IsCliqueOf g' c :=
  ⟨h.1, fun a ha b hb hab => (h.2 a ha b hb hab).mono hsub⟩

theorem IsCliqueOf.edgeIn {g : List Edge} {c : List Nat} (h : IsCliqueOf g c) {a b : Nat}
    (hp : HasPair c a b) : EdgeIn g a b := h.2 a hp.1 b hp.2.1 hp.2.2

/-- every member of `lmc` is an ascending clique over `nodes` with at most `m0` (and at least one) vertices -/
theorem aux_mem_lmc {g : List Edge} {nodes : List Nat} {m0 : Nat} {c : List Nat} (hn : nodes.Nodup)
    (hc : c ∈ lmc g nodes m0) :
    IsCliqueOf g c ∧ c.length ≤ m0 ∧ (1 ≤ m0 → 1 ≤ c.length) ∧ ∀ v ∈ c, v ∈ nodes := by
  obtain ⟨d, hd, h⟩ := mem_lmc_iff.1 hc
  obtain ⟨hne, hcl, hsub, _⟩ := (aux_mem_maximalCliques_iff hn).1 hd
  rcases h with ⟨_, hs, hl⟩ | ⟨hl, rfl⟩
  · exact ⟨hcl.sublist hs, by omega, fun _ => by omega, fun v hv => hsub v (hs.subset hv)⟩
  · refine ⟨hcl, hl, fun _ => ?_, hsub⟩
    cases c with
    | nil => exact absurd rfl hne
    | cons _ _ => simp

/-- a sub-list can be padded to any intermediate length -/
theorem exists_sublist_between {α : Type} {t l : List α} (h : t.Sublist l) :
    ∀ k, t.length ≤ k → k ≤ l.length → ∃ s, t.Sublist s ∧ s.Sublist l ∧ s.length = k := by
  induction h with
  | slnil =>
    intro k _ h2
    exact ⟨[], List.Sublist.refl _, List.Sublist.refl _, by simp at h2; omega⟩
  | @cons t l' x h ih =>
    intro k h1 h2
    by_cases hk : k ≤ l'.length
    · obtain ⟨s, hs1, hs2, hs3⟩ := ih k h1 hk
      exact ⟨s, hs1, hs2.cons x, hs3⟩
    · exact ⟨x :: l', h.cons x, List.Sublist.refl _, by simp at h2 ⊢; omega⟩
  | @cons_cons t l' x h ih =>
    intro k h1 h2
    simp only [List.length_cons] at h1 h2
    obtain ⟨s, hs1, hs2, hs3⟩ := ih (k - 1) (by omega) (by omega)
    exact ⟨x :: s, hs1.cons_cons x, hs2.cons_cons x, by simp; omega⟩

/-- every edge lies in a member of `lmc`: in its maximal clique, or (if that is larger than `m0`) in one of
    the `m0`-subsets of it -/
theorem aux_edge_in_some_lmc {g : List Edge} {nodes : List Nat} {m0 : Nat} (hn : nodes.Nodup) {a b : Nat}
    (he : EdgeIn g a b) (hab : a ≠ b) (ha : a ∈ nodes) (hb : b ∈ nodes) (hm : 2 ≤ m0) :
    ∃ c ∈ lmc g nodes m0, HasPair c a b := by
  obtain ⟨d, hd, hp⟩ := edge_in_some_maximal hn he hab ha hb
  by_cases hl : d.length ≤ m0
  · exact ⟨d, mem_lmc_iff.2 ⟨d, hd, Or.inr ⟨hl, rfl⟩⟩, hp⟩
  · obtain ⟨_, hcl, _, _⟩ := (aux_mem_maximalCliques_iff hn).1 hd
    have ht : [min a b, max a b].Sublist d := by
      refine sublist_of_sorted_subset (by simp; omega) hcl.1 ?_
      intro v hv
      simp only [List.mem_cons, List.not_mem_nil, or_false] at hv
      have : v = a ∨ v = b := by omega
      rcases this with rfl | rfl
      · exact hp.1
      · exact hp.2.1
    obtain ⟨s, hs1, hs2, hs3⟩ := exists_sublist_between ht m0 (by simpa using hm) (by omega)
    refine ⟨s, mem_lmc_iff.2 ⟨d, hd, Or.inl ⟨by omega, hs2, hs3⟩⟩, hs1.subset ?_, hs1.subset ?_, hab⟩
    · simp only [List.mem_cons, List.not_mem_nil, or_false]; omega
    · simp only [List.mem_cons, List.not_mem_nil, or_false]; omega

/-- a member of `lmc` with fewer than `m0` vertices is itself a maximal clique -/
theorem lmc_maximal_of_lt {g : List Edge} {nodes : List Nat} {m0 : Nat} {c : List Nat}
    (hc : c ∈ lmc g nodes m0) (hl : c.length < m0) : c ∈ maximalCliques g nodes := by
  obtain ⟨d, hd, h⟩ := mem_lmc_iff.1 hc
  rcases h with ⟨_, _, h⟩ | ⟨_, rfl⟩
  · omega
  · exact hd

/-! ### scores -/

theorem scoreZero_iff {C : List (List Nat)} {c : List Nat} :
    scoreZero C c = true ↔
      c.length ≤ 2 ∨ ∀ a b, (a, b) ∈ pairs c → ∀ d ∈ C, d ≠ c → ¬ (a ∈ d ∧ b ∈ d) := by
  simp only [scoreZero, decide_eq_true_eq, List.all_eq_true, List.any_eq_true, Prod.forall,
    not_exists, not_and, ne_eq]

/-- a score-0 member of a scored list shares no vertex pair with any OTHER member: for order > 2 by the
    definition of the score; a member of order 2 is a maximal clique of the graph (`m0 ≥ 3`) or one of the
    de-duplicated 2-subsets (`m0 = 2`) -/
theorem aux_scoreZero_disjoint {g : List Edge} {nodes : List Nat} {m0 : Nat} {C : List (List Nat)}
    (hn : nodes.Nodup) (hC : ∀ c ∈ C, c ∈ lmc g nodes m0) {c d : List Nat} (hc : c ∈ C) (hd : d ∈ C)
    (hne : c ≠ d) (hz : scoreZero C c = true) : ∀ a b, HasPair c a b → ¬ HasPair d a b := by
  intro a b hpc hpd
  have hcs := aux_mem_lmc hn (hC c hc)
  have hds := aux_mem_lmc hn (hC d hd)
  rcases scoreZero_iff.1 hz with hl | hall
  · have hceq := eq_pair_of_sorted hcs.1.1 hl hpc.1 hpc.2.1 hpc.2.2
    have hdl : d.length ≤ 2 := by
      by_cases hm : m0 ≤ 2
      · have := hds.2.1; omega
      · have hcm := lmc_maximal_of_lt (hC c hc) (by omega)
        obtain ⟨_, _, _, hmax⟩ := (aux_mem_maximalCliques_iff hn).1 hcm
        have hsub : ∀ v ∈ d, v ∈ c := by
          intro v hv
          by_contra hvc
          obtain ⟨y, hy, hny⟩ := hmax v (hds.2.2.2 v hv) hvc
          apply hny
          have hyd : y ∈ d := by
            have hy' := hy
            rw [hceq] at hy'
            simp only [List.mem_cons, List.not_mem_nil, or_false] at hy'
            have : y = a ∨ y = b := by omega
            rcases this with rfl | rfl
            · exact hpd.1
            · exact hpd.2.1
          exact hds.1.2 v hv y hyd (fun e => hvc (e ▸ hy))
        have := (sublist_of_sorted_subset hds.1.1 hcs.1.1 hsub).length_le
        omega
    exact hne (hceq.trans (eq_pair_of_sorted hds.1.1 hdl hpd.1 hpd.2.1 hpd.2.2).symm)
  · rcases mem_pairs_of_mem hpc.1 hpc.2.1 hpc.2.2 with hp | hp
    · exact hall a b hp d hd hne.symm ⟨hpd.1, hpd.2.1⟩
    · exact hall b a hp d hd hne.symm ⟨hpd.2.1, hpd.1⟩

/-! ### `rescore` -/

/-- the list that `rescore` scores -/
def scoredList (nodes : List Nat) (m0 : Nat) (drop : Bool) (g : List Edge) : List (List Nat) :=
  if drop then (lmc g nodes m0).filter fun c => c.length > 1 else lmc g nodes m0

theorem rescore_eq (nodes : List Nat) (m0 : Nat) (drop : Bool) (g : List Edge) (EC : List (List Nat)) :
    rescore nodes m0 drop g EC =
      { g := removeAll g (EC ++ (scoredList nodes m0 drop g).filter (scoreZero (scoredList nodes m0 drop g))),
        EC := EC ++ (scoredList nodes m0 drop g).filter (scoreZero (scoredList nodes m0 drop g)),
        C := (scoredList nodes m0 drop g).filter fun c => ¬ scoreZero (scoredList nodes m0 drop g) c } := rfl

theorem scoredList_nodup (nodes : List Nat) (m0 : Nat) (drop : Bool) (g : List Edge) :
    (scoredList nodes m0 drop g).Nodup := by
  unfold scoredList
  split
  · exact (aux_lmc_nodup _ _ _).sublist List.filter_sublist
  · exact aux_lmc_nodup _ _ _

theorem scoredList_sub {nodes : List Nat} {m0 : Nat} {drop : Bool} {g : List Edge} {c : List Nat}
    (h : c ∈ scoredList nodes m0 drop g) : c ∈ lmc g nodes m0 := by
  unfold scoredList at h
  split at h
  · exact (List.mem_filter.1 h).1
  · exact h

theorem mem_scoredList_iff {nodes : List Nat} {m0 : Nat} {drop : Bool} {g : List Edge}
    (h5 : drop = true ∨ ∀ c ∈ lmc g nodes m0, 2 ≤ c.length) {c : List Nat} :
    c ∈ scoredList nodes m0 drop g ↔ c ∈ lmc g nodes m0 ∧ 2 ≤ c.length := by
  unfold scoredList
  split
  · simp only [List.mem_filter, decide_eq_true_eq]
    constructor <;> rintro ⟨h1, h2⟩ <;> exact ⟨h1, by omega⟩
  · rename_i hd
    rcases h5 with h | h
    · exact absurd h hd
    · exact ⟨fun hc => ⟨hc, h c hc⟩, fun hc => hc.1⟩

/-! ### the loop invariant -/

/-- the loop invariant of `get_EECC` -/
structure Inv (edges : List Edge) (nodes : List Nat) (m0 : Nat) (s : St) : Prop where
  /-- (a) every cover member is an ascending clique of the INPUT graph with `2 ≤ order ≤ m0` -/
  ec_clique : ∀ c ∈ s.EC, IsCliqueOf edges c ∧ 2 ≤ c.length ∧ c.length ≤ m0
  /-- (b) cover members are pairwise edge-disjoint -/
  ec_disjoint : s.EC.Pairwise (fun c d => ∀ a b, HasPair c a b → ¬ HasPair d a b)
  /-- (c) every input edge is still in the working graph or in a cover member … -/
  cover : ∀ a b, EdgeIn edges a b ↔ (EdgeIn s.g a b ∨ ∃ c ∈ s.EC, HasPair c a b)
  /-- … and never both -/
  excl : ∀ a b, EdgeIn s.g a b → ∀ c ∈ s.EC, ¬ HasPair c a b
  /-- (d) the working graph is a sub-list of the input -/
  sub : s.g.Sublist edges
  /-- (e) every candidate is an ascending clique of the CURRENT working graph with `2 ≤ order ≤ m0` -/
  c_clique : ∀ c ∈ s.C, IsCliqueOf s.g c ∧ 2 ≤ c.length ∧ c.length ≤ m0
  /-- (e') while edges remain there is a candidate (`min(r)` never sees an empty list) -/
  c_ne : s.g ≠ [] → s.C ≠ []

theorem NodesOf.mem_of_edgeIn {edges : List Edge} {nodes : List Nat} (hn : NodesOf edges nodes) {a b : Nat}
    (h : EdgeIn edges a b) : a ∈ nodes ∧ b ∈ nodes := by
  rcases edgeIn_iff.1 h with h | h
  · exact ⟨(hn.2 a).2 ⟨_, h, Or.inl rfl⟩, (hn.2 b).2 ⟨_, h, Or.inr rfl⟩⟩
  · exact ⟨(hn.2 a).2 ⟨_, h, Or.inr rfl⟩, (hn.2 b).2 ⟨_, h, Or.inl rfl⟩⟩

/-- one scoring round re-establishes the invariant -/
theorem inv_rescore {edges : List Edge} {nodes : List Nat} {m0 : Nat} (hs : Simple edges)
    (hn : NodesOf edges nodes) (hm : 2 ≤ m0) {drop : Bool} {g : List Edge} {EC : List (List Nat)}
    (hsub : g.Sublist edges)
    (h1 : ∀ c ∈ EC, IsCliqueOf edges c ∧ 2 ≤ c.length ∧ c.length ≤ m0)
    (h2 : EC.Pairwise (fun c d => ∀ a b, HasPair c a b → ¬ HasPair d a b))
    (h3 : ∀ a b, EdgeIn edges a b ↔ (EdgeIn g a b ∨ ∃ c ∈ EC, HasPair c a b))
    (h4 : ∀ a b, EdgeIn g a b → ∀ c ∈ EC, ¬ HasPair c a b)
    (h5 : drop = true ∨ ∀ c ∈ lmc g nodes m0, 2 ≤ c.length) :
    Inv edges nodes m0 (rescore nodes m0 drop g EC) := by
  rw [rescore_eq]
  generalize hCdef : scoredList nodes m0 drop g = C
  have hCmem : ∀ c, c ∈ C ↔ c ∈ lmc g nodes m0 ∧ 2 ≤ c.length := fun c => by
    rw [← hCdef]; exact mem_scoredList_iff h5
  have hCnd : C.Nodup := by rw [← hCdef]; exact scoredList_nodup _ _ _ _
  have hClmc : ∀ c ∈ C, c ∈ lmc g nodes m0 := fun c hc => ((hCmem c).1 hc).1
  have hlf : LoopFree g := hs.loopFree.sublist hsub
  have hZ : ∀ z, z ∈ C.filter (scoreZero C) ↔ z ∈ C ∧ scoreZero C z = true := fun z => List.mem_filter
  have hCcl : ∀ c ∈ C, IsCliqueOf g c ∧ 2 ≤ c.length ∧ c.length ≤ m0 := fun c hc =>
    ⟨(aux_mem_lmc hn.1 (hClmc c hc)).1, ((hCmem c).1 hc).2, (aux_mem_lmc hn.1 (hClmc c hc)).2.1⟩
  have hg' : ∀ a b, EdgeIn (removeAll g (EC ++ C.filter (scoreZero C))) a b ↔
      EdgeIn g a b ∧ ∀ c ∈ EC ++ C.filter (scoreZero C), ¬ HasPair c a b := fun a b => edgeIn_removeAll hlf
  have hEC' : ∀ c ∈ EC ++ C.filter (scoreZero C), IsCliqueOf edges c ∧ 2 ≤ c.length ∧ c.length ≤ m0 := by
    intro c hc
    rcases List.mem_append.1 hc with hc | hc
    · exact h1 c hc
    · have := hCcl c ((hZ c).1 hc).1
      exact ⟨this.1.mono hsub.subset, this.2⟩
  constructor
  · exact hEC'
  · show (EC ++ C.filter (scoreZero C)).Pairwise _
    rw [List.pairwise_append]
    refine ⟨h2, ?_, ?_⟩
    · refine (hCnd.sublist List.filter_sublist).imp_of_mem ?_
      intro c d hc hd hne
      exact aux_scoreZero_disjoint hn.1 hClmc ((hZ c).1 hc).1 ((hZ d).1 hd).1 hne ((hZ c).1 hc).2
    · intro x hx y hy a b hpx hpy
      exact h4 a b ((hCcl y ((hZ y).1 hy).1).1.edgeIn hpy) x hx hpx
  · intro a b
    show EdgeIn edges a b ↔ (EdgeIn (removeAll g (EC ++ C.filter (scoreZero C))) a b ∨
      ∃ c ∈ EC ++ C.filter (scoreZero C), HasPair c a b)
    rw [hg']
    constructor
    · intro he
      by_cases hex : ∃ c ∈ EC ++ C.filter (scoreZero C), HasPair c a b
      · exact Or.inr hex
      · rcases (h3 a b).1 he with hg | ⟨c, hc, hp⟩
        · exact Or.inl ⟨hg, fun c hc hp => hex ⟨c, hc, hp⟩⟩
        · exact absurd ⟨c, List.mem_append_left _ hc, hp⟩ hex
    · rintro (⟨hg, _⟩ | ⟨c, hc, hp⟩)
      · exact hg.mono hsub.subset
      · exact (hEC' c hc).1.edgeIn hp
  · intro a b he
    exact ((hg' a b).1 he).2
  · exact (removeAll_sublist _ _).trans hsub
  · intro c hc
    show IsCliqueOf (removeAll g (EC ++ C.filter (scoreZero C))) c ∧ _
    have hc' : c ∈ C ∧ ¬ scoreZero C c = true := by
      have := List.mem_filter.1 hc
      exact ⟨this.1, by simpa using this.2⟩
    refine ⟨⟨(hCcl c hc'.1).1.1, ?_⟩, (hCcl c hc'.1).2⟩
    intro a ha b hb hab
    have hge : EdgeIn g a b := (hCcl c hc'.1).1.2 a ha b hb hab
    rw [hg']
    refine ⟨hge, ?_⟩
    intro z hz hpz
    rcases List.mem_append.1 hz with hz | hz
    · exact h4 a b hge z hz hpz
    · have hzz := (hZ z).1 hz
      exact aux_scoreZero_disjoint hn.1 hClmc hzz.1 hc'.1 (fun e => hc'.2 (e ▸ hzz.2)) hzz.2 a b hpz
        ⟨ha, hb, hab⟩
  · show removeAll g (EC ++ C.filter (scoreZero C)) ≠ [] → (C.filter fun c => ¬ scoreZero C c) ≠ []
    intro hne
    obtain ⟨e, he⟩ := List.exists_mem_of_ne_nil _ hne
    have hein := edgeIn_of_mem he
    obtain ⟨hge, hno⟩ := (hg' _ _).1 hein
    have hab : e.1 ≠ e.2 := hge.ne hlf
    have hnodes := hn.mem_of_edgeIn (hge.mono hsub.subset)
    obtain ⟨c, hc, hp⟩ := aux_edge_in_some_lmc hn.1 hge hab hnodes.1 hnodes.2 hm
    have hcC : c ∈ C := (hCmem c).2 ⟨hc, two_le_length_of_hasPair hp⟩
    have hnz : ¬ scoreZero C c = true := fun hz =>
      hno c (List.mem_append_right _ ((hZ c).2 ⟨hcC, hz⟩)) hp
    exact List.ne_nil_of_mem (List.mem_filter.2 ⟨hcC, by simpa using hnz⟩)

/-- without isolated vertices `lmc` of the input graph has no singleton -/
theorem lmc_no_singletons {edges : List Edge} {nodes : List Nat} {m0 : Nat} (hs : Simple edges)
    (hn : NodesOf edges nodes) (hm : 2 ≤ m0) : ∀ c ∈ lmc edges nodes m0, 2 ≤ c.length := by
  intro c hc
  have h1 := (aux_mem_lmc hn.1 hc).2.2.1 (by omega)
  by_contra hlt
  have hcm := lmc_maximal_of_lt hc (by omega)
  obtain ⟨_, _, hsub, hmax⟩ := (aux_mem_maximalCliques_iff hn.1).1 hcm
  match c, h1, hlt with
  | [v], _, _ =>
    obtain ⟨e, he, hev⟩ := (hn.2 v).1 (hsub v List.mem_cons_self)
    have hloop := hs.loopFree e he
    have key : ∀ w, EdgeIn edges w v → w ≠ v → False := by
      intro w hw hne
      obtain ⟨y, hy, hny⟩ := hmax w (hn.mem_of_edgeIn hw).1 (by simpa using hne)
      rw [List.mem_singleton] at hy
      subst hy
      exact hny hw
    rcases hev with rfl | rfl
    · exact key e.2 (edgeIn_of_mem he).symm (fun h => hloop h.symm)
    · exact key e.1 (edgeIn_of_mem he) hloop
  | _ :: _ :: _, _, h => exact h (by simp)

theorem aux_inv_init {edges : List Edge} {nodes : List Nat} {m0 : Nat} (hs : Simple edges)
    (hn : NodesOf edges nodes) (hm : 2 ≤ m0) : Inv edges nodes m0 (init edges nodes m0) :=
  inv_rescore hs hn hm (List.Sublist.refl _) (by simp) List.Pairwise.nil (by simp) (by simp)
    (Or.inr (lmc_no_singletons hs hn hm))

theorem step_eq {nodes : List Nat} {m0 : Nat} {s : St} {pick : List Nat} (h : pick ∈ s.C) :
    step nodes m0 s pick = some (rescore nodes m0 true (removePairs s.g pick) (s.EC ++ [pick])) := by
  simp [step, h]

theorem step_some {nodes : List Nat} {m0 : Nat} {s s' : St} {pick : List Nat}
    (h : step nodes m0 s pick = some s') :
    pick ∈ s.C ∧ s' = rescore nodes m0 true (removePairs s.g pick) (s.EC ++ [pick]) := by
  unfold step at h
  split at h
  · rename_i hp
    exact ⟨hp, (Option.some.inj h).symm⟩
  · exact absurd h (by simp)

theorem aux_inv_step {edges : List Edge} {nodes : List Nat} {m0 : Nat} (hs : Simple edges)
    (hn : NodesOf edges nodes) (hm : 2 ≤ m0) {s s' : St} {pick : List Nat}
    (hi : Inv edges nodes m0 s) (hstep : step nodes m0 s pick = some s') : Inv edges nodes m0 s' := by
  obtain ⟨hp, rfl⟩ := step_some hstep
  have hlf : LoopFree s.g := hs.loopFree.sublist hi.sub
  have hpc := hi.c_clique pick hp
  refine inv_rescore hs hn hm ((removePairs_sublist _ _).trans hi.sub) ?_ ?_ ?_ ?_ (Or.inl rfl)
  · intro c hc
    rcases List.mem_append.1 hc with hc | hc
    · exact hi.ec_clique c hc
    · rw [List.mem_singleton] at hc
      subst hc
      exact ⟨hpc.1.mono hi.sub.subset, hpc.2⟩
  · rw [List.pairwise_append]
    refine ⟨hi.ec_disjoint, List.pairwise_singleton _ _, ?_⟩
    intro x hx y hy a b hpx hpy
    rw [List.mem_singleton] at hy
    subst hy
    exact hi.excl a b (hpc.1.edgeIn hpy) x hx hpx
  · intro a b
    rw [edgeIn_removePairs hlf, hi.cover a b]
    constructor
    · rintro (hg | ⟨c, hc, hpr⟩)
      · by_cases hpp : HasPair pick a b
        · exact Or.inr ⟨pick, by simp, hpp⟩
        · exact Or.inl ⟨hg, hpp⟩
      · exact Or.inr ⟨c, List.mem_append_left _ hc, hpr⟩
    · rintro (⟨hg, _⟩ | ⟨c, hc, hpr⟩)
      · exact Or.inl hg
      · rcases List.mem_append.1 hc with hc | hc
        · exact Or.inr ⟨c, hc, hpr⟩
        · rw [List.mem_singleton] at hc
          subst hc
          exact Or.inl (hpc.1.edgeIn hpr)
  · intro a b he c hc
    rw [edgeIn_removePairs hlf] at he
    rcases List.mem_append.1 hc with hc | hc
    · exact hi.excl a b he.1 c hc
    · rw [List.mem_singleton] at hc
      subst hc
      exact he.2

/-! ### progress and termination -/

theorem removePairs_length_lt {g : List Edge} {c : List Nat} {a b : Nat} (hp : HasPair c a b)
    (he : EdgeIn g a b) : (removePairs g c).length < g.length := by
  unfold removePairs
  rw [List.length_filter_lt_length_iff_exists]
  rcases edgeIn_iff.1 he with h | h
  · refine ⟨(a, b), h, ?_⟩
    simpa using (exists_pair_norm_iff hp.2.2).2 hp
  · refine ⟨(b, a), h, ?_⟩
    simpa using (exists_pair_norm_iff hp.symm.2.2).2 hp.symm

theorem rescore_g_length_le (nodes : List Nat) (m0 : Nat) (drop : Bool) (g : List Edge)
    (EC : List (List Nat)) : (rescore nodes m0 drop g EC).g.length ≤ g.length := by
  rw [rescore_eq]
  exact (removeAll_sublist _ _).length_le

/-- while edges remain the candidate list is non-empty, and EVERY allowed pick removes at least one edge -/
theorem aux_progress {edges : List Edge} {nodes : List Nat} {m0 : Nat} {s : St}
    (hi : Inv edges nodes m0 s) (hne : s.g ≠ []) :
    s.C ≠ [] ∧ ∀ pick ∈ s.C, ∃ s', step nodes m0 s pick = some s' ∧ s'.g.length < s.g.length := by
  refine ⟨hi.c_ne hne, ?_⟩
  intro pick hp
  refine ⟨_, step_eq hp, ?_⟩
  have hpc := hi.c_clique pick hp
  obtain ⟨a, b, hab⟩ := exists_hasPair_of_two_le hpc.1.1 hpc.2.1
  exact Nat.lt_of_le_of_lt (rescore_g_length_le _ _ _ _ _)
    (removePairs_length_lt hab (hpc.1.edgeIn hab))

theorem run_terminates_aux {edges : List Edge} {nodes : List Nat} {m0 : Nat} (hs : Simple edges)
    (hn : NodesOf edges nodes) (hm : 2 ≤ m0) :
    ∀ (n : Nat) (s : St), s.g.length ≤ n → Inv edges nodes m0 s →
      ∃ picks s', run nodes m0 s picks = some s' ∧ picks.length ≤ s.g.length := by
  intro n
  induction n with
  | zero =>
    intro s hl _
    have : s.g = [] := List.eq_nil_of_length_eq_zero (by omega)
    exact ⟨[], s, by simp [run, this], by simp⟩
  | succ n ih =>
    intro s hl hi
    by_cases hg : s.g = []
    · exact ⟨[], s, by simp [run, hg], by simp⟩
    · obtain ⟨hC, hall⟩ := aux_progress hi hg
      obtain ⟨pick, hp⟩ := List.exists_mem_of_ne_nil _ hC
      obtain ⟨s1, hstep, hlt⟩ := hall pick hp
      obtain ⟨picks, s', hrun, hlen⟩ := ih s1 (by omega) (aux_inv_step hs hn hm hi hstep)
      refine ⟨pick :: picks, s', ?_, by simp only [List.length_cons]; omega⟩
      simp [run, hg, hstep, hrun]

/-- from any state satisfying the invariant some pick sequence of at most `|E(g)|` picks finishes the loop -/
theorem aux_run_terminates {edges : List Edge} {nodes : List Nat} {m0 : Nat} (hs : Simple edges)
    (hn : NodesOf edges nodes) (hm : 2 ≤ m0) {s : St} (hi : Inv edges nodes m0 s) :
    ∃ picks s', run nodes m0 s picks = some s' ∧ picks.length ≤ s.g.length :=
  run_terminates_aux hs hn hm _ s (Nat.le_refl _) hi

/-! ### runs -/

theorem run_cons_some {nodes : List Nat} {m0 : Nat} {s s' : St} {p : List Nat} {ps : List (List Nat)}
    (h : run nodes m0 s (p :: ps) = some s') :
    ∃ s1, step nodes m0 s p = some s1 ∧ run nodes m0 s1 ps = some s' := by
  simp only [run] at h
  split at h
  · exact absurd h (by simp)
  · split at h
    · exact absurd h (by simp)
    · rename_i s1 hs1
      exact ⟨s1, hs1, h⟩

theorem inv_run {edges : List Edge} {nodes : List Nat} {m0 : Nat} (hs : Simple edges)
    (hn : NodesOf edges nodes) (hm : 2 ≤ m0) :
    ∀ (picks : List (List Nat)) (s s' : St), Inv edges nodes m0 s → run nodes m0 s picks = some s' →
      Inv edges nodes m0 s' := by
  intro picks
  induction picks with
  | nil =>
    intro s s' hi h
    simp only [run] at h
    split at h
    · exact (Option.some.inj h) ▸ hi
    · exact absurd h (by simp)
  | cons p ps ih =>
    intro s s' hi h
    obtain ⟨s1, h1, h2⟩ := run_cons_some h
    exact ih s1 s' (aux_inv_step hs hn hm hi h1) h2

theorem run_g_empty {nodes : List Nat} {m0 : Nat} :
    ∀ (picks : List (List Nat)) (s s' : St), run nodes m0 s picks = some s' → s'.g = [] := by
  intro picks
  induction picks with
  | nil =>
    intro s s' h
    simp only [run] at h
    split at h
    · rename_i he
      exact (Option.some.inj h) ▸ (List.isEmpty_iff.1 he)
    · exact absurd h (by simp)
  | cons p ps ih =>
    intro s s' h
    obtain ⟨s1, _, h2⟩ := run_cons_some h
    exact ih s1 s' h2

theorem step_EC_mono {nodes : List Nat} {m0 : Nat} {s s' : St} {p : List Nat}
    (h : step nodes m0 s p = some s') : ∀ c ∈ s.EC, c ∈ s'.EC := by
  obtain ⟨_, rfl⟩ := step_some h
  intro c hc
  rw [rescore_eq]
  exact List.mem_append_left _ (List.mem_append_left _ hc)

theorem run_EC_mono {nodes : List Nat} {m0 : Nat} :
    ∀ (picks : List (List Nat)) (s s' : St), run nodes m0 s picks = some s' → ∀ c ∈ s.EC, c ∈ s'.EC := by
  intro picks
  induction picks with
  | nil =>
    intro s s' h
    simp only [run] at h
    split at h
    · exact (Option.some.inj h) ▸ fun c hc => hc
    · exact absurd h (by simp)
  | cons p ps ih =>
    intro s s' h c hc
    obtain ⟨s1, h1, h2⟩ := run_cons_some h
    exact ih s1 s' h2 c (step_EC_mono h1 c hc)

/-- a maximal clique of at most `m0` vertices that shares no pair with any other maximal clique has score 0
    in the first scoring round -/
theorem isolated_maximal_in_init {edges : List Edge} {nodes : List Nat} {m0 : Nat} (hn : nodes.Nodup)
    {c : List Nat} (hc : c ∈ maximalCliques edges nodes) (hle : c.length ≤ m0)
    (hiso : ∀ d ∈ maximalCliques edges nodes, d ≠ c → ∀ a b, HasPair c a b → ¬ HasPair d a b) :
    c ∈ (init edges nodes m0).EC := by
  unfold init
  rw [rescore_eq]
  have hS : scoredList nodes m0 false edges = lmc edges nodes m0 := by simp [scoredList]
  rw [hS, List.nil_append, List.mem_filter]
  refine ⟨mem_lmc_iff.2 ⟨c, hc, Or.inr ⟨hle, rfl⟩⟩, scoreZero_iff.2 (Or.inr ?_)⟩
  obtain ⟨_, hcl, _, _⟩ := (aux_mem_maximalCliques_iff hn).1 hc
  intro a b hp d hd hne hab
  have hpc : HasPair c a b := ⟨(mem_pairs_mem hp).1, (mem_pairs_mem hp).2, Nat.ne_of_lt (mem_pairs_lt hcl.1 hp)⟩
  obtain ⟨d', hd', h⟩ := mem_lmc_iff.1 hd
  rcases h with ⟨hlt, hsl, _⟩ | ⟨_, rfl⟩
  · refine hiso d' hd' (fun e => ?_) a b hpc ⟨hsl.subset hab.1, hsl.subset hab.2, hpc.2.2⟩
    rw [e] at hlt; omega
  · exact hiso d hd' hne a b hpc ⟨hab.1, hab.2, hpc.2.2⟩

theorem aux_candidates_subset (s : St) : ∀ c ∈ candidates s, c ∈ s.C := by
  intro c hc
  unfold candidates at hc
  exact (List.mem_filter.1 (List.mem_filter.1 hc).1).1

/-- in a pairwise-`R` list at most one member satisfies a predicate that is incompatible with `R` -/
theorem filter_length_le_one {α : Type} {R : α → α → Prop} {p : α → Bool} {l : List α}
    (hl : l.Pairwise R) (hR : ∀ x y, p x = true → p y = true → ¬ R x y) : (l.filter p).length ≤ 1 := by
  induction l with
  | nil => simp
  | cons x xs ih =>
    rw [List.pairwise_cons] at hl
    rw [List.filter_cons]
    split
    · rename_i hx
      have : xs.filter p = [] := by
        rw [List.filter_eq_nil_iff]
        intro y hy hpy
        exact hR x y hx hpy (hl.1 y hy)
      simp [this]
    · exact ih hl.2

/-- a symmetric pairwise relation holds between any two distinct members -/
theorem pairwise_forall_ne {α : Type} {R : α → α → Prop} (hsym : ∀ x y, R x y → R y x) {l : List α}
    (h : l.Pairwise R) : ∀ x ∈ l, ∀ y ∈ l, x ≠ y → R x y := by
  induction l with
  | nil => intro x hx; simp at hx
  | cons a as ih =>
    rw [List.pairwise_cons] at h
    intro x hx y hy hne
    rcases List.mem_cons.1 hx with rfl | hx' <;> rcases List.mem_cons.1 hy with rfl | hy'
    · exact absurd rfl hne
    · exact h.1 y hy'
    · exact hsym _ _ (h.1 x hx')
    · exact ih h.2 x hx' y hy' hne

end Gcmpy.EECC
