import GcmpyModel.Model.Automated
import GcmpyModel.Lemmas.Dict
/-!
The two structural caches of the `AutomatedEquation` evaluator (`_connected_subgraphs`, `_edge_combinations`)
are transparent: as long as equal names denote equal motifs, the cached evaluator returns exactly the value
of a fresh (stateless) evaluation, whatever was evaluated before.
-/
namespace Gcmpy.Automated
open Gcmpy Gcmpy.Graph

/-- `γ name` is the motif that the name denotes ("distinctly named motifs": equal names denote equal graphs) -/
def Valid (γ : String → Motif) (st : Caches) : Prop :=
  (∀ root name r, Dict.get st.conn (root, name) = some r → r = connectedSubgraphs (γ name) root) ∧
  (∀ c name r, Dict.get st.combos (c, name) = some r → r = edgeCombinations (inner (γ name) c))

theorem valid_empty (γ : String → Motif) : Valid γ Caches.empty := by
  constructor
  · intro root name r h; simp [Caches.empty, Dict.get] at h
  · intro c name r h; simp [Caches.empty, Dict.get] at h

theorem getConn_spec {γ : String → Motif} {st : Caches} {G : Motif} {name : String} (root : Nat)
    (hv : Valid γ st) (hG : γ name = G) :
    (getConn st G name root).2 = connectedSubgraphs G root ∧ Valid γ (getConn st G name root).1 := by
  unfold getConn
  cases h : Dict.get st.conn (root, name) with
  | some r =>
    refine ⟨?_, hv⟩
    have := hv.1 root name r h
    rw [hG] at this
    exact this
  | none =>
    refine ⟨rfl, ?_, ?_⟩
    · intro root' name' r' h'
      simp only [Dict.get_set] at h'
      split at h'
      · next e =>
        cases e
        cases h'
        rw [hG]
      · exact hv.1 root' name' r' h'
    · intro c name' r' h'
      exact hv.2 c name' r' h'

theorem getCombos_spec {γ : String → Motif} {st : Caches} {g : Motif} {name : String} (c : List Nat)
    (hv : Valid γ st) (hg : g = inner (γ name) c) :
    (getCombos st g name c).2 = edgeCombinations g ∧ Valid γ (getCombos st g name c).1 := by
  unfold getCombos
  cases h : Dict.get st.combos (c, name) with
  | some r =>
    refine ⟨?_, hv⟩
    have := hv.2 c name r h
    rw [← hg] at this
    exact this
  | none =>
    refine ⟨rfl, ?_, ?_⟩
    · intro root' name' r' h'
      exact hv.1 root' name' r' h'
    · intro c' name' r' h'
      simp only [Dict.get_set] at h'
      split at h'
      · next e =>
        cases e
        cases h'
        rw [hg]
      · exact hv.2 c' name' r' h'

section ring
variable {R : Type} [Add R] [Sub R] [Mul R] [OfNat R 0] [OfNat R 1]

/-- the loop over the components, with a generalised accumulator and an arbitrary valid starting state -/
theorem foldl_transparent {γ : String → Motif} {G : Motif} {name : String} (hG : γ name = G)
    (p : R) (u : Nat → R) (root : Nat) (comps : List (List Nat)) :
    ∀ (st : Caches) (r : R), Valid γ st →
      (comps.foldl (fun (acc : Caches × R) c =>
          if c.length = 1 then (acc.1, acc.2 + componentTerm G p u root c [])
          else
            let (st', cb) := getCombos acc.1 (inner G c) name c
            (st', acc.2 + componentTerm G p u root c cb)) (st, r)).2
        = comps.foldl (fun acc c => acc + componentTerm G p u root c
            (if c.length = 1 then [] else edgeCombinations (inner G c))) r
      ∧ Valid γ (comps.foldl (fun (acc : Caches × R) c =>
          if c.length = 1 then (acc.1, acc.2 + componentTerm G p u root c [])
          else
            let (st', cb) := getCombos acc.1 (inner G c) name c
            (st', acc.2 + componentTerm G p u root c cb)) (st, r)).1 := by
  induction comps with
  | nil => intro st r hv; exact ⟨rfl, hv⟩
  | cons c cs ih =>
    intro st r hv
    simp only [List.foldl_cons]
    by_cases hc : c.length = 1
    · simp only [hc, if_true]
      exact ih st _ hv
    · simp only [hc, if_false]
      have hs := getCombos_spec (γ := γ) (st := st) (g := inner G c) (name := name) c hv (by rw [hG])
      rw [← hs.1]
      exact ih _ _ hs.2

/-- the cached evaluator returns exactly the stateless value and keeps every cache entry correct -/
theorem cache_transparent {γ : String → Motif} {st : Caches} {G : Motif} {name : String}
    (p : R) (u : Nat → R) (root : Nat) (hv : Valid γ st) (hG : γ name = G) :
    (automatedEquationM st G name p u root).2 = automatedEquation G p u root
      ∧ Valid γ (automatedEquationM st G name p u root).1 := by
  have hc := getConn_spec (γ := γ) (st := st) (G := G) (name := name) root hv hG
  unfold automatedEquationM automatedEquation
  rw [← hc.1]
  exact foldl_transparent hG p u root _ _ 0 hc.2

/-- one call on the evaluator object: the motif is referred to by its name -/
structure Call (R : Type) where
  name : String
  p : R
  u : Nat → R
  root : Nat

/-- a sequence of calls on one evaluator, threading the caches -/
def runCalls (γ : String → Motif) : Caches → List (Call R) → Caches × List R
  | st, [] => (st, [])
  | st, c :: cs =>
    let (st', v) := automatedEquationM st (γ c.name) c.name c.p c.u c.root
    let (st'', vs) := runCalls γ st' cs
    (st'', v :: vs)

theorem runCalls_spec (γ : String → Motif) (calls : List (Call R)) :
    ∀ st : Caches, Valid γ st →
      (runCalls γ st calls).2 = calls.map (fun c => automatedEquation (γ c.name) c.p c.u c.root)
      ∧ Valid γ (runCalls γ st calls).1 := by
  induction calls with
  | nil => intro st hv; exact ⟨rfl, hv⟩
  | cons c cs ih =>
    intro st hv
    have h1 := cache_transparent (γ := γ) (st := st) (G := γ c.name) (name := c.name) c.p c.u c.root hv rfl
    have h2 := ih _ h1.2
    simp only [runCalls, List.map_cons]
    exact ⟨by rw [h1.1, h2.1], h2.2⟩

/-- for every sequence of calls on one (initially fresh) evaluator, each value equals what a fresh
    evaluator returns: it does not depend on which motifs, roots, `p` or `u` were evaluated earlier -/
theorem calls_independent_of_history (γ : String → Motif) (calls : List (Call R)) :
    (runCalls γ Caches.empty calls).2 = calls.map (fun c => automatedEquation (γ c.name) c.p c.u c.root) :=
  (runCalls_spec γ calls Caches.empty (valid_empty γ)).1

end ring

/-! ### why "distinctly named" is needed -/

/-- a single edge 0-1 -/
def cexEdge : Motif := ⟨[0, 1], [(0, 1)]⟩
/-- the path 0-1-2 -/
def cexPath : Motif := ⟨[0, 1, 2], [(0, 1), (1, 2)]⟩

/-- Two different motifs evaluated under the same name `"m"` (root 0, `p = 2`, `u ≡ 3`, over `Int`):
    the second value comes from the stale cache entry of the first motif and differs from the stateless value. -/
example :
    let st1 := (automatedEquationM (R := Int) Caches.empty cexEdge "m" 2 (fun _ => 3) 0).1
    (automatedEquationM (R := Int) st1 cexPath "m" 2 (fun _ => 3) 0).2
      ≠ automatedEquation (R := Int) cexPath 2 (fun _ => 3) 0 := by
  decide +kernel

/-- the concrete values: the stale `"0-m"` entry `[[0], [1, 0]]` hides the component `[2, 1, 0]`, giving `-7`
    instead of `29` -/
example :
    let st1 := (automatedEquationM (R := Int) Caches.empty cexEdge "m" 2 (fun _ => 3) 0).1
    (automatedEquationM (R := Int) st1 cexPath "m" 2 (fun _ => 3) 0).2 = -7
      ∧ automatedEquation (R := Int) cexPath 2 (fun _ => 3) 0 = 29
      ∧ Dict.get st1.conn (0, "m") = some [[0], [1, 0]]
      ∧ connectedSubgraphs cexPath 0 = [[0], [1, 0], [2, 1, 0]] := by
  decide +kernel

end Gcmpy.Automated
