import GcmpyModel.Model.Generate
import GcmpyModel.Lemmas.Shuffle
/-! Lemmas about stubs, chunking and the motif records of the generators. -/
namespace Gcmpy.Generate

/-! ### chunks -/

theorem chunks_nil (n : Nat) : chunks n [] = [] := by
  rw [chunks]; simp

theorem chunks_zero (l : List Nat) : chunks 0 l = [] := by
  rw [chunks]; simp

theorem chunks_cons_eq (n : Nat) (l : List Nat) (hn : 0 < n) (hl : l ≠ []) :
    chunks n l = l.take n :: chunks n (l.drop n) := by
  rw [chunks]
  have : ¬ (n = 0 ∨ l = []) := by
    intro h; rcases h with h | h
    · omega
    · exact hl h
  simp [this]

theorem chunks_flatten (n : Nat) (hn : 0 < n) (l : List Nat) : (chunks n l).flatten = l := by
  fun_induction chunks n l with
  | case1 l h =>
    rcases h with h | h
    · omega
    · simp [h]
  | case2 l h ih => simp [ih]

theorem chunks_of_dvd (n : Nat) (hn : 0 < n) (l : List Nat) (hd : n ∣ l.length) :
    (chunks n l).length = l.length / n ∧ ∀ c ∈ chunks n l, c.length = n := by
  fun_induction chunks n l with
  | case1 l h =>
    rcases h with h | h
    · omega
    · simp [h]
  | case2 l h ih =>
    have hl : l ≠ [] := fun e => h (Or.inr e)
    have hpos : 0 < l.length := List.length_pos_iff.2 hl
    have hle : n ≤ l.length := Nat.le_of_dvd hpos hd
    have hd' : n ∣ (l.drop n).length := by
      rw [List.length_drop]; exact Nat.dvd_sub hd (Nat.dvd_refl n)
    rcases ih hd' with ⟨h1, h2⟩
    constructor
    · simp only [List.length_cons, h1, List.length_drop]
      rcases hd with ⟨q, hq⟩
      rw [hq]
      have hq0 : 0 < q := by
        rcases Nat.eq_zero_or_pos q with h0 | h0
        · subst h0; omega
        · exact h0
      have e1 : (n * q - n) = n * (q - 1) := by
        rw [Nat.mul_sub_one]
      rw [e1, Nat.mul_div_cancel_left _ hn, Nat.mul_div_cancel_left _ hn]; omega
    · intro c hc
      rcases List.mem_cons.1 hc with rfl | hc
      · simp [List.length_take]; omega
      · exact h2 c hc

/-! ### stubs -/

theorem length_stubsFrom (v0 : Nat) (jds : List (List Nat)) (k : Nat) :
    (stubsFrom v0 jds k).length = colSum jds k := by
  induction jds generalizing v0 with
  | nil => simp [stubsFrom, colSum]
  | cons r rs ih => simp [stubsFrom, colSum, ih] at *

theorem length_stubs (jds : List (List Nat)) (k : Nat) : (stubs jds k).length = colSum jds k :=
  length_stubsFrom 0 jds k

theorem count_stubsFrom (v0 : Nat) (jds : List (List Nat)) (k v : Nat) :
    (stubsFrom v0 jds k).count v =
      if v0 ≤ v ∧ v < v0 + jds.length then (jds.getD (v - v0) []).getD k 0 else 0 := by
  induction jds generalizing v0 with
  | nil => simp [stubsFrom]
  | cons r rs ih =>
    simp only [stubsFrom, List.count_append, List.count_replicate, ih, List.length_cons]
    by_cases h1 : v = v0
    · subst h1
      have : ¬ (v + 1 ≤ v ∧ v < v + 1 + rs.length) := by omega
      simp [this]
    · have hne : (v0 == v) = false := by simp; omega
      rw [hne]
      by_cases h2 : v0 + 1 ≤ v ∧ v < v0 + 1 + rs.length
      · have h3 : v0 ≤ v ∧ v < v0 + (rs.length + 1) := by omega
        rw [if_pos h2, if_pos h3]
        have : v - v0 = (v - (v0 + 1)) + 1 := by omega
        rw [this]; simp
      · have h3 : ¬ (v0 ≤ v ∧ v < v0 + (rs.length + 1)) := by omega
        rw [if_neg h2, if_neg h3]; simp

theorem count_stubs (jds : List (List Nat)) (k v : Nat) :
    (stubs jds k).count v = if v < jds.length then (jds.getD v []).getD k 0 else 0 := by
  unfold stubs; rw [count_stubsFrom]; simp

theorem mem_stubs_lt (jds : List (List Nat)) (k v : Nat) (h : v ∈ stubs jds k) : v < jds.length := by
  have := count_stubs jds k v
  have hp : 0 < (stubs jds k).count v := List.count_pos_iff.2 h
  split at this
  · assumption
  · omega

/-! ### groups and motif records of the fast generator -/

def groupsFrom (i0 : Nat) (sizes : List Nat) (σ : List (List Nat)) : List (Nat × List Nat) :=
  (σ.zipIdx i0).flatMap fun (l, k) => (chunks (sizes.getD k 0) l).map fun c => (k, c)

theorem groups_eq (sizes : List Nat) (σ : List (List Nat)) : groups sizes σ = groupsFrom 0 sizes σ := rfl

theorem groupsFrom_filter (i0 : Nat) (sizes : List Nat) (σ : List (List Nat)) (k : Nat) :
    ((groupsFrom i0 sizes σ).filter (fun g => g.1 = k)).map (·.2) =
      if i0 ≤ k then chunks (sizes.getD k 0) (σ.getD (k - i0) []) else [] := by
  induction σ generalizing i0 with
  | nil => simp [groupsFrom, chunks_nil]
  | cons l ls ih =>
    have ih' := ih (i0 + 1)
    unfold groupsFrom at ih' ⊢
    simp only [List.zipIdx_cons, List.flatMap_cons, List.filter_append, List.map_append, ih']
    by_cases h1 : i0 = k
    · subst h1
      have : ¬ (i0 + 1 ≤ i0) := by omega
      simp [this, List.filter_map, Function.comp_def]
    · have hf : List.filter (fun g : Nat × List Nat => decide (g.1 = k))
          (List.map (fun c => (i0, c)) (chunks (sizes.getD i0 0) l)) = [] := by
        simp [List.filter_map, Function.comp_def, h1]
      rw [hf]
      by_cases h2 : i0 + 1 ≤ k
      · have h3 : i0 ≤ k := by omega
        have : k - i0 = (k - (i0 + 1)) + 1 := by omega
        simp [h2, h3, this]
      · have h3 : ¬ i0 ≤ k := by omega
        simp [h2, h3]

theorem groups_filter (sizes : List Nat) (σ : List (List Nat)) (k : Nat) :
    ((groups sizes σ).filter (fun g => g.1 = k)).map (·.2) = chunks (sizes.getD k 0) (σ.getD k []) := by
  rw [groups_eq, groupsFrom_filter]; simp

theorem motifsFast_proj {β : Type} (sizes : List Nat) (build : Nat → List Nat → β) (σ : List (List Nat)) :
    (motifsFast sizes build σ).map (fun m => (m.top, m.verts)) = groups sizes σ := by
  unfold motifsFast
  rw [List.map_map]
  have : ((fun m : Motif β => (m.top, m.verts)) ∘ fun (x : (Nat × List Nat) × Nat) =>
      match x with | ((k, c), id) => (⟨k, id, c, build k c⟩ : Motif β)) = Prod.fst := by
    funext ⟨⟨k, c⟩, id⟩; rfl
  rw [this, List.zipIdx_map_fst]

theorem motifsFast_ids {β : Type} (sizes : List Nat) (build : Nat → List Nat → β) (σ : List (List Nat)) :
    (motifsFast sizes build σ).map (·.id) = List.range (groups sizes σ).length := by
  unfold motifsFast
  rw [List.map_map]
  have : ((fun m : Motif β => m.id) ∘ fun (x : (Nat × List Nat) × Nat) =>
      match x with | ((k, c), id) => (⟨k, id, c, build k c⟩ : Motif β)) = Prod.snd := by
    funext ⟨⟨k, c⟩, id⟩; rfl
  rw [this, List.zipIdx_map_snd]; simp [List.range_eq_range']

theorem motifsFast_built {β : Type} (sizes : List Nat) (build : Nat → List Nat → β) (σ : List (List Nat))
    (m : Motif β) (hm : m ∈ motifsFast sizes build σ) : m.built = build m.top m.verts := by
  unfold motifsFast at hm
  rcases List.mem_map.1 hm with ⟨⟨⟨k, c⟩, id⟩, _, rfl⟩
  rfl

/-- the verts of the topology-`k` records, in order, are the chunks of the `k`-th shuffled stub list -/
theorem motifsFast_top {β : Type} (sizes : List Nat) (build : Nat → List Nat → β) (σ : List (List Nat)) (k : Nat) :
    ((motifsFast sizes build σ).filter (fun m => m.top = k)).map (·.verts) =
      chunks (sizes.getD k 0) (σ.getD k []) := by
  rw [← groups_filter, ← motifsFast_proj sizes build σ, List.filter_map, List.map_map]
  rfl

/-! ### the shuffled stub lists -/

theorem length_shuffled (jds : List (List Nat)) (draws : List (List Nat)) :
    (shuffled jds draws).length = ncols jds := by simp [shuffled]

theorem shuffled_getD_perm (jds : List (List Nat)) (draws : List (List Nat)) (k : Nat) (hk : k < ncols jds) :
    ((shuffled jds draws).getD k []).Perm (stubs jds k) := by
  unfold shuffled
  rw [List.getD_eq_getElem?_getD, List.getElem?_map, List.getElem?_range hk]
  exact Shuffle.shuffle_perm _ _ _

theorem mem_chunks_subset (n : Nat) (l c : List Nat) (hc : c ∈ chunks n l) (x : Nat) (hx : x ∈ c) : x ∈ l := by
  rcases Nat.eq_zero_or_pos n with h0 | hn
  · subst h0; rw [chunks_zero] at hc; cases hc
  · rw [← chunks_flatten n hn l]; exact List.mem_flatten.2 ⟨c, hc, hx⟩

theorem motifsFast_mem_chunks {β : Type} (sizes : List Nat) (build : Nat → List Nat → β) (σ : List (List Nat))
    (m : Motif β) (hm : m ∈ motifsFast sizes build σ) :
    m.verts ∈ chunks (sizes.getD m.top 0) (σ.getD m.top []) := by
  rw [← motifsFast_top sizes build σ m.top]
  exact List.mem_map.2 ⟨m, List.mem_filter.2 ⟨hm, by simp⟩, rfl⟩

theorem motifsFast_top_lt {β : Type} (sizes : List Nat) (build : Nat → List Nat → β) (σ : List (List Nat))
    (m : Motif β) (hm : m ∈ motifsFast sizes build σ) : m.top < σ.length := by
  have h := motifsFast_mem_chunks sizes build σ m hm
  rcases Nat.lt_or_ge m.top σ.length with h1 | h1
  · exact h1
  · have : σ.getD m.top [] = [] := by simp [List.getD_eq_getElem?_getD, List.getElem?_eq_none h1]
    rw [this, chunks_nil] at h; cases h

end Gcmpy.Generate
