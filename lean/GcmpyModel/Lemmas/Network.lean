import GcmpyModel.Model.Network
import GcmpyModel.Lemmas.Dict
/-! Helper lemmas for the edge-list <-> network conversion model (C04). -/
namespace Gcmpy.Network
open Gcmpy

abbrev Attr := Option String × Option Nat
abbrev EDict := List (Key × Attr)

/-- every vertex mentioned by an edge row is < N = number of joint-degree rows -/
def InRange (el : EL) : Prop :=
  ∀ e ∈ el.edges, e.1 < el.jointDegrees.length ∧ e.2 < el.jointDegrees.length
/-- the three columns are parallel -/
def Parallel (el : EL) : Prop :=
  el.topologies.length = el.edges.length ∧ el.motifId.length = el.edges.length

/-! ### `norm` -/

theorem norm_norm (e : Nat × Nat) : norm (norm e) = norm e := by
  simp only [norm]; ext <;> simp <;> omega

theorem norm_fst_le (e : Nat × Nat) : (norm e).1 ≤ (norm e).2 := by
  simp only [norm]; omega

theorem norm_lt {e : Nat × Nat} {N : Nat} (h : e.1 < N ∧ e.2 < N) : (norm e).1 < N ∧ (norm e).2 < N := by
  simp only [norm]; omega

/-! ### `Option` `mapM` -/

theorem mapM_eq_some {α β : Type} (f : α → Option β) (l : List α) (l' : List β)
    (h : l.map f = l'.map some) : l.mapM f = some l' := by
  induction l generalizing l' with
  | nil => cases l' <;> simp_all
  | cons a r ih =>
    cases l' with
    | nil => simp at h
    | cons b r' =>
      simp only [List.map_cons, List.cons.injEq] at h
      simp [List.mapM_cons, h.1, ih r' h.2]

theorem mapM_eq_none {α β : Type} (f : α → Option β) (l : List α) (a : α) (ha : a ∈ l)
    (h : f a = none) : l.mapM f = none := by
  induction l with
  | nil => simp at ha
  | cons b r ih =>
    rcases List.mem_cons.1 ha with rfl | ha'
    · simp [List.mapM_cons, h]
    · simp only [List.mapM_cons, ih ha']
      cases f b <;> rfl

theorem map_of_mapM_eq_some {α β : Type} (f : α → Option β) (l : List α) (l' : List β)
    (h : l.mapM f = some l') : l.map f = l'.map some := by
  induction l generalizing l' with
  | nil => simp at h; subst h; rfl
  | cons a r ih =>
    simp only [List.mapM_cons] at h
    cases hfa : f a with
    | none => simp [hfa] at h
    | some b =>
      cases hr : r.mapM f with
      | none => simp [hfa, hr] at h
      | some r' =>
        simp [hfa, hr] at h
        subst h
        simp [ih r' hr, hfa]

/-! ### `addNode`, `addEdges` -/

theorem addNode_of_mem {ns : List Nat} {n : Nat} (h : n ∈ ns) : addNode ns n = ns := by
  simp [addNode, h]

theorem addEdges_nodes (nodes : List Nat) (edges : EDict) (es : List (Nat × Nat))
    (h : ∀ e ∈ es, e.1 ∈ nodes ∧ e.2 ∈ nodes) : (addEdges nodes edges es).1 = nodes := by
  induction es generalizing edges with
  | nil => rfl
  | cons e r ih =>
    obtain ⟨u, v⟩ := e
    have huv := h (u, v) List.mem_cons_self
    simp only [addEdges, addNode_of_mem huv.1, addNode_of_mem huv.2]
    exact ih _ fun e he => h e (List.mem_cons_of_mem _ he)

theorem mem_keys_addEdges (nodes : List Nat) (edges : EDict) (es : List (Nat × Nat)) (k : Key) :
    k ∈ Dict.keys (addEdges nodes edges es).2 ↔ k ∈ Dict.keys edges ∨ ∃ e ∈ es, norm e = k := by
  induction es generalizing nodes edges with
  | nil => simp [addEdges]
  | cons e r ih =>
    obtain ⟨u, v⟩ := e
    simp only [addEdges]
    rw [ih]
    split
    · rename_i hc
      have hc' := (Dict.contains_iff_mem_keys _ _).1 hc
      constructor
      · rintro (h | ⟨e, he, hk⟩)
        · exact Or.inl h
        · exact Or.inr ⟨e, List.mem_cons_of_mem _ he, hk⟩
      · rintro (h | ⟨e, he, hk⟩)
        · exact Or.inl h
        · rcases List.mem_cons.1 he with rfl | he'
          · exact Or.inl (hk ▸ hc')
          · exact Or.inr ⟨e, he', hk⟩
    · simp only [Dict.keys, List.map_append, List.map_cons, List.map_nil, List.mem_append,
        List.mem_cons, List.not_mem_nil, or_false]
      constructor
      · rintro ((h | h) | ⟨e, he, hk⟩)
        · exact Or.inl h
        · exact Or.inr ⟨(u, v), Or.inl rfl, h.symm⟩
        · exact Or.inr ⟨e, Or.inr he, hk⟩
      · rintro (h | ⟨e, he | he, hk⟩)
        · exact Or.inl (Or.inl h)
        · subst he; exact Or.inl (Or.inr hk.symm)
        · exact Or.inr ⟨e, he, hk⟩

theorem nodup_keys_addEdges (nodes : List Nat) (edges : EDict) (es : List (Nat × Nat))
    (hn : (Dict.keys edges).Nodup) : (Dict.keys (addEdges nodes edges es).2).Nodup := by
  induction es generalizing nodes edges with
  | nil => simpa [addEdges] using hn
  | cons e r ih =>
    obtain ⟨u, v⟩ := e
    simp only [addEdges]
    apply ih
    split
    · exact hn
    · rename_i hc
      have hc' := mt (Dict.contains_iff_mem_keys _ _).2 hc
      simp only [Dict.keys, List.map_append, List.map_cons, List.map_nil]
      rw [List.nodup_append]
      refine ⟨hn, by simp, ?_⟩
      intro a ha b hb
      simp only [List.mem_singleton] at hb
      subst hb
      intro e; subst e; exact hc' ha

theorem keys_addEdges_of_nodup (nodes : List Nat) (edges : EDict) (es : List (Nat × Nat))
    (hn : (Dict.keys edges ++ es.map norm).Nodup) :
    Dict.keys (addEdges nodes edges es).2 = Dict.keys edges ++ es.map norm := by
  induction es generalizing nodes edges with
  | nil => simp [addEdges]
  | cons e r ih =>
    obtain ⟨u, v⟩ := e
    simp only [addEdges]
    have hnot : norm (u, v) ∉ Dict.keys edges := by
      intro hmem
      rw [List.nodup_append] at hn
      exact hn.2.2 _ hmem _ (by simp) rfl
    have hc : ¬ Dict.contains edges (norm (u, v)) = true :=
      mt (Dict.contains_iff_mem_keys _ _).1 hnot
    rw [if_neg hc, ih]
    · simp [Dict.keys]
    · simpa [Dict.keys] using hn

/-! ### `setJd` -/

theorem get_setJd_zipIdx (nodes : List Nat) (l : List (List Nat)) (k : Nat) (d : List (Nat × List Nat))
    (hnodes : ∀ n, k ≤ n → n < k + l.length → n ∈ nodes) (v : Nat) :
    Dict.get (setJd nodes ((l.zipIdx k).map fun (j, n) => (n, j)) d) v =
      if h : k ≤ v ∧ v < k + l.length then some (l[v - k]'(by omega)) else Dict.get d v := by
  induction l generalizing k d with
  | nil =>
    simp only [List.zipIdx_nil, List.map_nil, setJd, List.length_nil, Nat.add_zero]
    rw [dif_neg (by omega)]
  | cons a r ih =>
    simp only [List.zipIdx_cons, List.map_cons, setJd]
    have hk : k ∈ nodes := hnodes k (Nat.le_refl _) (by simp)
    rw [if_pos hk, ih (k + 1) _ (fun n h1 h2 => hnodes n (by omega) (by simp; omega))]
    by_cases h1 : k + 1 ≤ v ∧ v < k + 1 + r.length
    · rw [dif_pos h1, dif_pos (by simp; omega)]
      have : v - k = (v - (k + 1)) + 1 := by omega
      simp [this]
    · rw [dif_neg h1]
      by_cases h2 : v = k
      · subst h2
        rw [dif_pos (by simp), Dict.get_set_self]
        simp
      · rw [dif_neg (by simp; omega), Dict.get_set_ne _ _ (fun e => h2 e.symm)]

/-! ### `attrDict` -/

theorem mem_attrDict (rows : List ((Nat × Nat) × String × Nat)) (d : List ((Nat × Nat) × (String × Nat)))
    (x : (Nat × Nat) × (String × Nat)) (hx : x ∈ attrDict rows d) : x ∈ d ∨ x ∈ rows := by
  induction rows generalizing d with
  | nil => exact Or.inl hx
  | cons r rs ih =>
    obtain ⟨e, name, id⟩ := r
    simp only [attrDict] at hx
    rcases ih _ hx with h | h
    · rcases Dict.mem_set _ _ _ _ h with h' | h'
      · exact Or.inl h'
      · exact Or.inr (h' ▸ List.mem_cons_self)
    · exact Or.inr (List.mem_cons_of_mem _ h)

theorem mem_keys_attrDict (rows : List ((Nat × Nat) × String × Nat)) (d : List ((Nat × Nat) × (String × Nat)))
    (e : Nat × Nat) (he : e ∈ Dict.keys d ∨ e ∈ rows.map (·.1)) : e ∈ Dict.keys (attrDict rows d) := by
  induction rows generalizing d with
  | nil => simpa [attrDict] using he
  | cons r rs ih =>
    obtain ⟨e', name, id⟩ := r
    simp only [attrDict]
    apply ih
    rw [Dict.mem_keys_set]
    simp only [List.map_cons, List.mem_cons] at he
    rcases he with h | h | h
    · exact Or.inl (Or.inr h)
    · exact Or.inl (Or.inl h)
    · exact Or.inr h

/-! ### `applyAttrs` -/

theorem keys_applyAttrs (edges : EDict) (D : List ((Nat × Nat) × (String × Nat))) :
    Dict.keys (applyAttrs edges D) = Dict.keys edges := by
  induction D generalizing edges with
  | nil => rfl
  | cons x r ih =>
    obtain ⟨e, name, id⟩ := x
    simp only [applyAttrs]
    rw [ih]
    split
    · rename_i hc
      exact Dict.keys_set_of_mem _ _ _ ((Dict.contains_iff_mem_keys _ _).1 hc)
    · rfl

/-- value written for a key all of whose attribute rows agree -/
theorem get_applyAttrs (edges : EDict) (D : List ((Nat × Nat) × (String × Nat))) (k : Key)
    (val : String × Nat) (hk : k ∈ Dict.keys edges)
    (hall : ∀ x ∈ D, norm x.1 = k → x.2 = val)
    (h : (∃ x ∈ D, norm x.1 = k) ∨ Dict.get edges k = some (some val.1, some val.2)) :
    Dict.get (applyAttrs edges D) k = some (some val.1, some val.2) := by
  induction D generalizing edges with
  | nil =>
    rcases h with ⟨x, hx, _⟩ | h
    · simp at hx
    · exact h
  | cons x r ih =>
    obtain ⟨e, name, id⟩ := x
    simp only [applyAttrs]
    have hall' : ∀ x ∈ r, norm x.1 = k → x.2 = val := fun x hx => hall x (List.mem_cons_of_mem _ hx)
    by_cases hek : norm e = k
    · have hc : Dict.contains edges (norm e) = true := (Dict.contains_iff_mem_keys _ _).2 (hek ▸ hk)
      have hv : (name, id) = val := hall (e, name, id) List.mem_cons_self hek
      rw [if_pos hc]
      apply ih _ _ hall'
      · right; rw [hek, Dict.get_set_self, ← hv]
      · rw [Dict.mem_keys_set]; exact Or.inr hk
    · have hrest : (∃ x ∈ r, norm x.1 = k) ∨ Dict.get edges k = some (some val.1, some val.2) := by
        rcases h with ⟨x, hx, hxk⟩ | h
        · rcases List.mem_cons.1 hx with rfl | hx'
          · exact absurd hxk hek
          · exact Or.inl ⟨x, hx', hxk⟩
        · exact Or.inr h
      split
      · apply ih _ _ hall'
        · rcases hrest with h' | h'
          · exact Or.inl h'
          · right; rw [Dict.get_set_ne _ _ hek]; exact h'
        · rw [Dict.mem_keys_set]; exact Or.inr hk
      · exact ih _ hk hall' hrest

/-- every key that has some attribute row ends up with both attributes present -/
theorem get_applyAttrs_full (edges : EDict) (D : List ((Nat × Nat) × (String × Nat))) (k : Key)
    (hk : k ∈ Dict.keys edges)
    (h : (∃ x ∈ D, norm x.1 = k) ∨ ∃ t m, Dict.get edges k = some (some t, some m)) :
    ∃ t m, Dict.get (applyAttrs edges D) k = some (some t, some m) := by
  induction D generalizing edges with
  | nil =>
    rcases h with ⟨x, hx, _⟩ | h
    · simp at hx
    · exact h
  | cons x r ih =>
    obtain ⟨e, name, id⟩ := x
    simp only [applyAttrs]
    by_cases hek : norm e = k
    · have hc : Dict.contains edges (norm e) = true := (Dict.contains_iff_mem_keys _ _).2 (hek ▸ hk)
      rw [if_pos hc]
      apply ih
      · rw [Dict.mem_keys_set]; exact Or.inr hk
      · right; exact ⟨name, id, by rw [hek, Dict.get_set_self]⟩
    · have hrest : (∃ x ∈ r, norm x.1 = k) ∨ ∃ t m, Dict.get edges k = some (some t, some m) := by
        rcases h with ⟨x, hx, hxk⟩ | h
        · rcases List.mem_cons.1 hx with rfl | hx'
          · exact absurd hxk hek
          · exact Or.inl ⟨x, hx', hxk⟩
        · exact Or.inr h
      split
      · apply ih
        · rw [Dict.mem_keys_set]; exact Or.inr hk
        · rcases hrest with h' | h'
          · exact Or.inl h'
          · right; simpa [Dict.get_set_ne _ _ hek] using h'
      · exact ih _ hk hrest

/-! ### projections of `toNetwork` -/

theorem toNetwork_nodes (el : EL) :
    (toNetwork el).nodes = (addEdges (List.range el.jointDegrees.length) [] el.edges).1 := rfl

theorem toNetwork_jd (el : EL) :
    (toNetwork el).jd =
      setJd (toNetwork el).nodes (el.jointDegrees.zipIdx.map fun (j, n) => (n, j)) [] := rfl

theorem toNetwork_edges (el : EL) :
    (toNetwork el).edges =
      applyAttrs (addEdges (List.range el.jointDegrees.length) [] el.edges).2
        (attrDict (el.edges.zip (el.topologies.zip el.motifId)) []) := rfl


/-! ### the forward conversion -/

/-- T1: the node set is exactly `0 .. N-1` (zero-degree vertices included), in that order -/
theorem aux_nodes_exact (el : EL) (h : InRange el) :
    (toNetwork el).nodes = List.range el.jointDegrees.length := by
  rw [toNetwork_nodes]
  apply addEdges_nodes
  intro e he
  simpa using h e he

/-- T2: every vertex carries its joint degree -/
theorem aux_node_annotated (el : EL) (h : InRange el) (v : Nat) (hv : v < el.jointDegrees.length) :
    Dict.get (toNetwork el).jd v = some (el.jointDegrees[v]) := by
  rw [toNetwork_jd, aux_nodes_exact el h,
    get_setJd_zipIdx _ _ 0 [] (fun n _ hn => by simpa using hn) v]
  rw [dif_pos (by omega)]
  simp

/-- T3a: the undirected edges of the network are exactly the normalised pairs of the edge rows -/
theorem aux_edge_iff_pair_occurs (el : EL) (k : Key) :
    k ∈ (toNetwork el).edges.map (·.1) ↔ ∃ e ∈ el.edges, norm e = k := by
  have := mem_keys_addEdges (List.range el.jointDegrees.length) [] el.edges k
  rw [toNetwork_edges]
  change k ∈ Dict.keys _ ↔ _
  rw [keys_applyAttrs, this]
  simp [Dict.keys]

/-- T3b: no undirected edge is stored twice -/
theorem aux_edge_keys_nodup (el : EL) : ((toNetwork el).edges.map (·.1)).Nodup := by
  rw [toNetwork_edges]
  change (Dict.keys _).Nodup
  rw [keys_applyAttrs]
  exact nodup_keys_addEdges _ _ _ (by simp [Dict.keys])

/-- T4: a pair that occurs in one row only carries that row's topology and motif id -/
theorem aux_attrs_of_unique_pair (el : EL) (hp : Parallel el) (i : Nat) (hi : i < el.edges.length)
    (huniq : ∀ j, (hj : j < el.edges.length) → norm (el.edges[j]) = norm (el.edges[i]) → j = i) :
    Dict.get (toNetwork el).edges (norm el.edges[i]) =
      some (some (el.topologies[i]'(hp.1 ▸ hi)), some (el.motifId[i]'(hp.2 ▸ hi))) := by
  obtain ⟨hp1, hp2⟩ := hp
  rw [toNetwork_edges]
  have hrow : ∀ x ∈ el.edges.zip (el.topologies.zip el.motifId), norm x.1 = norm el.edges[i] →
      x = (el.edges[i], el.topologies[i], el.motifId[i]) := by
    intro x hx hnx
    obtain ⟨j, hj, rfl⟩ := List.getElem_of_mem hx
    simp only [List.length_zip] at hj
    simp only [List.getElem_zip] at hnx ⊢
    have := huniq j (by omega) hnx
    subst this
    rfl
  apply get_applyAttrs _ _ _ (el.topologies[i], el.motifId[i])
  · rw [mem_keys_addEdges]
    exact Or.inr ⟨_, List.getElem_mem hi, rfl⟩
  · intro x hx hnx
    rcases mem_attrDict _ _ _ hx with h | h
    · simp at h
    · rw [hrow x h hnx]
  · left
    have hk : el.edges[i] ∈ Dict.keys (attrDict (el.edges.zip (el.topologies.zip el.motifId)) []) := by
      apply mem_keys_attrDict
      right
      rw [List.map_fst_zip (by simp; omega)]
      exact List.getElem_mem hi
    obtain ⟨x, hx, hx1⟩ := List.mem_map.1 hk
    exact ⟨x, hx, by rw [hx1]⟩



/-! ### the reverse conversion and the round trips -/

theorem Net.ext' {a b : Net} (h1 : a.nodes = b.nodes) (h2 : a.jd = b.jd) (h3 : a.edges = b.edges) :
    a = b := by
  cases a; cases b; simp_all

theorem toEdgeList_eq_some (net : Net) (jds : List (List Nat)) (tops : List String) (ids : List Nat)
    (h1 : (List.range net.nodes.length).mapM
      (fun n => if n ∈ net.nodes then Dict.get net.jd n else none) = some jds)
    (h2 : net.edges.mapM (fun x => x.2.1) = some tops)
    (h3 : net.edges.mapM (fun x => x.2.2) = some ids) :
    toEdgeList net =
      some { edges := net.edges.map (·.1), topologies := tops, motifId := ids, jointDegrees := jds } := by
  unfold toEdgeList
  have h2' : net.edges.mapM (fun x : Key × Attr => match x with | (_, a) => a.1) = some tops := h2
  have h3' : net.edges.mapM (fun x : Key × Attr => match x with | (_, a) => a.2) = some ids := h3
  simp [h1, h2', h3']

theorem aux_jds_mapM (el : EL) (h : InRange el) :
    (List.range (toNetwork el).nodes.length).mapM
      (fun n => if n ∈ (toNetwork el).nodes then Dict.get (toNetwork el).jd n else none)
      = some el.jointDegrees := by
  apply mapM_eq_some
  rw [aux_nodes_exact el h]
  apply List.ext_getElem
  · simp
  · intro i h1 h2
    simp only [List.length_map, List.length_range] at h1
    simp [h1, aux_node_annotated el h i h1]

/-- with parallel columns every stored edge has both attributes -/
theorem aux_edges_full (el : EL) (hp : Parallel el) :
    ∀ x ∈ (toNetwork el).edges, ∃ t m, x.2 = (some t, some m) := by
  intro x hx
  have hget := Dict.get_of_mem _ (aux_edge_keys_nodup el) x hx
  have hk : x.1 ∈ (toNetwork el).edges.map (·.1) := List.mem_map_of_mem hx
  obtain ⟨e, he, hek⟩ := (aux_edge_iff_pair_occurs el x.1).1 hk
  rw [toNetwork_edges] at hget
  have hmem : e ∈ Dict.keys (attrDict (el.edges.zip (el.topologies.zip el.motifId)) []) := by
    apply mem_keys_attrDict
    right
    rw [List.map_fst_zip (by simp [hp.1, hp.2])]
    exact he
  obtain ⟨y, hy, hy1⟩ := List.mem_map.1 hmem
  obtain ⟨t, m, htm⟩ := get_applyAttrs_full
    (addEdges (List.range el.jointDegrees.length) [] el.edges).2
    (attrDict (el.edges.zip (el.topologies.zip el.motifId)) []) x.1
    (by rw [mem_keys_addEdges]; exact Or.inr ⟨e, he, hek⟩)
    (Or.inl ⟨y, hy, by rw [hy1, hek]⟩)
  rw [htm] at hget
  exact ⟨t, m, (Option.some.inj hget).symm⟩

theorem mapM_exists {α β : Type} (f : α → Option β) (l : List α) (h : ∀ x ∈ l, ∃ b, f x = some b) :
    ∃ l', l.mapM f = some l' := by
  induction l with
  | nil => exact ⟨[], by simp⟩
  | cons a r ih =>
    obtain ⟨b, hb⟩ := h a List.mem_cons_self
    obtain ⟨r', hr'⟩ := ih fun x hx => h x (List.mem_cons_of_mem _ hx)
    exact ⟨b :: r', by simp [List.mapM_cons, hb, hr']⟩

/-- T5b core -/
theorem aux_roundtrip_some (el : EL) (h : InRange el) (hp : Parallel el) :
    ∃ tops ids, (toNetwork el).edges.map (fun x => x.2.1) = tops.map some ∧
      (toNetwork el).edges.map (fun x => x.2.2) = ids.map some ∧
      toEdgeList (toNetwork el) =
        some { edges := (toNetwork el).edges.map (·.1), topologies := tops, motifId := ids,
               jointDegrees := el.jointDegrees } := by
  obtain ⟨tops, htops⟩ := mapM_exists (fun x : Key × Attr => x.2.1) (toNetwork el).edges (by
    intro x hx; obtain ⟨t, m, hx'⟩ := aux_edges_full el hp x hx; exact ⟨t, by rw [hx']⟩)
  obtain ⟨ids, hids⟩ := mapM_exists (fun x : Key × Attr => x.2.2) (toNetwork el).edges (by
    intro x hx; obtain ⟨t, m, hx'⟩ := aux_edges_full el hp x hx; exact ⟨m, by rw [hx']⟩)
  exact ⟨tops, ids, map_of_mapM_eq_some _ _ _ htops, map_of_mapM_eq_some _ _ _ hids,
    toEdgeList_eq_some _ _ _ _ (aux_jds_mapM el h) htops hids⟩

/-- the edge dict when no pair repeats -/
theorem aux_edges_of_nodup (el : EL) (hp : Parallel el) (hn : (el.edges.map norm).Nodup) :
    (toNetwork el).edges =
      (el.edges.zip (el.topologies.zip el.motifId)).map
        fun r => (norm r.1, (some r.2.1, some r.2.2)) := by
  have hkeys : (toNetwork el).edges.map (·.1) = el.edges.map norm := by
    rw [toNetwork_edges]
    change Dict.keys _ = _
    rw [keys_applyAttrs, keys_addEdges_of_nodup _ _ _ (by simpa [Dict.keys] using hn)]
    simp [Dict.keys]
  have hlen : (toNetwork el).edges.length = el.edges.length := by
    simpa using congrArg List.length hkeys
  apply List.ext_getElem
  · simp [hlen, hp.1, hp.2]
  · intro i h1 h2
    have hi : i < el.edges.length := hlen ▸ h1
    have hk : ((toNetwork el).edges[i]).1 = norm el.edges[i] := by
      have := List.getElem_of_eq hkeys (i := i) (by simpa using h1)
      simpa using this
    have hg := Dict.get_getElem _ (aux_edge_keys_nodup el) i h1
    rw [hk, aux_attrs_of_unique_pair el hp i hi (by
      intro j hj hjn
      exact (List.getElem_inj (xs := el.edges.map norm) (i := j) (j := i)
        (h₀ := by simpa using hj) (h₁ := by simpa using hi) hn).1 (by simpa using hjn))] at hg
    have h2' := Option.some.inj hg
    simp only [List.getElem_map, List.getElem_zip]
    rw [Prod.ext_iff]
    exact ⟨hk, h2'.symm⟩

theorem edges_reconstruct (R : EDict) (tops : List String) (ids : List Nat)
    (h1 : R.map (fun x => x.2.1) = tops.map some) (h2 : R.map (fun x => x.2.2) = ids.map some)
    (hnorm : ∀ x ∈ R, norm x.1 = x.1) :
    ((R.map (·.1)).zip (tops.zip ids)).map (fun r => (norm r.1, (some r.2.1, some r.2.2))) = R := by
  induction R generalizing tops ids with
  | nil => simp
  | cons x R ih =>
    cases tops with
    | nil => simp at h1
    | cons t tops =>
      cases ids with
      | nil => simp at h2
      | cons m ids =>
        simp only [List.map_cons, List.cons.injEq] at h1 h2
        simp only [List.map_cons, List.zip_cons_cons, List.cons.injEq]
        refine ⟨?_, ih tops ids h1.2 h2.2 fun x hx => hnorm x (List.mem_cons_of_mem _ hx)⟩
        rw [hnorm x List.mem_cons_self, ← h1.1, ← h2.1]

theorem aux_toNetwork_back (el : EL) (h : InRange el) (tops : List String) (ids : List Nat)
    (htops : (toNetwork el).edges.map (fun x => x.2.1) = tops.map some)
    (hids : (toNetwork el).edges.map (fun x => x.2.2) = ids.map some) (el' : EL)
    (e1 : el'.edges = (toNetwork el).edges.map (·.1)) (e2 : el'.topologies = tops)
    (e3 : el'.motifId = ids) (e4 : el'.jointDegrees = el.jointDegrees) :
    toNetwork el' = toNetwork el := by
  have hkey : ∀ x ∈ (toNetwork el).edges, ∃ e ∈ el.edges, norm e = x.1 := fun x hx =>
    (aux_edge_iff_pair_occurs el x.1).1 (List.mem_map_of_mem hx)
  have hnorm : ∀ x ∈ (toNetwork el).edges, norm x.1 = x.1 := by
    intro x hx
    obtain ⟨e, _, he⟩ := hkey x hx
    rw [← he, norm_norm]
  have hr' : InRange el' := by
    intro k hk
    rw [e1] at hk
    obtain ⟨x, hx, rfl⟩ := List.mem_map.1 hk
    obtain ⟨e, he, hek⟩ := hkey x hx
    rw [e4, ← hek]
    exact norm_lt (h e he)
  have hp' : Parallel el' := by
    have l1 := congrArg List.length htops
    have l2 := congrArg List.length hids
    simp only [List.length_map] at l1 l2
    constructor
    · rw [e1, e2, List.length_map, l1]
    · rw [e1, e3, List.length_map, l2]
  have hmapnorm : el'.edges.map norm = el'.edges := by
    rw [e1, List.map_map]
    apply List.map_congr_left
    intro x hx
    exact hnorm x hx
  have hn' : (el'.edges.map norm).Nodup := by
    rw [hmapnorm, e1]
    exact aux_edge_keys_nodup el
  have hnodes : (toNetwork el').nodes = (toNetwork el).nodes := by
    rw [aux_nodes_exact el' hr', aux_nodes_exact el h, e4]
  apply Net.ext' hnodes
  · rw [toNetwork_jd, toNetwork_jd el, hnodes, e4]
  · rw [aux_edges_of_nodup el' hp' hn', e1, e2, e3]
    exact edges_reconstruct _ _ _ htops hids hnorm

/-- T6 core -/
theorem aux_roundtrip_network (el : EL) (h : InRange el) (hp : Parallel el) :
    ∃ el', toEdgeList (toNetwork el) = some el' ∧ toNetwork el' = toNetwork el := by
  obtain ⟨tops, ids, htops, hids, heq⟩ := aux_roundtrip_some el h hp
  exact ⟨_, heq, aux_toNetwork_back el h tops ids htops hids _ rfl rfl rfl rfl⟩

/-- T5 core -/
theorem aux_roundtrip_edgelist (el : EL) (h : InRange el) (hp : Parallel el)
    (hn : (el.edges.map norm).Nodup) :
    toEdgeList (toNetwork el) =
      some { edges := el.edges.map norm, topologies := el.topologies, motifId := el.motifId,
             jointDegrees := el.jointDegrees } := by
  have hR := aux_edges_of_nodup el hp hn
  have l1 : el.edges.length ≤ (el.topologies.zip el.motifId).length := by simp [hp.1, hp.2]
  have l2 : (el.topologies.zip el.motifId).length ≤ el.edges.length := by simp [hp.1, hp.2]
  have l3 : el.topologies.length ≤ el.motifId.length := by simp [hp.1, hp.2]
  have l4 : el.motifId.length ≤ el.topologies.length := by simp [hp.1, hp.2]
  have hk : (toNetwork el).edges.map (·.1) = el.edges.map norm := by
    rw [hR, List.map_map]
    conv => rhs; rw [← List.map_fst_zip (l₁ := el.edges) l1]
    rw [List.map_map]; rfl
  have ht : (toNetwork el).edges.map (fun x => x.2.1) = el.topologies.map some := by
    rw [hR, List.map_map]
    conv => rhs; rw [← List.map_fst_zip (l₁ := el.topologies) l3, ← List.map_snd_zip (l₁ := el.edges) l2]
    rw [List.map_map, List.map_map]; rfl
  have hm : (toNetwork el).edges.map (fun x => x.2.2) = el.motifId.map some := by
    rw [hR, List.map_map]
    conv => rhs; rw [← List.map_snd_zip (l₁ := el.topologies) l4, ← List.map_snd_zip (l₁ := el.edges) l2]
    rw [List.map_map, List.map_map]; rfl
  rw [toEdgeList_eq_some _ _ _ _ (aux_jds_mapM el h) (mapM_eq_some _ _ _ ht) (mapM_eq_some _ _ _ hm), hk]

/-- T7 core -/
theorem aux_reverse_keyerror (net : Net) (n : Nat) (hn : n < net.nodes.length) (hnot : n ∉ net.nodes) :
    toEdgeList net = none := by
  have : (List.range net.nodes.length).mapM
      (fun n => if n ∈ net.nodes then Dict.get net.jd n else none) = none :=
    mapM_eq_none _ _ n (by simpa using hn) (by simp [hnot])
  simp [toEdgeList, this]

end Gcmpy.Network
