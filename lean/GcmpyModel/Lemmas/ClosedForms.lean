import Mathlib.Tactic.Ring
import Mathlib.Tactic.Linarith
import Mathlib.Algebra.BigOperators.Group.List.Basic
import Mathlib.Algebra.BigOperators.Ring.Finset
import Mathlib.Algebra.BigOperators.Intervals
import Mathlib.Data.List.Nodup
import Mathlib.Data.List.GetD
import Mathlib.Data.List.Perm.Basic
import GcmpyModel.Model.ClosedForms
import GcmpyModel.Lemmas.ConnectedSubgraphs
/-
Helper lemmas for property C16 (closed forms and graph counts, `Model/ClosedForms.lean`).
-/
namespace Gcmpy.ClosedForms
open Gcmpy Gcmpy.Graph Gcmpy.Automated

/-! ### Gauss sums with truncated subtraction -/

/-- `2 Σ_{v<r} (τ − (v+1)) + r(r+1) = 2rτ` as long as `r ≤ τ` (every term is a genuine difference) -/
theorem two_mul_sum_sub (tau : Nat) : ∀ r, r ≤ tau →
    2 * ((List.range r).map fun v => tau - (v + 1)).sum + r * (r + 1) = 2 * r * tau
  | 0, _ => by simp
  | r+1, h => by
    have ih := two_mul_sum_sub tau r (by omega)
    rw [List.range_succ, List.map_append, List.sum_append]
    simp only [List.map_cons, List.map_nil, List.sum_cons, List.sum_nil, Nat.add_zero]
    obtain ⟨d, rfl⟩ : ∃ d, tau = r + 1 + d := ⟨tau - (r + 1), by omega⟩
    have : r + 1 + d - (r + 1) = d := by omega
    rw [this]
    nlinarith [ih]

theorem two_mul_pred_half (r : Nat) : 2 * (r * (r - 1) / 2) = r * (r - 1) := by
  have : 2 ∣ r * (r - 1) := by
    cases r with
    | zero => simp
    | succ r => simpa [Nat.mul_comm] using (Nat.even_mul_succ_self r).two_dvd
  omega

/-! ### structure of the memo tables -/

theorem qTable_succ (n : Nat) : qTable (n + 1) = qTable n ++ [qRow (qTable n) (n + 1)] := rfl

theorem qTableGen_succ (n : Nat) : qTableGen (n + 1)
    = qTableGen n ++ [(List.range ((n+1) * n / 2 + 1)).map (qEntryGen (qTableGen n) (n+1))] := rfl

theorem qTable_length : ∀ n, (qTable n).length = n
  | 0 => rfl
  | n+1 => by rw [qTable_succ, List.length_append, qTable_length n]; rfl

theorem qTableGen_length : ∀ n, (qTableGen n).length = n
  | 0 => rfl
  | n+1 => by rw [qTableGen_succ, List.length_append, qTableGen_length n]; rfl

/-- the table for `n` vertices is a prefix of every later table -/
theorem qTable_getD_of_le {n m i : Nat} (hi : i < n) (hnm : n ≤ m) :
    (qTable m).getD i [] = (qTable n).getD i [] := by
  induction m, hnm using Nat.le_induction with
  | base => rfl
  | succ m hm ih =>
    rw [qTable_succ, List.getD_append _ _ _ _ (by rw [qTable_length]; omega), ih]

theorem qTableGen_getD_of_le {n m i : Nat} (hi : i < n) (hnm : n ≤ m) :
    (qTableGen m).getD i [] = (qTableGen n).getD i [] := by
  induction m, hnm using Nat.le_induction with
  | base => rfl
  | succ m hm ih =>
    rw [qTableGen_succ, List.getD_append _ _ _ _ (by rw [qTableGen_length]; omega), ih]

theorem getD_map_range (f : Nat → Int) (N k : Nat) :
    ((List.range N).map f).getD k 0 = if k < N then f k else 0 := by
  by_cases h : k < N
  · simp [List.getD_eq_getElem?_getD, h]
  · simp [List.getD_eq_getElem?_getD, h]

theorem qEntry_eq_zero_of_gt {rows : List (List Int)} {n k : Nat} (h : k > n * (n - 1) / 2) :
    qEntry rows n k = 0 := by
  unfold qEntry; simp only [h, or_true, if_true]

theorem qEntryGen_eq_zero_of_gt {rows : List (List Int)} {n k : Nat} (h : k > n * (n - 1) / 2) :
    qEntryGen rows n k = 0 := by
  unfold qEntryGen; simp only [h, or_true, if_true]

/-- the memo table realises the recursion: `Q(n+1, k)` is `qEntry` on the rows for `1 … n` -/
theorem Q_succ_eq_qEntry (n k : Nat) : Q (n + 1) k = qEntry (qTable n) (n + 1) k := by
  unfold Q
  rw [if_neg (Nat.succ_ne_zero n), Nat.add_sub_cancel, qTable_succ,
    List.getD_append_right _ _ _ _ (by rw [qTable_length]), qTable_length, Nat.sub_self]
  show (qRow (qTable n) (n + 1)).getD k 0 = _
  unfold qRow
  rw [getD_map_range]
  split
  · rfl
  · exact (qEntry_eq_zero_of_gt (by omega)).symm

theorem Qgen_succ_eq_qEntryGen (n k : Nat) : Qgen (n + 1) k = qEntryGen (qTableGen n) (n + 1) k := by
  unfold Qgen
  rw [Nat.add_sub_cancel, qTableGen_succ,
    List.getD_append_right _ _ _ _ (by rw [qTableGen_length]), qTableGen_length, Nat.sub_self]
  show ((List.range ((n+1) * n / 2 + 1)).map (qEntryGen (qTableGen n) (n+1))).getD k 0 = _
  rw [getD_map_range]
  split
  · rfl
  · exact (qEntryGen_eq_zero_of_gt (by simp only [Nat.add_sub_cancel]; omega)).symm

/-! ### `combinations k l` versus the length-`k` sublists -/

theorem combinations_perm_filter {α : Type} (l : List α) :
    ∀ k, (combinations k l).Perm ((sublists l).filter fun s => s.length = k) := by
  induction l with
  | nil =>
    intro k
    cases k with
    | zero => simp [combinations, sublists]
    | succ k => simp [combinations, sublists]
  | cons x xs ih =>
    intro k
    cases k with
    | zero =>
      have h := ih 0
      rw [combinations_zero] at h ⊢
      simp only [sublists, List.filter_append, List.filter_map]
      have : (List.filter ((fun s : List α => decide (s.length = 0)) ∘ fun t => x :: t) (sublists xs)) = [] := by
        rw [List.filter_eq_nil_iff]; intro a _; simp
      rw [this, List.map_nil, List.append_nil]
      exact h
    | succ k =>
      simp only [combinations, sublists, List.filter_append, List.filter_map]
      have : (List.filter ((fun s : List α => decide (s.length = k + 1)) ∘ fun t => x :: t) (sublists xs))
          = List.filter (fun s => decide (s.length = k)) (sublists xs) := by
        apply List.filter_congr; intro a _; simp
      rw [this]
      exact List.perm_append_comm.trans ((ih (k+1)).append ((ih k).map _))

/-! ### complement of a sublist inside a duplicate-free list -/

section compl
variable {α : Type} [BEq α] [LawfulBEq α]

theorem filter_mem_of_sublist {l s : List α} (hl : l.Nodup) (hs : s.Sublist l) :
    l.filter (fun x => x ∈ s) = s := by
  induction hs with
  | slnil => rfl
  | @cons s l a hs ih =>
    rw [List.nodup_cons] at hl
    have : a ∉ s := fun h => hl.1 (hs.subset h)
    rw [List.filter_cons_of_neg (by simpa using this)]
    exact ih hl.2
  | @cons_cons s l a hs ih =>
    rw [List.nodup_cons] at hl
    rw [List.filter_cons_of_pos (by simp)]
    congr 1
    refine (List.filter_congr fun x hx => ?_).trans (ih hl.2)
    have : x ≠ a := fun h => hl.1 (h ▸ hx)
    simp [this]

theorem length_filter_not_mem {l s : List α} (hl : l.Nodup) (hs : s.Sublist l) :
    (l.filter (fun x => x ∉ s)).length + s.length = l.length := by
  induction hs with
  | slnil => rfl
  | @cons s l a hs ih =>
    rw [List.nodup_cons] at hl
    have : a ∉ s := fun h => hl.1 (hs.subset h)
    rw [List.filter_cons_of_pos (by simpa using this), List.length_cons, List.length_cons, ← ih hl.2]
    omega
  | @cons_cons s l a hs ih =>
    rw [List.nodup_cons] at hl
    rw [List.filter_cons_of_neg (by simp), List.length_cons, List.length_cons, ← ih hl.2]
    have : List.filter (fun x => decide (x ∉ a :: s)) l = List.filter (fun x => decide (x ∉ s)) l := by
      apply List.filter_congr; intro x hx
      have : x ≠ a := fun h => hl.1 (h ▸ hx)
      simp [this]
    rw [this]; omega

theorem compl_compl {l s : List α} (hl : l.Nodup) (hs : s.Sublist l) :
    l.filter (fun x => x ∉ l.filter (fun y => y ∉ s)) = s := by
  refine (List.filter_congr fun x hx => ?_).trans (filter_mem_of_sublist hl hs)
  simp [List.mem_filter, hx]

/-- complementation permutes the sublists of a duplicate-free list -/
theorem map_compl_perm_sublists {l : List α} (hl : l.Nodup) :
    ((sublists l).map fun s => l.filter (fun x => x ∉ s)).Perm (sublists l) := by
  have hS := sublists_nodup_of_nodup hl
  refine (List.perm_ext_iff_of_nodup ?_ hS).2 ?_
  · refine List.Nodup.map_on ?_ hS
    intro x hx y hy hxy
    rw [← compl_compl hl (mem_sublists_iff.1 hx), ← compl_compl hl (mem_sublists_iff.1 hy), hxy]
  · intro a
    rw [List.mem_map]
    constructor
    · rintro ⟨s, _, rfl⟩
      exact mem_sublists_iff.2 List.filter_sublist
    · intro ha
      exact ⟨_, mem_sublists_iff.2 List.filter_sublist, compl_compl hl (mem_sublists_iff.1 ha)⟩

/-- counting sublists by a property of the complement = counting sublists by the property -/
theorem length_filter_compl {l : List α} (hl : l.Nodup) (P : List α → Bool) :
    ((sublists l).filter fun s => P (l.filter (fun x => x ∉ s))).length = ((sublists l).filter P).length := by
  have h := ((map_compl_perm_sublists hl).filter P).length_eq
  rw [List.filter_map, List.length_map] at h
  exact h

end compl

/-! ### the complete graph -/

theorem mem_completeGraph_edges {n a b : Nat} : (a, b) ∈ (completeGraph n).edges ↔ a < b ∧ b < n := by
  simp only [completeGraph, List.mem_flatMap, List.mem_map, List.mem_filter, List.mem_range,
    decide_eq_true_eq, Prod.mk.injEq]
  constructor
  · rintro ⟨a', _, b', ⟨hb, hab⟩, rfl, rfl⟩; exact ⟨hab, hb⟩
  · rintro ⟨hab, hb⟩; exact ⟨a, by omega, b, ⟨hb, hab⟩, rfl, rfl⟩

theorem completeGraph_edges_nodup (n : Nat) : (completeGraph n).edges.Nodup := by
  unfold completeGraph
  rw [List.nodup_flatMap]
  refine ⟨fun a _ => (List.nodup_range.filter _).map fun b b' h => (Prod.mk.inj h).2, ?_⟩
  refine (List.nodup_range (n := n)).imp ?_
  intro a a' hne
  simp only [Function.onFun]
  intro e h1 h2
  obtain ⟨b, _, rfl⟩ := List.mem_map.1 h1
  obtain ⟨b', _, h⟩ := List.mem_map.1 h2
  exact hne (Prod.mk.inj h).1.symm

theorem length_filter_lt_range (a : Nat) : ∀ n, ((List.range n).filter (a < ·)).length = n - 1 - a
  | 0 => by simp
  | n+1 => by
    rw [List.range_succ, List.filter_append, List.length_append, length_filter_lt_range a n]
    by_cases h : a < n
    · simp [h]; omega
    · simp [h]; omega

theorem completeGraph_edges_length (n : Nat) : (completeGraph n).edges.length = n * (n - 1) / 2 := by
  unfold completeGraph
  simp only [List.length_flatMap, List.length_map, length_filter_lt_range]
  have h := two_mul_sum_sub n n (Nat.le_refl n)
  have e : (List.map (fun a => n - 1 - a) (List.range n)) = (List.range n).map fun v => n - (v + 1) := by
    apply List.map_congr_left; intro a _; omega
  rw [e]
  generalize ((List.range n).map fun v => n - (v + 1)).sum = S at h ⊢
  cases n with
  | zero => simp at h ⊢; omega
  | succ n =>
    simp only [Nat.add_sub_cancel]
    have : 2 * S = (n + 1) * n := by nlinarith [h]
    omega

theorem completeGraph_wf (n : Nat) {A : List Edge} (hA : A.Sublist (completeGraph n).edges) :
    WFGraph A (List.range n) := by
  refine ⟨List.nodup_range, ?_⟩
  rintro ⟨a, b⟩ he
  have := mem_completeGraph_edges.1 (hA.subset he)
  simp only [List.mem_range]; omega

/-! ### counting helper -/

theorem length_filter_combinations {α : Type} (k : Nat) (l : List α) (p : List α → Bool) :
    ((combinations k l).filter p).length = ((sublists l).filter fun s => s.length = k ∧ p s).length := by
  rw [((combinations_perm_filter l k).filter p).length_eq, List.filter_filter]
  congr 1
  apply List.filter_congr; intro s _
  simp [Bool.and_comm]

/-! ### folds and powers in a commutative ring -/

section algebra
variable {R : Type} [CommRing R]

theorem powN_eq_pow (x : R) : ∀ n, powN x n = x ^ n
  | 0 => (pow_zero x).symm
  | n+1 => by rw [powN, powN_eq_pow x n, pow_succ]

theorem foldl_add_range (f : Nat → R) (a : R) :
    ∀ n, (List.range n).foldl (fun acc i => acc + f i) a = a + ∑ i ∈ Finset.range n, f i
  | 0 => by simp
  | n+1 => by
    rw [List.range_succ, List.foldl_append, foldl_add_range f a n, Finset.sum_range_succ]
    simp only [List.foldl_cons, List.foldl_nil]; ring

theorem foldl_mul_eq (l : List R) (a : R) : l.foldl (· * ·) a = a * l.prod := by
  induction l generalizing a with
  | nil => simp
  | cons x xs ih => rw [List.foldl_cons, ih, List.prod_cons, mul_assoc]

theorem foldl_add_eq (l : List R) (a : R) : l.foldl (· + ·) a = a + l.sum := by
  induction l generalizing a with
  | nil => simp
  | cons x xs ih => rw [List.foldl_cons, ih, List.sum_cons, add_assoc]

end algebra

end Gcmpy.ClosedForms
