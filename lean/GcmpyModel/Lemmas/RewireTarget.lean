import GcmpyModel.Model.Rewire
import GcmpyModel.Lemmas.Rewire
import GcmpyModel.Properties.C12
/-! Lemmas lifting C12's per-call theorem to the whole `rewire()` run; property theorems in `Properties/C12Loop.lean`. -/
namespace Gcmpy.Rewire
open Gcmpy Gcmpy.Graph Gcmpy.MCMC

/-! ### vocabulary (fixed) -/

/-- the entry `p = ((a, b), ⟨topology, id⟩)` joins a pairing the target allows with weight satisfying `ok` -/
def EntryWith (ok : Rat → Prop) (G₀ : Net) (names : List String) (target : Target) (p : Edge × Attr) : Prop :=
  ∃ i ejk w, topIndex names p.2.top = some i ∧ Dict.get target p.2.top = some ejk ∧ ok w ∧
    (Dict.get ejk (excessOf G₀ p.1.1 i ++ excessOf G₀ p.1.2 i) = some w ∨
     Dict.get ejk (excessOf G₀ p.1.2 i ++ excessOf G₀ p.1.1 i) = some w)

abbrev AllowedEntry := EntryWith (· ≠ 0)
abbrev PositiveEntry := EntryWith (0 < ·)

namespace Lemmas

theorem excessOf_congr {G G' : Net} (h : G'.jd = G.jd) (v i : Nat) : excessOf G' v i = excessOf G v i := by
  unfold excessOf jdOf
  rw [h]

theorem normE_cases (a b : Nat) : normE (a, b) = (a, b) ∨ normE (a, b) = (b, a) := by
  simp only [normE, Prod.mk.injEq]
  omega

/-- a created entry: the key is normalised afterwards, so the looked-up orientation is one of the two -/
theorem entryWith_of {ok : Rat → Prop} {G₀ : Net} {names : List String} {target : Target} {x y : Nat} {at' : Attr}
    {i : Nat} {ejk : Loaders.Table} {w : Rat} (hi : topIndex names at'.top = some i)
    (he : Dict.get target at'.top = some ejk) (hw : ok w)
    (hk : Dict.get ejk (excessOf G₀ x i ++ excessOf G₀ y i) = some w) :
    EntryWith ok G₀ names target (normE (x, y), at') := by
  rcases normE_cases x y with h | h <;> rw [h]
  · exact ⟨i, ejk, w, hi, he, hw, Or.inl hk⟩
  · exact ⟨i, ejk, w, hi, he, hw, Or.inr hk⟩

/-- what C12 says of one accepted call, for a property `ok` of the two looked-up weights -/
def AcceptGives (ok : Rat → Prop) (names : List String) (target : Target) : Prop :=
  ∀ (G : Net) (u0 v0 : Nat) (e0s e1s : List Edge) (r : Rat),
    swapCondition G names target u0 v0 e0s e1s r = .accept →
    ∃ ps, pairUp G e0s e1s = some ps ∧ ∀ p ∈ ps, ∃ a0 i ejk a b,
      attrOf G p.1.1 p.1.2 = some a0 ∧ topIndex names a0.top = some i ∧ Dict.get target a0.top = some ejk ∧
      Dict.get ejk (excessOf G u0 i ++ excessOf G p.2.2 i) = some a ∧
      Dict.get ejk (excessOf G v0 i ++ excessOf G p.1.2 i) = some b ∧ ok a ∧ ok b

/-- the entries of an edge table after an accepted swap (either attribute assignment, as long as both new entries
    of a pair carry the topology of the pair) are old entries or created ones with an `ok` weight -/
theorem after_entries {ok : Rat → Prop} {names : List String} {target : Target} {G₀ G1 : Net} {u0 v0 : Nat}
    {e0s e1s : List Edge} {r : Rat} {ps : List (Edge × Edge)} (hAG : AcceptGives ok names target)
    (hjd : G1.jd = G₀.jd) (hd : swapCondition G1 names target u0 v0 e0s e1s r = .accept)
    (hps : pairUp G1 e0s e1s = some ps) (α β : Edge × Edge → Attr)
    (hα : ∀ q ∈ ps, (α q).top = (attrD G1 q.1).top) (hβ : ∀ q ∈ ps, (β q).top = (attrD G1 q.1).top)
    (hold : ∀ p ∈ G1.edges, p ∈ G₀.edges ∨ EntryWith ok G₀ names target p) :
    ∀ p ∈ afterEdges G1 u0 v0 e0s e1s α β ps, p ∈ G₀.edges ∨ EntryWith ok G₀ names target p := by
  intro p hp
  unfold afterEdges at hp
  rcases List.mem_append.1 hp with hp | hp
  · exact hold p (List.mem_filter.1 hp).1
  · right
    obtain ⟨ps', hps', hall⟩ := hAG G1 u0 v0 e0s e1s r hd
    rw [hps, Option.some.injEq] at hps'
    subst hps'
    obtain ⟨q, hq, hpq⟩ := mem_newE.1 hp
    obtain ⟨a0, i, ejk, a, b, h1, h2, h3, h4, h5, ha, hb⟩ := hall q hq
    have ha0 : attrD G1 q.1 = a0 := attrD_eq h1
    simp only [excessOf_congr hjd] at h4 h5
    rcases hpq with rfl | rfl
    · exact entryWith_of (by rw [hα q hq, ha0]; exact h2) (by rw [hα q hq, ha0]; exact h3) ha h4
    · exact entryWith_of (by rw [hβ q hq, ha0]; exact h2) (by rw [hβ q hq, ha0]; exact h3) hb h5

/-- the loop invariant: the structural invariants (in particular the vertex annotations of the input) and every entry
    is an entry of the input or was created with an `ok` weight -/
def InvT (ok : Rat → Prop) (names : List String) (target : Target) (G₀ G : Net) : Prop :=
  Inv4 G₀ G ∧ ∀ p ∈ G.edges, p ∈ G₀.edges ∨ EntryWith ok G₀ names target p

theorem rewire_entries (ok : Rat → Prop) (cfg : Cfg) (G : Net) (evs : List DrawEv) (rs : List (Option Rat))
    (hWF : WF G) (hAG : AcceptGives ok cfg.names cfg.target) :
    ∀ p ∈ (rewire cfg G evs rs).st.G.edges, p ∈ G.edges ∨ EntryWith ok G cfg.names cfg.target p := by
  unfold rewire
  refine (outer_main cfg (InvT ok cfg.names cfg.target G) (fun _ h => h.1.1) ?_ _ _ _ _ _
    ⟨⟨hWF, rfl, rfl, fun _ _ => rfl⟩, fun p hp => Or.inl hp⟩ (init_sync G hWF) rfl).1.2
  intro G1 u0 v0 e0s e1s r G' hI hok hd ha
  refine ⟨inv4_step cfg G G1 u0 v0 e0s e1s G' hI.1 hok ha, ?_⟩
  have hjd : G1.jd = G.jd := hI.1.2.1
  unfold applyGraph at ha
  split at ha
  · obtain ⟨A, B, ps, F, P, hps, rfl⟩ := applySwapFixed_shape hok ha
    exact after_entries hAG hjd hd hps _ _ (F.top_snd P) (fun _ _ => rfl) hI.2
  · obtain ⟨A, B, ps, F, P, hps, rfl⟩ := applySwap_shape hok ha
    exact after_entries hAG hjd hd hps _ _ (fun _ _ => rfl) (F.top_snd P) hI.2

theorem rewire_created_edges_allowed (cfg : Cfg) (G : Net) (evs : List DrawEv) (rs : List (Option Rat))
    (hWF : WF G) :
    ∀ p ∈ (rewire cfg G evs rs).st.G.edges, p ∈ G.edges ∨ AllowedEntry G cfg.names cfg.target p :=
  rewire_entries (· ≠ 0) cfg G evs rs hWF (fun _ _ _ _ _ _ h => created_edges_allowed h)

theorem rewire_created_edges_positive (cfg : Cfg) (G : Net) (evs : List DrawEv) (rs : List (Option Rat))
    (hWF : WF G) (hnn : ∀ t ejk, Dict.get cfg.target t = some ejk → ∀ x ∈ ejk, 0 ≤ x.2) :
    ∀ p ∈ (rewire cfg G evs rs).st.G.edges, p ∈ G.edges ∨ PositiveEntry G cfg.names cfg.target p :=
  rewire_entries (0 < ·) cfg G evs rs hWF (fun _ _ _ _ _ _ h => created_edges_positive h hnn)
end Lemmas
end Gcmpy.Rewire
