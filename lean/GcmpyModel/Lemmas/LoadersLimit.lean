import GcmpyModel.Lemmas.Loaders
import Mathlib.Algebra.Order.AbsoluteValue.Basic
import Mathlib.Algebra.Order.Field.Basic
import Mathlib.Tactic.Linarith
import Mathlib.Tactic.Positivity
import Mathlib.Tactic.Ring
/-!
Limit algebra for the sampling mode of the marginal loader (property C06, `marginal_sampled_limit`).
Everything here is deterministic `Rat` arithmetic: products of finitely many `[0,1]`-valued
sequences converge factor-wise, a sampled table entry is `count / n`, and the limit factors
`f d / total` lie in `[0,1]`.
-/
namespace Gcmpy.Loaders
open Gcmpy

/-! ## products of factors in `[0,1]` -/

theorem prod_map_mem_unit {α : Type} (l : List α) (g : α → Rat)
    (h : ∀ p ∈ l, 0 ≤ g p ∧ g p ≤ 1) : 0 ≤ (l.map g).prod ∧ (l.map g).prod ≤ 1 := by
  induction l with
  | nil => simp
  | cons x xs ih =>
    have hx := h x List.mem_cons_self
    have hxs := ih fun p hp => h p (List.mem_cons_of_mem _ hp)
    simp only [List.map_cons, List.prod_cons]
    exact ⟨mul_nonneg hx.1 hxs.1, mul_le_one₀ hx.2 hxs.1 hxs.2⟩

/-- `|x·X − y·Y| ≤ |x − y| + |X − Y|` when `X, y ∈ [0,1]` -/
theorem abs_mul_sub_mul_le {x y X Y : Rat} (hX0 : 0 ≤ X) (hX1 : X ≤ 1) (hy0 : 0 ≤ y) (hy1 : y ≤ 1) :
    |x * X - y * Y| ≤ |x - y| + |X - Y| := by
  have e : x * X - y * Y = (x - y) * X + y * (X - Y) := by ring
  rw [e]
  refine (abs_add_le _ _).trans ?_
  rw [abs_mul, abs_mul, abs_of_nonneg hX0, abs_of_nonneg hy0]
  have h1 : |x - y| * X ≤ |x - y| * 1 := mul_le_mul_of_nonneg_left hX1 (abs_nonneg _)
  have h2 : y * |X - Y| ≤ 1 * |X - Y| := mul_le_mul_of_nonneg_right hy1 (abs_nonneg _)
  linarith

/-- `|∏ a − ∏ b| ≤ Σ |aᵢ − bᵢ|` for factors in `[0,1]` -/
theorem abs_prod_sub_prod_le {α : Type} (l : List α) (a b : α → Rat)
    (ha : ∀ p ∈ l, 0 ≤ a p ∧ a p ≤ 1) (hb : ∀ p ∈ l, 0 ≤ b p ∧ b p ≤ 1) :
    |(l.map a).prod - (l.map b).prod| ≤ (l.map fun p => |a p - b p|).sum := by
  induction l with
  | nil => simp
  | cons x xs ih =>
    have hA := prod_map_mem_unit xs a fun p hp => ha p (List.mem_cons_of_mem _ hp)
    have hbx := hb x List.mem_cons_self
    have hi := ih (fun p hp => ha p (List.mem_cons_of_mem _ hp))
      (fun p hp => hb p (List.mem_cons_of_mem _ hp))
    simp only [List.map_cons, List.prod_cons, List.sum_cons]
    have := abs_mul_sub_mul_le (x := a x) (Y := (xs.map b).prod) hA.1 hA.2 hbx.1 hbx.2
    linarith

/-- a finite sum of sequences each tending to `0` tends to `0` -/
theorem sum_abs_eventually_lt {α : Type} (l : List α) (a : Nat → α → Rat) (b : α → Rat)
    (hconv : ∀ p ∈ l, ∀ ε : Rat, 0 < ε → ∃ N, ∀ n, N ≤ n → |a n p - b p| < ε) :
    ∀ ε : Rat, 0 < ε → ∃ N, ∀ n, N ≤ n → (l.map fun p => |a n p - b p|).sum < ε := by
  induction l with
  | nil => intro ε hε; exact ⟨0, fun n _ => by simpa using hε⟩
  | cons x xs ih =>
    intro ε hε
    obtain ⟨N1, h1⟩ := hconv x List.mem_cons_self (ε / 2) (by positivity)
    obtain ⟨N2, h2⟩ := ih (fun p hp => hconv p (List.mem_cons_of_mem _ hp)) (ε / 2) (by positivity)
    refine ⟨max N1 N2, fun n hn => ?_⟩
    have := h1 n (le_trans (le_max_left _ _) hn)
    have := h2 n (le_trans (le_max_right _ _) hn)
    simp only [List.map_cons, List.sum_cons]
    linarith

/-- a product of finitely many convergent `[0,1]`-valued sequences converges to the product of
    the limits -/
theorem prod_eventually_close {α : Type} (l : List α) (a : Nat → α → Rat) (b : α → Rat)
    (ha : ∀ n, ∀ p ∈ l, 0 ≤ a n p ∧ a n p ≤ 1) (hb : ∀ p ∈ l, 0 ≤ b p ∧ b p ≤ 1)
    (hconv : ∀ p ∈ l, ∀ ε : Rat, 0 < ε → ∃ N, ∀ n, N ≤ n → |a n p - b p| < ε) :
    ∀ ε : Rat, 0 < ε → ∃ N, ∀ n, N ≤ n → |(l.map (a n)).prod - (l.map b).prod| < ε := by
  intro ε hε
  obtain ⟨N, hN⟩ := sum_abs_eventually_lt l a b hconv ε hε
  exact ⟨N, fun n hn => lt_of_le_of_lt (abs_prod_sub_prod_le l (a n) b (ha n) hb) (hN n hn)⟩

/-! ## a single non-negative weight is at most the total -/

theorem mem_le_sum_of_nonneg (l : List Rat) (h : ∀ w ∈ l, 0 ≤ w) : ∀ w ∈ l, w ≤ l.sum := by
  induction l with
  | nil => intro w hw; simp at hw
  | cons x xs ih =>
    intro w hw
    have hx := h x List.mem_cons_self
    have hxs : ∀ w ∈ xs, 0 ≤ w := fun w hw => h w (List.mem_cons_of_mem _ hw)
    have hs : 0 ≤ xs.sum := by simpa using sum_map_nonneg xs id hxs
    rw [List.sum_cons]
    rcases List.mem_cons.1 hw with rfl | hw'
    · linarith
    · have := ih hxs w hw'; linarith

/-- for admissible weights the normalised marginal (and `0` off the range) lies in `[0,1]` -/
theorem normalised_weight_mem_unit (ks : List Nat) (f : Nat → Rat)
    (hnn : ∀ w ∈ ks.map f, 0 ≤ w) (hpos : 0 < (ks.map f).sum) (d : Nat) :
    0 ≤ (if d ∈ ks then f d / (ks.map f).sum else 0) ∧
      (if d ∈ ks then f d / (ks.map f).sum else 0) ≤ 1 := by
  split
  · next hd =>
    have hm : f d ∈ ks.map f := List.mem_map.2 ⟨d, hd, rfl⟩
    exact ⟨div_nonneg (hnn _ hm) hpos.le,
      div_le_one_of_le₀ (mem_le_sum_of_nonneg _ hnn _ hm) hpos.le⟩
  · exact ⟨le_refl _, zero_le_one⟩

/-! ## the transpose and the sampled table -/

theorem length_of_mem_transpose (cols : List (List Nat)) (k : JD) (h : k ∈ transpose cols) :
    k.length = cols.length := by
  cases cols with
  | nil => simp [transpose] at h
  | cons c cs =>
    simp only [transpose, List.mem_map] at h
    obtain ⟨r, _, rfl⟩ := h
    simp

theorem transpose_length_cons (c : List Nat) (cs : List (List Nat)) :
    (transpose (c :: cs)).length = c.length := by
  simp [transpose]

/-- every entry of an empirical table, read with default `0`, is `count / length` -/
theorem empirical_getD (jds : List JD) (k : JD) :
    (Dict.get (empirical jds) k).getD 0 = ((jds.count k : Nat) : Rat) / (jds.length : Rat) := by
  rw [aux_empirical_freq]
  split
  · rfl
  · next h => simp [List.count_eq_zero_of_not_mem h]

/-- with `n` samples per column an entry of the sampled table is `count / n` (also with no column
    at all, where both sides are `0`) -/
theorem marginalSampled_getD (cols : List (List Nat)) (n : Nat) (hlen : ∀ c ∈ cols, c.length = n)
    (k : JD) :
    (Dict.get (marginalSampled cols) k).getD 0
      = (((transpose cols).count k : Nat) : Rat) / (n : Rat) := by
  show (Dict.get (empirical (transpose cols)) k).getD 0 = _
  rw [empirical_getD]
  cases cols with
  | nil => simp [transpose]
  | cons c cs => rw [transpose_length_cons, hlen c List.mem_cons_self]

/-- keys of the wrong arity never occur in the sampled table -/
theorem marginalSampled_getD_of_length_ne (cols : List (List Nat)) (k : JD)
    (h : k.length ≠ cols.length) : (Dict.get (marginalSampled cols) k).getD 0 = 0 := by
  show (Dict.get (empirical (transpose cols)) k).getD 0 = _
  rw [empirical_getD,
    List.count_eq_zero_of_not_mem fun hm => h (length_of_mem_transpose cols k hm)]
  simp

/-- a column frequency lies in `[0,1]` -/
theorem column_freq_mem_unit (cols : List (List Nat)) (n : Nat) (hlen : ∀ c ∈ cols, c.length = n)
    (i d : Nat) :
    0 ≤ (((cols.getD i []).count d : Nat) : Rat) / (n : Rat) ∧
      (((cols.getD i []).count d : Nat) : Rat) / (n : Rat) ≤ 1 := by
  have hle : (cols.getD i []).count d ≤ n := by
    refine le_trans List.count_le_length ?_
    by_cases hi : i < cols.length
    · rw [List.getD_eq_getElem?_getD, List.getElem?_eq_getElem hi, Option.getD_some,
        hlen _ (List.getElem_mem hi)]
    · rw [List.getD_eq_getElem?_getD, List.getElem?_eq_none (by omega)]; simp
  refine ⟨div_nonneg (Nat.cast_nonneg _) (Nat.cast_nonneg _), ?_⟩
  exact div_le_one_of_le₀ (by exact_mod_cast hle) (Nat.cast_nonneg _)

/-- for an admissible call list, the `i`-th limit factor lies in `[0,1]` -/
theorem limit_factor_mem_unit (fs : List (Nat → Rat)) (bounds : List (Nat × Nat))
    (hadm : ∀ call ∈ sampledCalls fs bounds 0, (∀ w ∈ call.2.1, 0 ≤ w) ∧ 0 < call.2.1.sum)
    (i : Nat) (hi : i < bounds.length) (d : Nat) :
    0 ≤ (if d ∈ ((sampledCalls fs bounds 0).getD i ([], [], 0)).1
          then (fs.getD i (fun _ => 0)) d / ((sampledCalls fs bounds 0).getD i ([], [], 0)).2.1.sum
          else 0) ∧
      (if d ∈ ((sampledCalls fs bounds 0).getD i ([], [], 0)).1
          then (fs.getD i (fun _ => 0)) d / ((sampledCalls fs bounds 0).getD i ([], [], 0)).2.1.sum
          else 0) ≤ 1 := by
  have hi' : i < (sampledCalls fs bounds 0).length := by rw [sampledCalls_length]; exact hi
  have hget : (sampledCalls fs bounds 0).getD i ([], [], 0) =
      (rangeAB bounds[i].1 (bounds[i].2 + 1),
       (rangeAB bounds[i].1 (bounds[i].2 + 1)).map (fs.getD i (fun _ => 0)), 0) := by
    rw [List.getD_eq_getElem?_getD, List.getElem?_eq_getElem hi', Option.getD_some]
    exact aux_sampled_calls_aligned fs bounds 0 i hi
  have hmem : (sampledCalls fs bounds 0).getD i ([], [], 0) ∈ sampledCalls fs bounds 0 := by
    rw [List.getD_eq_getElem?_getD, List.getElem?_eq_getElem hi', Option.getD_some]
    exact List.getElem_mem hi'
  have h := hadm _ hmem
  rw [hget] at h ⊢
  exact normalised_weight_mem_unit _ _ h.1 h.2 d

end Gcmpy.Loaders
