import Mathlib.Logic.Relation
import Mathlib.Data.List.Nodup
import Mathlib.Data.List.Perm.Subperm
import GcmpyModel.Model.Graph
/-
Specification of the executable reachability of `Model/Graph.lean`.

`comp es n r` (n rounds of breadth-first expansion from `[r]`) is, for a well-formed graph with `n` vertices,
exactly the set of vertices reachable from `r` along (undirected) edges: `mem_comp_iff`.
Consequences: `lccSize` is the size of a largest reachability class, `connected` is pairwise reachability.
-/
namespace Gcmpy.Graph

/-- undirected adjacency in an edge list -/
def Adj (es : List Edge) (a b : Nat) : Prop := (a, b) ∈ es ∨ (b, a) ∈ es

/-- reachability: reflexive-transitive closure of adjacency -/
def Reach (es : List Edge) (r v : Nat) : Prop := Relation.ReflTransGen (Adj es) r v

/-- the node list is duplicate free and contains every end point -/
def WFGraph (es : List Edge) (nodes : List Nat) : Prop :=
  nodes.Nodup ∧ ∀ e ∈ es, e.1 ∈ nodes ∧ e.2 ∈ nodes

/-- a vertex list closed under adjacency -/
def Closed (es : List Edge) (s : List Nat) : Prop := ∀ a ∈ s, ∀ b, Adj es a b → b ∈ s

/-! ### `dedup` -/

@[simp] theorem mem_dedup {x : Nat} {l : List Nat} : x ∈ dedup l ↔ x ∈ l := by
  induction l with
  | nil => simp [dedup]
  | cons y ys ih =>
    unfold dedup
    by_cases hy : y ∈ ys
    · simp only [hy, if_true, ih, List.mem_cons]
      constructor
      · exact Or.inr
      · rintro (rfl | h)
        · exact hy
        · exact h
    · simp only [hy, if_false, List.mem_cons, ih]

theorem nodup_dedup (l : List Nat) : (dedup l).Nodup := by
  induction l with
  | nil => simp [dedup]
  | cons y ys ih =>
    unfold dedup
    by_cases hy : y ∈ ys
    · simpa only [hy, if_true] using ih
    · simp only [hy, if_false, List.nodup_cons, mem_dedup, not_false_eq_true, true_and]
      exact ih

/-- a duplicate-free list is left alone -/
theorem dedup_eq_self {l : List Nat} (h : l.Nodup) : dedup l = l := by
  induction l with
  | nil => rfl
  | cons y ys ih =>
    rw [List.nodup_cons] at h
    unfold dedup
    simp only [h.1, if_false, ih h.2]

/-! ### adjacency and reachability -/

theorem mem_nbrs {es : List Edge} {a b : Nat} : b ∈ nbrs es a ↔ Adj es a b := by
  unfold nbrs Adj
  simp only [List.mem_flatMap, List.mem_append, Prod.exists]
  constructor
  · rintro ⟨x, y, hxy, h | h⟩
    · by_cases hx : x = a
      · subst hx; simp only [if_true, List.mem_singleton] at h; subst h; exact Or.inl hxy
      · simp [hx] at h
    · by_cases hy : y = a
      · subst hy; simp only [if_true, List.mem_singleton] at h; subst h; exact Or.inr hxy
      · simp [hy] at h
  · rintro (h | h)
    · exact ⟨a, b, h, Or.inl (by simp)⟩
    · exact ⟨b, a, h, Or.inr (by simp)⟩

theorem Adj.symm {es : List Edge} {a b : Nat} (h : Adj es a b) : Adj es b a := Or.symm h

theorem Adj.mono {es es' : List Edge} (hsub : es ⊆ es') {a b : Nat} (h : Adj es a b) : Adj es' a b :=
  h.imp (fun h => hsub h) (fun h => hsub h)

theorem Adj.mem_nodes {es : List Edge} {nodes : List Nat} (h : WFGraph es nodes) {a b : Nat}
    (hab : Adj es a b) : a ∈ nodes ∧ b ∈ nodes := by
  rcases hab with hab | hab
  · exact h.2 _ hab
  · exact (h.2 _ hab).symm

theorem Reach.refl (es : List Edge) (a : Nat) : Reach es a a := Relation.ReflTransGen.refl

theorem Reach.single {es : List Edge} {a b : Nat} (h : Adj es a b) : Reach es a b :=
  Relation.ReflTransGen.single h

theorem Reach.trans {es : List Edge} {a b c : Nat} (h₁ : Reach es a b) (h₂ : Reach es b c) :
    Reach es a c := Relation.ReflTransGen.trans h₁ h₂

theorem Reach.tail {es : List Edge} {a b c : Nat} (h₁ : Reach es a b) (h₂ : Adj es b c) :
    Reach es a c := Relation.ReflTransGen.tail h₁ h₂

theorem Reach.symm {es : List Edge} {a b : Nat} (h : Reach es a b) : Reach es b a := by
  induction h with
  | refl => exact Reach.refl _ _
  | tail _ hbc ih => exact Reach.trans (Reach.single hbc.symm) ih

theorem Reach.mono {es es' : List Edge} (hsub : es ⊆ es') {a b : Nat} (h : Reach es a b) :
    Reach es' a b := by
  induction h with
  | refl => exact Reach.refl _ _
  | tail _ hbc ih => exact ih.tail (hbc.mono hsub)

/-- reachability never leaves the node list -/
theorem Reach.mem_nodes {es : List Edge} {nodes : List Nat} (h : WFGraph es nodes) {a b : Nat}
    (hab : Reach es a b) (ha : a ∈ nodes) : b ∈ nodes := by
  induction hab with
  | refl => exact ha
  | tail _ hbc _ => exact (hbc.mem_nodes h).2

/-- without edges only the vertex itself is reachable -/
theorem Reach.eq_of_no_adj {es : List Edge} {a b : Nat} (hno : ∀ c, ¬ Adj es a c) (h : Reach es a b) :
    a = b := by
  rcases Relation.ReflTransGen.cases_head h with h | ⟨c, hac, _⟩
  · exact h
  · exact absurd hac (hno c)

/-- a closed set containing `r` contains everything reachable from `r` -/
theorem Closed.mem_of_reach {es : List Edge} {s : List Nat} (hc : Closed es s) {r v : Nat} (hr : r ∈ s)
    (h : Reach es r v) : v ∈ s := by
  induction h with
  | refl => exact hr
  | tail _ hbc ih => exact hc _ ih _ hbc

/-! ### `expand` and `closure` -/

theorem mem_expand {es : List Edge} {s : List Nat} {v : Nat} :
    v ∈ expand es s ↔ v ∈ s ∨ ∃ a ∈ s, Adj es a v := by
  unfold expand
  simp only [mem_dedup, List.mem_append, List.mem_flatMap, mem_nbrs]

theorem subset_expand (es : List Edge) (s : List Nat) : s ⊆ expand es s :=
  fun _ hv => mem_expand.2 (Or.inl hv)

theorem nodup_expand (es : List Edge) (s : List Nat) : (expand es s).Nodup := nodup_dedup _

theorem subset_closure (es : List Edge) (k : Nat) (s : List Nat) : s ⊆ closure es k s := by
  induction k generalizing s with
  | zero => exact fun _ h => h
  | succ k ih => exact fun _ hv => ih (expand es s) (subset_expand es s hv)

theorem closure_succ' (es : List Edge) (k : Nat) (s : List Nat) :
    closure es (k+1) s = expand es (closure es k s) := by
  induction k generalizing s with
  | zero => rfl
  | succ k ih => exact ih (expand es s)

theorem closure_nodup {es : List Edge} {s : List Nat} (hs : s.Nodup) (k : Nat) :
    (closure es k s).Nodup := by
  cases k with
  | zero => exact hs
  | succ k => rw [closure_succ']; exact nodup_expand _ _

theorem closure_sound {es : List Edge} {k : Nat} {s : List Nat} {v : Nat}
    (hv : v ∈ closure es k s) : ∃ r ∈ s, Reach es r v := by
  induction k generalizing s with
  | zero => exact ⟨v, hv, Reach.refl _ _⟩
  | succ k ih =>
    obtain ⟨a, ha, hav⟩ := ih (s := expand es s) hv
    rcases mem_expand.1 ha with ha | ⟨b, hb, hba⟩
    · exact ⟨a, ha, hav⟩
    · exact ⟨b, hb, (Reach.single hba).trans hav⟩

/-- more fuel never loses a vertex -/
theorem closure_mono {es : List Edge} {k k' : Nat} (hk : k ≤ k') (s : List Nat) :
    closure es k s ⊆ closure es k' s := by
  induction hk with
  | refl => exact fun _ h => h
  | step _ ih =>
    intro v hv
    rw [closure_succ']
    exact subset_expand _ _ (ih hv)

theorem closure_subset_nodes {es : List Edge} {nodes : List Nat} (h : WFGraph es nodes) {s : List Nat}
    (hs : s ⊆ nodes) (k : Nat) : closure es k s ⊆ nodes := by
  intro v hv
  obtain ⟨r, hr, hrv⟩ := closure_sound hv
  exact hrv.mem_nodes h (hs hr)

theorem Closed.mem_expand_iff {es : List Edge} {s : List Nat} (hc : Closed es s) {v : Nat} :
    v ∈ expand es s ↔ v ∈ s := by
  rw [mem_expand]
  constructor
  · rintro (h | ⟨a, ha, hav⟩)
    · exact h
    · exact hc a ha v hav
  · exact Or.inl

theorem Closed.expand {es : List Edge} {s : List Nat} (hc : Closed es s) : Closed es (expand es s) :=
  fun a ha b hab => hc.mem_expand_iff.2 (hc a (hc.mem_expand_iff.1 ha) b hab)

/-- a closed set is a fixpoint of the expansion -/
theorem Closed.closure {es : List Edge} {s : List Nat} (hc : Closed es s) (k : Nat) :
    Closed es (closure es k s) ∧ ∀ v, v ∈ closure es k s ↔ v ∈ s := by
  induction k generalizing s with
  | zero => exact ⟨hc, fun _ => Iff.rfl⟩
  | succ k ih =>
    obtain ⟨h1, h2⟩ := ih hc.expand
    exact ⟨h1, fun v => (h2 v).trans hc.mem_expand_iff⟩

/-- a round of expansion on a duplicate-free list that is not closed adds a new vertex -/
theorem closed_or_grow {es : List Edge} {s : List Nat} (hs : s.Nodup) :
    Closed es s ∨ s.length + 1 ≤ (expand es s).length := by
  by_cases hc : Closed es s
  · exact Or.inl hc
  · right
    unfold Closed at hc
    simp only [not_forall] at hc
    obtain ⟨a, ha, b, hab, hb⟩ := hc
    have hnd : (b :: s).Nodup := List.nodup_cons.2 ⟨hb, hs⟩
    have hsub : (b :: s) ⊆ expand es s := by
      intro v hv
      rcases List.mem_cons.1 hv with rfl | hv
      · exact mem_expand.2 (Or.inr ⟨a, ha, hab⟩)
      · exact subset_expand _ _ hv
    simpa using hnd.length_le_of_subset hsub

/-- after `k` rounds the visited list is closed or has gained at least `k` vertices -/
theorem closed_or_length {es : List Edge} {s : List Nat} (hs : s.Nodup) (k : Nat) :
    Closed es (closure es k s) ∨ s.length + k ≤ (closure es k s).length := by
  induction k generalizing s with
  | zero => exact Or.inr (Nat.le_refl _)
  | succ k ih =>
    rcases closed_or_grow (es := es) hs with hc | hg
    · exact Or.inl (hc.closure (k+1)).1
    · rcases ih (nodup_expand es s) with hc | hl
      · exact Or.inl hc
      · right
        show s.length + (k+1) ≤ (Gcmpy.Graph.closure es k (Gcmpy.Graph.expand es s)).length
        omega

/-- `nodes.length` rounds (or more) from a non-empty duplicate-free start reach a fixpoint -/
theorem closure_closed {es : List Edge} {nodes : List Nat} (h : WFGraph es nodes) {s : List Nat}
    (hs : s.Nodup) (hsub : s ⊆ nodes) (hne : s ≠ []) {k : Nat} (hk : nodes.length ≤ k) :
    Closed es (closure es k s) := by
  rcases closed_or_length (es := es) hs k with hc | hl
  · exact hc
  · exfalso
    have h1 : (closure es k s).length ≤ nodes.length :=
      (closure_nodup hs k).length_le_of_subset (closure_subset_nodes h hsub k)
    have h2 : 0 < s.length := List.length_pos_iff.2 hne
    omega

/-- multi-source form of the key theorem -/
theorem mem_closure_iff {es : List Edge} {nodes : List Nat} (h : WFGraph es nodes) {s : List Nat}
    (hs : s.Nodup) (hsub : s ⊆ nodes) {k : Nat} (hk : nodes.length ≤ k) {v : Nat} :
    v ∈ closure es k s ↔ ∃ r ∈ s, Reach es r v := by
  constructor
  · exact closure_sound
  · rintro ⟨r, hr, hrv⟩
    have hne : s ≠ [] := List.ne_nil_of_mem hr
    exact (closure_closed h hs hsub hne hk).mem_of_reach (subset_closure es k s hr) hrv

/-! ### `comp` -/

theorem singleton_subset_of_mem {r : Nat} {nodes : List Nat} (hr : r ∈ nodes) : [r] ⊆ nodes := by
  intro v hv
  rw [List.mem_singleton.1 hv]
  exact hr

theorem self_mem_comp (es : List Edge) (n r : Nat) : r ∈ comp es n r :=
  subset_closure es n [r] (List.mem_singleton.2 rfl)

theorem comp_nodup (es : List Edge) (n r : Nat) : (comp es n r).Nodup :=
  closure_nodup (List.nodup_singleton r) n

theorem comp_sound {es : List Edge} {n r v : Nat} (hv : v ∈ comp es n r) : Reach es r v := by
  obtain ⟨r', hr', h⟩ := closure_sound hv
  rw [List.mem_singleton.1 hr'] at h
  exact h

theorem comp_subset_nodes {es : List Edge} {nodes : List Nat} (h : WFGraph es nodes) {r : Nat}
    (hr : r ∈ nodes) (n : Nat) : comp es n r ⊆ nodes :=
  closure_subset_nodes h (singleton_subset_of_mem hr) n

/-- any fuel `≥` the number of vertices computes the reachability class -/
theorem mem_comp_iff_of_le {es : List Edge} {nodes : List Nat} (h : WFGraph es nodes) {r : Nat}
    (hr : r ∈ nodes) {n : Nat} (hn : nodes.length ≤ n) {v : Nat} :
    v ∈ comp es n r ↔ Reach es r v := by
  unfold comp
  rw [mem_closure_iff h (List.nodup_singleton r) (singleton_subset_of_mem hr) hn]
  simp only [List.mem_singleton, exists_eq_left]

/-- THE KEY THEOREM: with fuel = number of vertices, `comp` is exactly the reachability class of `r` -/
theorem mem_comp_iff {es : List Edge} {nodes : List Nat} (h : WFGraph es nodes) {r : Nat}
    (hr : r ∈ nodes) {v : Nat} : v ∈ comp es nodes.length r ↔ Reach es r v :=
  mem_comp_iff_of_le h hr (Nat.le_refl _)

theorem comp_length_le {es : List Edge} {nodes : List Nat} (h : WFGraph es nodes) {r : Nat}
    (hr : r ∈ nodes) (n : Nat) : (comp es n r).length ≤ nodes.length :=
  (comp_nodup es n r).length_le_of_subset (comp_subset_nodes h hr n)

theorem comp_length_pos (es : List Edge) (n r : Nat) : 1 ≤ (comp es n r).length :=
  List.length_pos_of_mem (self_mem_comp es n r)

/-- the size of a component is the length of any duplicate-free enumeration of the reachability class -/
theorem comp_length_eq {es : List Edge} {nodes : List Nat} (h : WFGraph es nodes) {r : Nat}
    (hr : r ∈ nodes) {l : List Nat} (hl : l.Nodup) (hmem : ∀ v, v ∈ l ↔ Reach es r v) :
    (comp es nodes.length r).length = l.length := by
  apply List.Perm.length_eq
  rw [List.perm_ext_iff_of_nodup (comp_nodup _ _ _) hl]
  intro v
  rw [mem_comp_iff h hr, hmem]

/-- mutually reachable vertices have components of the same size -/
theorem comp_length_eq_of_reach {es : List Edge} {nodes : List Nat} (h : WFGraph es nodes) {u v : Nat}
    (hu : u ∈ nodes) (huv : Reach es u v) :
    (comp es nodes.length u).length = (comp es nodes.length v).length := by
  have hv : v ∈ nodes := huv.mem_nodes h hu
  apply comp_length_eq h hu (comp_nodup _ _ _)
  intro w
  rw [mem_comp_iff h hv]
  exact ⟨fun hvw => huv.trans hvw, fun huw => huv.symm.trans huw⟩

/-- edgeless graph: every component is a singleton (any fuel) -/
theorem comp_nil_edges (n r : Nat) : comp [] n r = [r] := by
  unfold comp
  induction n with
  | zero => rfl
  | succ n ih =>
    show closure [] n (expand [] [r]) = [r]
    have : expand [] [r] = [r] := by simp [expand, nbrs, dedup]
    rw [this, ih]

/-! ### `lccSize` -/

theorem foldl_max_spec (l : List Nat) (a : Nat) :
    a ≤ l.foldl max a ∧ (∀ x ∈ l, x ≤ l.foldl max a) ∧ (l.foldl max a = a ∨ l.foldl max a ∈ l) := by
  induction l generalizing a with
  | nil => simp
  | cons y ys ih =>
    obtain ⟨h1, h2, h3⟩ := ih (max a y)
    simp only [List.foldl_cons, List.mem_cons, forall_eq_or_imp]
    refine ⟨by omega, ⟨by omega, h2⟩, ?_⟩
    rcases h3 with h3 | h3
    · rw [h3]
      rcases Nat.le_total a y with hay | hay
      · right; left; exact Nat.max_eq_right hay
      · left; exact Nat.max_eq_left hay
    · right; right; exact h3

/-- `lccSize` is the maximum component size: attained by some vertex, and an upper bound for every vertex -/
theorem lccSize_spec (es : List Edge) (nodes : List Nat) :
    (nodes ≠ [] → ∃ v ∈ nodes, lccSize es nodes = (comp es nodes.length v).length) ∧
    ∀ v ∈ nodes, (comp es nodes.length v).length ≤ lccSize es nodes := by
  unfold lccSize
  obtain ⟨_, h2, h3⟩ := foldl_max_spec (nodes.map fun v => (comp es nodes.length v).length) 0
  constructor
  · intro hne
    rcases h3 with h3 | h3
    · obtain ⟨v, hv⟩ := List.exists_mem_of_ne_nil nodes hne
      have h4 := h2 _ (List.mem_map.2 ⟨v, hv, rfl⟩)
      have h5 := comp_length_pos es nodes.length v
      omega
    · obtain ⟨v, hv, hveq⟩ := List.mem_map.1 h3
      exact ⟨v, hv, hveq.symm⟩
  · intro v hv
    exact h2 _ (List.mem_map.2 ⟨v, hv, rfl⟩)

theorem lccSize_nil (es : List Edge) : lccSize es [] = 0 := rfl

theorem lccSize_pos_le {es : List Edge} {nodes : List Nat} (h : WFGraph es nodes) (hne : nodes ≠ []) :
    1 ≤ lccSize es nodes ∧ lccSize es nodes ≤ nodes.length := by
  obtain ⟨h1, _⟩ := lccSize_spec es nodes
  obtain ⟨v, hv, hveq⟩ := h1 hne
  rw [hveq]
  exact ⟨comp_length_pos _ _ _, comp_length_le h hv _⟩

/-- characterisation of the value: `m` is attained and is an upper bound -/
theorem lccSize_eq {es : List Edge} {nodes : List Nat} {m : Nat}
    (hatt : ∃ v ∈ nodes, (comp es nodes.length v).length = m)
    (hub : ∀ v ∈ nodes, (comp es nodes.length v).length ≤ m) : lccSize es nodes = m := by
  obtain ⟨h1, h2⟩ := lccSize_spec es nodes
  obtain ⟨v, hv, hveq⟩ := hatt
  obtain ⟨w, hw, hweq⟩ := h1 (List.ne_nil_of_mem hv)
  have := h2 v hv
  have := hub w hw
  omega

theorem lccSize_no_edges {nodes : List Nat} (hne : nodes ≠ []) : lccSize [] nodes = 1 := by
  obtain ⟨v, hv⟩ := List.exists_mem_of_ne_nil nodes hne
  apply lccSize_eq ⟨v, hv, by rw [comp_nil_edges]; rfl⟩
  intro w _
  rw [comp_nil_edges]
  exact Nat.le_refl _

/-! ### stars -/

theorem adj_star {c : Nat} {K : List Nat} {a b : Nat} :
    Adj (K.map fun l => (c, l)) a b ↔ (a = c ∧ b ∈ K) ∨ (b = c ∧ a ∈ K) := by
  unfold Adj
  simp only [List.mem_map, Prod.mk.injEq]
  constructor
  · rintro (⟨l, hl, rfl, rfl⟩ | ⟨l, hl, rfl, rfl⟩)
    · exact Or.inl ⟨rfl, hl⟩
    · exact Or.inr ⟨rfl, hl⟩
  · rintro (⟨rfl, hb⟩ | ⟨rfl, ha⟩)
    · exact Or.inl ⟨b, hb, rfl, rfl⟩
    · exact Or.inr ⟨a, ha, rfl, rfl⟩

theorem reach_star_centre {c : Nat} {K : List Nat} {v : Nat} :
    Reach (K.map fun l => (c, l)) c v ↔ v = c ∨ v ∈ K := by
  constructor
  · intro h
    induction h with
    | refl => exact Or.inl rfl
    | tail _ hbc ih =>
      rcases adj_star.1 hbc with ⟨_, hv⟩ | ⟨hv, _⟩
      · exact Or.inr hv
      · exact Or.inl hv
  · rintro (rfl | hv)
    · exact Reach.refl _ _
    · exact Reach.single (adj_star.2 (Or.inl ⟨rfl, hv⟩))

/-- a star with centre `c`, leaves `ls`, of which only the edges to the leaves `K` are present:
the largest component is the centre together with `K`; all other vertices are isolated -/
theorem lccSize_star {c : Nat} {ls K : List Nat} (hc : c ∉ ls) (hls : ls.Nodup) (hK : K.Nodup)
    (hsub : K ⊆ ls) : lccSize (K.map fun l => (c, l)) (c :: ls) = 1 + K.length := by
  have hwf : WFGraph (K.map fun l => (c, l)) (c :: ls) := by
    refine ⟨List.nodup_cons.2 ⟨hc, hls⟩, ?_⟩
    intro e he
    obtain ⟨l, hl, rfl⟩ := List.mem_map.1 he
    exact ⟨List.mem_cons_self, List.mem_cons_of_mem _ (hsub hl)⟩
  have hcK : (c :: K).Nodup := List.nodup_cons.2 ⟨fun h => hc (hsub h), hK⟩
  have hcn : c ∈ c :: ls := List.mem_cons_self
  have hcen : (comp (K.map fun l => (c, l)) (c :: ls).length c).length = 1 + K.length := by
    rw [comp_length_eq hwf hcn hcK (fun v => by rw [reach_star_centre, List.mem_cons])]
    simp only [List.length_cons]; omega
  apply lccSize_eq ⟨c, hcn, hcen⟩
  intro v hv
  by_cases hr : Reach (K.map fun l => (c, l)) c v
  · rw [← comp_length_eq_of_reach hwf hcn hr, hcen]
    exact Nat.le_refl _
  · have hno : ∀ w, ¬ Adj (K.map fun l => (c, l)) v w := by
      intro w hw
      apply hr
      rcases adj_star.1 hw with ⟨rfl, _⟩ | ⟨_, hvK⟩
      · exact Reach.refl _ _
      · exact reach_star_centre.2 (Or.inr hvK)
    rw [comp_length_eq hwf hv (List.nodup_singleton v) (fun w => by
      rw [List.mem_singleton]
      exact ⟨fun h => h ▸ Reach.refl _ _, fun h => (Reach.eq_of_no_adj hno h).symm⟩)]
    simp only [List.length_singleton]; omega

/-! ### `connected` -/

theorem connected_iff {es : List Edge} {nodes : List Nat} (h : WFGraph es nodes) (hne : nodes ≠ []) :
    connected es nodes = true ↔ ∀ u ∈ nodes, ∀ v ∈ nodes, Reach es u v := by
  cases hn : nodes with
  | nil => exact absurd hn hne
  | cons r rest =>
    rw [← hn]
    have hr : r ∈ nodes := by rw [hn]; exact List.mem_cons_self
    have hconn : connected es nodes = true ↔ ∀ v ∈ nodes, v ∈ comp es nodes.length r := by
      subst hn
      simp only [connected, List.all_eq_true, decide_eq_true_eq]
    rw [hconn]
    constructor
    · intro hall u hu v hv
      exact ((mem_comp_iff h hr).1 (hall u hu)).symm.trans ((mem_comp_iff h hr).1 (hall v hv))
    · intro hall v hv
      exact (mem_comp_iff h hr).2 (hall r hr v hv)

theorem connected_nil (es : List Edge) : connected es [] = false := rfl

end Gcmpy.Graph

namespace Gcmpy.Graph
/-! ### non-vacuity -/
example : WFGraph [(0,1), (1,2), (3,4)] [0,1,2,3,4] := by unfold WFGraph; decide
example : comp [(0,1), (1,2), (3,4)] 5 2 = [0, 2, 1] := by decide
example : lccSize [(0,1), (1,2), (3,4)] [0,1,2,3,4] = 3 := by decide
example : connected [(0,1), (1,2), (3,4)] [0,1,2,3,4] = false := by decide
example : connected [(0,1), (1,2), (3,4), (2,3)] [0,1,2,3,4] = true := by decide
/-- fuel below the number of vertices can be insufficient (path 0-1-2-3, two rounds from 0) -/
example : 3 ∉ comp [(0,1), (1,2), (2,3)] 2 0 := by decide
end Gcmpy.Graph
