import Mathlib.Topology.Algebra.Ring.Real
import GcmpyModel.Lemmas.MessagePassing
/-!
Helper lemmas for `Properties/C17Limit.lean`: the message-passing sweep as a map on message tables.

* generic number type: `readH_set_gen`, `SameRead` (two tables read the same at every key) and its congruence
  through `prodOver`, `newMessage`, `calcH`, `sweep`, `sweeps` (`sweep` looks at its table only through `readH`);
  `sweeps_succ'`; the key list: `EdgeKeysIn`, `keys_sweep_of_edgeKeys`, `edgeKeysIn_sweep`, `keys_sweeps`,
  `keys_initH_nodup`, `edgeKeysIn_initH`, `table_ext`;
* over `ℝ`: `TendstoH` (entry-wise convergence of a family of tables) and its preservation by `Dict.set`,
  `prodOver`, `us`, `componentTerm`, `automatedEquation`, `newMessage`, `calcH`, `sweep`, `outerSum`
  (every step is a polynomial in the entries: finite sums of finite products);
* `limitTable`: the table with the keys of a given table and prescribed entries;
* `φ = 0` over a commutative ring: `sweeps_zero_read`, `outerSum_of_ones_gen`;
* transport along a ring homomorphism `f` (used with `ℚ → ℝ`): `mapH`, `readH_mapH`, `automatedEquation_map`,
  `sweep_mapH`, `sweeps_mapH`, `initH_mapH`, `outerSum_mapH` (every step commutes with `f`).
-/
namespace Gcmpy.MessagePassing
open Gcmpy Gcmpy.Graph Gcmpy.Automated Filter
set_option linter.unusedSectionVars false

/-! ### 1. generic number type: the sweep reads its table only through `readH` -/

section generic
variable {R : Type} [Add R] [Sub R] [Mul R] [OfNat R 0] [OfNat R 1]

theorem readH_set_gen (H : HMap R) (k k' : Nat × Nat) (v : R) :
    readH (Dict.set H k v) k' = if k = k' then v else readH H k' := by
  unfold readH
  rw [Dict.get_set]
  split <;> rfl

theorem readH_of_not_mem_keys (H : HMap R) {k : Nat × Nat} (hk : k ∉ Dict.keys H) : readH H k = 0 := by
  unfold readH
  rw [Dict.get_eq_none_of_not_mem H k hk]
  rfl

theorem prodOver_nil_gen (net : Net) (H : HMap R) (j : Nat) (done : List Nat) (acc : R) :
    prodOver net H j [] done acc = acc := by
  rw [prodOver]

theorem prodOver_cons_none_gen {net : Net} {H : HMap R} {j l : Nat} (ls done : List Nat) (acc : R)
    (h : labelOf net j l = none) :
    prodOver net H j (l :: ls) done acc = prodOver net H j ls done acc := by
  rw [prodOver, h]

theorem prodOver_cons_done_gen {net : Net} {H : HMap R} {j l : Nat} {lab : Label} (ls : List Nat)
    {done : List Nat} (acc : R) (h : labelOf net j l = some lab) (hd : lab.id ∈ done) :
    prodOver net H j (l :: ls) done acc = prodOver net H j ls done acc := by
  rw [prodOver, h]
  simp only [hd, if_true]

theorem prodOver_cons_new_gen {net : Net} {H : HMap R} {j l : Nat} {lab : Label} (ls : List Nat)
    {done : List Nat} (acc : R) (h : labelOf net j l = some lab) (hd : lab.id ∉ done) :
    prodOver net H j (l :: ls) done acc
      = prodOver net H j ls (lab.id :: done) (acc * readH H (j, lab.id)) := by
  rw [prodOver, h]
  simp only [hd, if_false]

/-- the two tables read the same at every key -/
def SameRead (H' H : HMap R) : Prop := ∀ k, readH H' k = readH H k

theorem sameRead_refl (H : HMap R) : SameRead H H := fun _ => rfl

theorem SameRead.symm {H' H : HMap R} (h : SameRead H' H) : SameRead H H' := fun k => (h k).symm

theorem SameRead.trans {H'' H' H : HMap R} (h : SameRead H'' H') (h' : SameRead H' H) : SameRead H'' H :=
  fun k => (h k).trans (h' k)

theorem prodOver_congr (net : Net) {H' H : HMap R} (h : SameRead H' H) (j : Nat) (ls done : List Nat) (acc : R) :
    prodOver net H' j ls done acc = prodOver net H j ls done acc := by
  induction ls generalizing done acc with
  | nil => rw [prodOver_nil_gen, prodOver_nil_gen]
  | cons l ls ih =>
    cases hlab : labelOf net j l with
    | none =>
      rw [prodOver_cons_none_gen ls done acc hlab, prodOver_cons_none_gen ls done acc hlab]
      exact ih done acc
    | some lab =>
      by_cases hd : lab.id ∈ done
      · rw [prodOver_cons_done_gen ls acc hlab hd, prodOver_cons_done_gen ls acc hlab hd]
        exact ih done acc
      · rw [prodOver_cons_new_gen ls acc hlab hd, prodOver_cons_new_gen ls acc hlab hd, h]
        exact ih _ _

theorem newMessage_congr (net : Net) (φ : R) {H' H : HMap R} (h : SameRead H' H) (focal : Nat) (lab : Label) :
    newMessage net φ H' focal lab = newMessage net φ H focal lab := by
  simp only [newMessage, prodOver_congr net h]

theorem sameRead_calcH (net : Net) (φ : R) {H' H : HMap R} (h : SameRead H' H) (focal : Nat) (lab : Label) :
    SameRead (calcH net φ H' focal lab) (calcH net φ H focal lab) := by
  intro k
  unfold calcH
  rw [readH_set_gen, readH_set_gen, newMessage_congr net φ h]
  split
  · rfl
  · exact h k

/-- **the sweep looks at its table only through `readH`** -/
theorem sameRead_sweep (net : Net) (φ : R) {H' H : HMap R} (h : SameRead H' H) :
    SameRead (sweep net φ H') (sweep net φ H) := by
  unfold sweep
  exact foldl_rel SameRead _ _ _
    (fun b b' e _ hb => sameRead_calcH net φ (sameRead_calcH net φ hb e.1 e.2.2) e.2.1 e.2.2) H' H h

theorem sameRead_sweeps (net : Net) (φ : R) (n : Nat) {H' H : HMap R} (h : SameRead H' H) :
    SameRead (sweeps net φ n H') (sweeps net φ n H) := by
  induction n generalizing H' H with
  | zero => exact h
  | succ n ih => exact ih (sameRead_sweep net φ h)

theorem outerSum_congr (net : Net) {H' H : HMap R} (h : SameRead H' H) : outerSum net H' = outerSum net H := by
  simp only [outerSum, prodOver_congr net h]

/-- the recursion of `sweeps` peels the FIRST sweep; this is the form with the LAST one -/
theorem sweeps_succ' (net : Net) (φ : R) (n : Nat) (H : HMap R) :
    sweeps net φ (n + 1) H = sweep net φ (sweeps net φ n H) := by
  induction n generalizing H with
  | zero => rfl
  | succ n ih =>
    show sweeps net φ (n + 1) (sweep net φ H) = sweep net φ (sweeps net φ n (sweep net φ H))
    exact ih (sweep net φ H)

theorem sweeps_add (net : Net) (φ : R) (m n : Nat) (H : HMap R) :
    sweeps net φ (m + n) H = sweeps net φ n (sweeps net φ m H) := by
  induction m generalizing H with
  | zero => rw [Nat.zero_add]; rfl
  | succ m ih =>
    rw [Nat.add_right_comm]
    exact ih (sweep net φ H)

/-- a table that reads the same after one sweep reads the same after any number of sweeps -/
theorem sameRead_sweeps_of_fixed (net : Net) (φ : R) {H : HMap R} (hfix : SameRead (sweep net φ H) H) :
    ∀ n, SameRead (sweeps net φ n H) H := by
  intro n
  induction n with
  | zero => exact sameRead_refl H
  | succ n ih => exact (sameRead_sweeps net φ n hfix).trans ih

/-- a table fixed by one sweep is fixed by any number of sweeps (any number type) -/
theorem fixed_point_stable_gen (net : Net) (φ : R) {H : HMap R} (hfix : sweep net φ H = H) :
    ∀ n, sweeps net φ n H = H := by
  intro n
  induction n with
  | zero => rfl
  | succ n ih => rw [sweeps, hfix, ih]

/-! #### the key list -/

/-- the table has an entry for every `(end point, motif id)` of a labelled network edge -/
def EdgeKeysIn (net : Net) (H : HMap R) : Prop := ∀ k, EdgeKey net k → k ∈ Dict.keys H

theorem keys_calcH_of_mem (net : Net) (φ : R) (H : HMap R) (focal : Nat) (lab : Label)
    (h : (focal, lab.id) ∈ Dict.keys H) : Dict.keys (calcH net φ H focal lab) = Dict.keys H :=
  Dict.keys_set_of_mem H _ _ h

theorem mem_keys_calcH (net : Net) (φ : R) (H : HMap R) (focal : Nat) (lab : Label) (k : Nat × Nat) :
    k ∈ Dict.keys (calcH net φ H focal lab) ↔ k = (focal, lab.id) ∨ k ∈ Dict.keys H :=
  Dict.mem_keys_set H _ _ _

/-- a sweep only overwrites: it leaves the key list of a table containing all edge keys unchanged -/
theorem keys_sweep_of_edgeKeys (net : Net) (φ : R) {H : HMap R} (h : EdgeKeysIn net H) :
    Dict.keys (sweep net φ H) = Dict.keys H := by
  unfold sweep
  refine foldl_invariant (fun b : HMap R => Dict.keys b = Dict.keys H) _ _ (fun b e he hb => ?_) H rfl
  have h1 : (e.1, e.2.2.id) ∈ Dict.keys b := hb ▸ h _ ⟨e, he, Or.inl rfl⟩
  have h2 : (e.2.1, e.2.2.id) ∈ Dict.keys (calcH net φ b e.1 e.2.2) := by
    rw [keys_calcH_of_mem net φ b _ _ h1, hb]
    exact h _ ⟨e, he, Or.inr rfl⟩
  rw [keys_calcH_of_mem net φ _ _ _ h2, keys_calcH_of_mem net φ b _ _ h1, hb]

theorem foldl_calcH_keys (net : Net) (φ : R) (l : List (Nat × Nat × Label)) (H : HMap R) (k : Nat × Nat)
    (hk : k ∈ Dict.keys H ∨ ∃ e ∈ l, k = (e.1, e.2.2.id) ∨ k = (e.2.1, e.2.2.id)) :
    k ∈ Dict.keys (l.foldl (fun H e => calcH net φ (calcH net φ H e.1 e.2.2) e.2.1 e.2.2) H) := by
  induction l generalizing H with
  | nil =>
    rcases hk with hk | ⟨e, he, _⟩
    · exact hk
    · simp at he
  | cons x xs ih =>
    rw [List.foldl_cons]
    apply ih
    rcases hk with hk | ⟨e, he, hke⟩
    · left
      rw [mem_keys_calcH, mem_keys_calcH]
      exact Or.inr (Or.inr hk)
    · rcases List.mem_cons.1 he with rfl | he'
      · left
        rw [mem_keys_calcH, mem_keys_calcH]
        rcases hke with rfl | rfl
        · exact Or.inr (Or.inl rfl)
        · exact Or.inl rfl
      · exact Or.inr ⟨e, he', hke⟩

/-- after one sweep every edge key is present, whatever the start -/
theorem edgeKeysIn_sweep (net : Net) (φ : R) (H : HMap R) : EdgeKeysIn net (sweep net φ H) :=
  fun k hk => foldl_calcH_keys net φ net.edges H k (Or.inr hk)

theorem keys_sweeps (net : Net) (φ : R) {H : HMap R} (h : EdgeKeysIn net H) (n : Nat) :
    Dict.keys (sweeps net φ n H) = Dict.keys H := by
  induction n generalizing H with
  | zero => rfl
  | succ n ih =>
    show Dict.keys (sweeps net φ n (sweep net φ H)) = Dict.keys H
    rw [ih (edgeKeysIn_sweep net φ H), keys_sweep_of_edgeKeys net φ h]

theorem keys_set_nodup {d : HMap R} (h : (Dict.keys d).Nodup) (k : Nat × Nat) (v : R) :
    (Dict.keys (Dict.set d k v)).Nodup := by
  by_cases hk : k ∈ Dict.keys d
  · rw [Dict.keys_set_of_mem d k v hk]; exact h
  · rw [Dict.keys_set_of_not_mem d k v hk, List.nodup_append]
    refine ⟨h, List.nodup_singleton k, ?_⟩
    intro a ha b hb
    rw [List.mem_singleton] at hb
    subst hb
    intro e
    exact hk (e ▸ ha)

theorem keys_calcH_nodup (net : Net) (φ : R) {H : HMap R} (h : (Dict.keys H).Nodup) (focal : Nat) (lab : Label) :
    (Dict.keys (calcH net φ H focal lab)).Nodup :=
  keys_set_nodup h _ _

theorem keys_sweep_nodup (net : Net) (φ : R) {H : HMap R} (h : (Dict.keys H).Nodup) :
    (Dict.keys (sweep net φ H)).Nodup := by
  unfold sweep
  exact foldl_invariant (fun b : HMap R => (Dict.keys b).Nodup) _ _
    (fun b e _ hb => keys_calcH_nodup net φ (keys_calcH_nodup net φ hb _ _) _ _) H h

/-- the uniform start has one entry per key -/
theorem keys_initH_nodup (net : Net) (half : R) : (Dict.keys (initH net half)).Nodup := by
  unfold initH
  refine foldl_invariant (fun b : HMap R => (Dict.keys b).Nodup) _ _ (fun H e _ hH => ?_) [] List.nodup_nil
  exact foldl_invariant (fun b : HMap R => (Dict.keys b).Nodup) _ _
    (fun H k _ hH => keys_set_nodup hH _ _) H hH

theorem foldl_set_keys (id : Nat) (half : R) (vs : List Nat) (H : HMap R) (k : Nat × Nat)
    (hk : k ∈ Dict.keys H ∨ ∃ v ∈ vs, k = (v, id)) :
    k ∈ Dict.keys (vs.foldl (fun H v => Dict.set H (v, id) half) H) := by
  induction vs generalizing H with
  | nil =>
    rcases hk with hk | ⟨v, hv, _⟩
    · exact hk
    · simp at hv
  | cons x xs ih =>
    rw [List.foldl_cons]
    apply ih
    rcases hk with hk | ⟨v, hv, hkv⟩
    · left; rw [Dict.mem_keys_set]; exact Or.inr hk
    · rcases List.mem_cons.1 hv with rfl | hv'
      · left; rw [Dict.mem_keys_set]; exact Or.inl hkv
      · exact Or.inr ⟨v, hv', hkv⟩

theorem foldl_initH_keys (half : R) (l : List (Nat × Nat × Label)) (H : HMap R) (k : Nat × Nat)
    (hk : k ∈ Dict.keys H ∨ ∃ e ∈ l, ∃ v ∈ e.2.2.verts, k = (v, e.2.2.id)) :
    k ∈ Dict.keys (l.foldl (fun H e => e.2.2.verts.foldl (fun H k => Dict.set H (k, e.2.2.id) half) H) H) := by
  induction l generalizing H with
  | nil =>
    rcases hk with hk | ⟨e, he, _⟩
    · exact hk
    · simp at he
  | cons x xs ih =>
    rw [List.foldl_cons]
    apply ih
    rcases hk with hk | ⟨e, he, v, hv, hkv⟩
    · exact Or.inl (foldl_set_keys _ half _ H k (Or.inl hk))
    · rcases List.mem_cons.1 he with rfl | he'
      · exact Or.inl (foldl_set_keys _ half _ H k (Or.inr ⟨v, hv, hkv⟩))
      · exact Or.inr ⟨e, he', v, hv, hkv⟩

/-- the uniform start has an entry `(v, id)` for every member `v` of every motif -/
theorem mem_keys_initH (net : Net) (half : R) {e : Nat × Nat × Label} (he : e ∈ net.edges) {v : Nat}
    (hv : v ∈ e.2.2.verts) : (v, e.2.2.id) ∈ Dict.keys (initH net half) :=
  foldl_initH_keys half net.edges [] _ (Or.inr ⟨e, he, v, hv, rfl⟩)

/-- both end points of every labelled edge are listed as members of its motif (part of `Consistent`) -/
def EndsInVerts (net : Net) : Prop := ∀ e ∈ net.edges, e.1 ∈ e.2.2.verts ∧ e.2.1 ∈ e.2.2.verts

theorem endsInVerts_of_consistent {net : Net} (hc : Consistent net) : EndsInVerts net :=
  fun _ he => ends_in_verts hc he

theorem edgeKeysIn_initH {net : Net} (hv : EndsInVerts net) (half : R) : EdgeKeysIn net (initH net half) := by
  rintro k ⟨e, he, rfl | rfl⟩
  · exact mem_keys_initH net half he (hv e he).1
  · exact mem_keys_initH net half he (hv e he).2

/-- two tables with the same duplicate-free key list that read the same at these keys are equal -/
theorem table_ext {H' H : HMap R} (hk : Dict.keys H' = Dict.keys H) (hn : (Dict.keys H).Nodup)
    (h : ∀ k ∈ Dict.keys H, readH H' k = readH H k) : H' = H := by
  induction H generalizing H' with
  | nil =>
    cases H' with
    | nil => rfl
    | cons x xs => simp [Dict.keys] at hk
  | cons y ys ih =>
    cases H' with
    | nil => simp [Dict.keys] at hk
    | cons x xs =>
      obtain ⟨a, w⟩ := y
      obtain ⟨a', w'⟩ := x
      simp only [Dict.keys, List.map_cons, List.cons.injEq] at hk
      obtain ⟨rfl, hk'⟩ := hk
      simp only [Dict.keys, List.map_cons, List.nodup_cons] at hn
      have hw : w' = w := by
        have := h a' (by simp [Dict.keys])
        simpa [readH, Dict.get] using this
      subst hw
      congr 1
      refine ih hk' hn.2 (fun k hk => ?_)
      have hne : a' ≠ k := fun e => hn.1 (e ▸ hk)
      have := h k (by simp only [Dict.keys, List.map_cons, List.mem_cons]; exact Or.inr hk)
      simpa [readH, Dict.get, hne] using this

/-- the table with the keys of `H` and the entries `L` -/
def limitTable (H : HMap R) (L : Nat × Nat → R) : HMap R := H.map fun p => (p.1, L p.1)

theorem keys_limitTable (H : HMap R) (L : Nat × Nat → R) : Dict.keys (limitTable H L) = Dict.keys H := by
  simp [limitTable, Dict.keys, Function.comp_def]

theorem get_limitTable (H : HMap R) (L : Nat × Nat → R) (k : Nat × Nat) :
    Dict.get (limitTable H L) k = (Dict.get H k).map fun _ => L k := by
  induction H with
  | nil => rfl
  | cons x xs ih =>
    obtain ⟨a, w⟩ := x
    by_cases ha : a = k
    · subst ha; simp [limitTable, Dict.get]
    · have := ih
      simp only [limitTable] at this
      simp [limitTable, Dict.get, ha, this]

theorem readH_limitTable_of_mem (H : HMap R) (L : Nat × Nat → R) {k : Nat × Nat} (hk : k ∈ Dict.keys H) :
    readH (limitTable H L) k = L k := by
  unfold readH
  rw [get_limitTable]
  have := (Dict.get_isSome_iff_mem_keys H k).2 hk
  cases hg : Dict.get H k with
  | none => rw [hg] at this; simp at this
  | some v => rfl

end generic

/-! ### 2. `φ = 0` over a commutative ring -/

section zero
variable {R : Type} [CommRing R]

theorem newMessage_at_zero_gen (net : Net) (H : HMap R) {focal : Nat} {lab : Label}
    (hl : Automated.Simple lab.edges) (hf : focal ∈ motifNodes lab.edges) :
    newMessage net (0 : R) H focal lab = 1 := by
  unfold newMessage
  exact automated_at_zero ⟨motifNodes lab.edges, lab.edges⟩ (motifNodes_wf _) hl hf _

theorem calcH_zero_read_gen (net : Net) (H : HMap R) {focal : Nat} {lab : Label}
    (hl : Automated.Simple lab.edges) (hf : focal ∈ motifNodes lab.edges) (k : Nat × Nat) :
    readH (calcH net (0 : R) H focal lab) k = if (focal, lab.id) = k then 1 else readH H k := by
  unfold calcH
  rw [readH_set_gen, newMessage_at_zero_gen net H hl hf]

theorem foldl_zero_read (net : Net) (l : List (Nat × Nat × Label))
    (hl : ∀ e ∈ l, Automated.Simple e.2.2.edges ∧ e.1 ∈ motifNodes e.2.2.edges ∧ e.2.1 ∈ motifNodes e.2.2.edges)
    (H : HMap R) (k : Nat × Nat) :
    (readH H k = 1 ∨ (∃ e ∈ l, k = (e.1, e.2.2.id) ∨ k = (e.2.1, e.2.2.id)) →
      readH (l.foldl (fun H e => calcH net (0 : R) (calcH net 0 H e.1 e.2.2) e.2.1 e.2.2) H) k = 1) ∧
    ((¬ ∃ e ∈ l, k = (e.1, e.2.2.id) ∨ k = (e.2.1, e.2.2.id)) →
      readH (l.foldl (fun H e => calcH net (0 : R) (calcH net 0 H e.1 e.2.2) e.2.1 e.2.2) H) k = readH H k) := by
  induction l generalizing H with
  | nil =>
    refine ⟨?_, fun _ => rfl⟩
    rintro (hk | ⟨e, he, _⟩)
    · exact hk
    · simp at he
  | cons x xs ih =>
    obtain ⟨hs, ha, hb⟩ := hl x List.mem_cons_self
    have ih' := ih (fun e he => hl e (List.mem_cons_of_mem _ he)) (calcH net (0 : R) (calcH net 0 H x.1 x.2.2) x.2.1 x.2.2)
    have hread : readH (calcH net (0 : R) (calcH net 0 H x.1 x.2.2) x.2.1 x.2.2) k
        = if (x.2.1, x.2.2.id) = k then 1 else if (x.1, x.2.2.id) = k then 1 else readH H k := by
      rw [calcH_zero_read_gen net _ hs hb, calcH_zero_read_gen net _ hs ha]
    rw [List.foldl_cons]
    constructor
    · intro hk
      apply ih'.1
      rcases hk with hk | ⟨e, he, hke⟩
      · left; rw [hread, hk]; simp
      · rcases List.mem_cons.1 he with rfl | he'
        · left
          rw [hread]
          rcases hke with rfl | rfl
          · simp
          · simp
        · exact Or.inr ⟨e, he', hke⟩
    · intro hk
      have h1 : ¬ ∃ e ∈ xs, k = (e.1, e.2.2.id) ∨ k = (e.2.1, e.2.2.id) :=
        fun ⟨e, he, hke⟩ => hk ⟨e, List.mem_cons_of_mem _ he, hke⟩
      have h2 : (x.2.1, x.2.2.id) ≠ k := fun e => hk ⟨x, List.mem_cons_self, Or.inr e.symm⟩
      have h3 : (x.1, x.2.2.id) ≠ k := fun e => hk ⟨x, List.mem_cons_self, Or.inl e.symm⟩
      rw [ih'.2 h1, hread, if_neg h2, if_neg h3]

/-- at `φ = 0` one sweep writes `1` at every edge key and leaves the other entries alone -/
theorem sweep_zero_read {net : Net} (h : LabelsOk net) (H : HMap R) (k : Nat × Nat) :
    (EdgeKey net k → readH (sweep net (0 : R) H) k = 1) ∧
    (¬ EdgeKey net k → readH (sweep net (0 : R) H) k = readH H k) :=
  ⟨fun hk => (foldl_zero_read net net.edges h H k).1 (Or.inr hk), (foldl_zero_read net net.edges h H k).2⟩

/-- at `φ = 0` every table reached after at least one sweep reads `1` at the edge keys and as the start
elsewhere -/
theorem sweeps_zero_read {net : Net} (h : LabelsOk net) (H : HMap R) (k : Nat × Nat) (n : Nat) :
    (EdgeKey net k → readH (sweeps net (0 : R) (n + 1) H) k = 1) ∧
    (¬ EdgeKey net k → readH (sweeps net (0 : R) (n + 1) H) k = readH H k) := by
  induction n with
  | zero => exact sweep_zero_read h H k
  | succ n ih =>
    rw [sweeps_succ' net (0 : R) (n + 1) H]
    constructor
    · exact (sweep_zero_read h _ k).1
    · intro hk
      rw [(sweep_zero_read h _ k).2 hk]
      exact ih.2 hk

theorem prodOver_of_ones_gen (net : Net) {H : HMap R} (hH : ∀ k, EdgeKey net k → readH H k = 1)
    (j : Nat) (ls done : List Nat) (acc : R) : prodOver net H j ls done acc = acc := by
  induction ls generalizing done acc with
  | nil => rw [prodOver_nil_gen]
  | cons l ls ih =>
    cases hlab : labelOf net j l with
    | none => rw [prodOver_cons_none_gen ls done acc hlab]; exact ih done acc
    | some lab =>
      by_cases hd : lab.id ∈ done
      · rw [prodOver_cons_done_gen ls acc hlab hd]; exact ih done acc
      · rw [prodOver_cons_new_gen ls acc hlab hd, ih, hH _ (edgeKey_of_labelOf hlab), mul_one]

theorem foldl_add_one_gen (l : List Nat) (f : Nat → R) (hf : ∀ i ∈ l, f i = 1) (a : R) :
    l.foldl (fun acc i => acc + f i) a = a + (l.length : R) := by
  induction l generalizing a with
  | nil => simp
  | cons x xs ih =>
    rw [List.foldl_cons, ih (fun i hi => hf i (List.mem_cons_of_mem _ hi)), hf x List.mem_cons_self]
    simp only [List.length_cons, Nat.cast_add, Nat.cast_one]
    ring

/-- a table reading `1` at every edge key has outer sum `N` -/
theorem outerSum_of_ones_gen (net : Net) {H : HMap R} (hH : ∀ k, EdgeKey net k → readH H k = 1) :
    outerSum net H = (net.nodes.length : R) := by
  unfold outerSum
  rw [foldl_add_one_gen _ _ (fun i _ => prodOver_of_ones_gen net hH i _ [] 1)]
  simp

end zero

/-! ### 3. over `ℝ`: every step is continuous in the entries -/

section real
variable {ι : Type} {F : Filter ι}

/-- entry-wise convergence of a family of message tables -/
def TendstoH (F : Filter ι) (Hn : ι → HMap ℝ) (H : HMap ℝ) : Prop :=
  ∀ k, Tendsto (fun n => readH (Hn n) k) F (nhds (readH H k))

theorem tendstoH_const (H : HMap ℝ) : TendstoH F (fun _ => H) H := fun _ => tendsto_const_nhds

theorem tendstoH_congr_right {Hn : ι → HMap ℝ} {H H' : HMap ℝ} (h : TendstoH F Hn H) (hs : SameRead H H') :
    TendstoH F Hn H' := fun k => hs k ▸ h k

theorem tendstoH_set {Hn : ι → HMap ℝ} {H : HMap ℝ} (h : TendstoH F Hn H) (k : Nat × Nat)
    {vn : ι → ℝ} {v : ℝ} (hv : Tendsto vn F (nhds v)) :
    TendstoH F (fun n => Dict.set (Hn n) k (vn n)) (Dict.set H k v) := by
  intro k'
  simp only [readH_set_gen]
  by_cases hk : k = k'
  · simpa only [hk, if_true] using hv
  · simpa only [hk, if_false] using h k'

theorem tendsto_foldl_add {α : Type} (l : List α) (fn : ι → α → ℝ) (f : α → ℝ)
    (hf : ∀ a ∈ l, Tendsto (fun n => fn n a) F (nhds (f a))) {accn : ι → ℝ} {acc : ℝ}
    (ha : Tendsto accn F (nhds acc)) :
    Tendsto (fun n => l.foldl (fun acc a => acc + fn n a) (accn n)) F
      (nhds (l.foldl (fun acc a => acc + f a) acc)) := by
  induction l generalizing accn acc with
  | nil => exact ha
  | cons x xs ih =>
    simp only [List.foldl_cons]
    exact ih (fun a ha' => hf a (List.mem_cons_of_mem _ ha')) (ha.add (hf x List.mem_cons_self))

theorem tendsto_foldl_mul {α : Type} (l : List α) (fn : ι → α → ℝ) (f : α → ℝ)
    (hf : ∀ a ∈ l, Tendsto (fun n => fn n a) F (nhds (f a))) {accn : ι → ℝ} {acc : ℝ}
    (ha : Tendsto accn F (nhds acc)) :
    Tendsto (fun n => l.foldl (fun acc a => acc * fn n a) (accn n)) F
      (nhds (l.foldl (fun acc a => acc * f a) acc)) := by
  induction l generalizing accn acc with
  | nil => exact ha
  | cons x xs ih =>
    simp only [List.foldl_cons]
    exact ih (fun a ha' => hf a (List.mem_cons_of_mem _ ha')) (ha.mul (hf x List.mem_cons_self))

/-- the neighbour product is continuous in the table entries (and in the accumulator) -/
theorem tendsto_prodOver (net : Net) {Hn : ι → HMap ℝ} {H : HMap ℝ} (h : TendstoH F Hn H) (j : Nat)
    (ls done : List Nat) {accn : ι → ℝ} {acc : ℝ} (ha : Tendsto accn F (nhds acc)) :
    Tendsto (fun n => prodOver net (Hn n) j ls done (accn n)) F (nhds (prodOver net H j ls done acc)) := by
  induction ls generalizing done accn acc with
  | nil => simpa only [prodOver_nil_gen] using ha
  | cons l ls ih =>
    cases hlab : labelOf net j l with
    | none =>
      simp only [prodOver_cons_none_gen (R := ℝ) ls done _ hlab]
      exact ih done ha
    | some lab =>
      by_cases hd : lab.id ∈ done
      · simp only [prodOver_cons_done_gen (R := ℝ) ls _ hlab hd]
        exact ih done ha
      · simp only [prodOver_cons_new_gen (R := ℝ) ls _ hlab hd]
        exact ih _ (ha.mul (h _))

/-- `get_us` is continuous in `u` (pointwise) -/
theorem tendsto_us (g : Motif) {un : ι → Nat → ℝ} {u : Nat → ℝ}
    (hu : ∀ v, Tendsto (fun n => un n v) F (nhds (u v))) (root : Nat) :
    Tendsto (fun n => us g (un n) root) F (nhds (us g u root)) := by
  unfold us
  exact tendsto_foldl_mul _ (fun n v => un n v) u (fun v _ => hu v) tendsto_const_nhds

theorem tendsto_componentTerm (G : Motif) (p : ℝ) {un : ι → Nat → ℝ} {u : Nat → ℝ}
    (hu : ∀ v, Tendsto (fun n => un n v) F (nhds (u v))) (root : Nat) (c : List Nat) (combos : List Nat) :
    Tendsto (fun n => componentTerm G p (un n) root c combos) F (nhds (componentTerm G p u root c combos)) := by
  by_cases hc : c.length = 1
  · simp only [componentTerm, hc, if_true]
    exact tendsto_const_nhds
  · simp only [componentTerm, hc, if_false]
    exact tendsto_foldl_add combos
      (fun n m => powN p ((inner G c).edges.length - m) * powN (1 - p) m * powN (1 - p) (interfaceCount G c)
        * us (inner G c) (un n) root)
      (fun m => powN p ((inner G c).edges.length - m) * powN (1 - p) m * powN (1 - p) (interfaceCount G c)
        * us (inner G c) u root)
      (fun m _ => tendsto_const_nhds.mul (tendsto_us (inner G c) hu root)) tendsto_const_nhds

/-- **the automated equation is continuous in the evaluation `u`** (pointwise convergence): it is a finite sum
of finite products of constants and values `u v`.  No well-formedness of the motif is needed. -/
theorem tendsto_automatedEquation (G : Motif) (p : ℝ) {un : ι → Nat → ℝ} {u : Nat → ℝ}
    (hu : ∀ v, Tendsto (fun n => un n v) F (nhds (u v))) (root : Nat) :
    Tendsto (fun n => automatedEquation G p (un n) root) F (nhds (automatedEquation G p u root)) := by
  unfold automatedEquation
  exact tendsto_foldl_add (connectedSubgraphs G root)
    (fun n c => componentTerm G p (un n) root c (if c.length = 1 then [] else edgeCombinations (inner G c)))
    (fun c => componentTerm G p u root c (if c.length = 1 then [] else edgeCombinations (inner G c)))
    (fun c _ => tendsto_componentTerm G p hu root c _) tendsto_const_nhds

theorem tendsto_newMessage (net : Net) (φ : ℝ) {Hn : ι → HMap ℝ} {H : HMap ℝ} (h : TendstoH F Hn H)
    (focal : Nat) (lab : Label) :
    Tendsto (fun n => newMessage net φ (Hn n) focal lab) F (nhds (newMessage net φ H focal lab)) := by
  unfold newMessage
  exact tendsto_automatedEquation _ φ
    (un := fun n j => prodOver net (Hn n) j ((neighbours net j).filter fun l => l ∉ lab.verts) [] 1)
    (fun v => tendsto_prodOver net h v _ [] tendsto_const_nhds) focal

theorem tendstoH_calcH (net : Net) (φ : ℝ) {Hn : ι → HMap ℝ} {H : HMap ℝ} (h : TendstoH F Hn H)
    (focal : Nat) (lab : Label) :
    TendstoH F (fun n => calcH net φ (Hn n) focal lab) (calcH net φ H focal lab) :=
  tendstoH_set h _ (tendsto_newMessage net φ h focal lab)

theorem tendstoH_foldl_calcH (net : Net) (φ : ℝ) (l : List (Nat × Nat × Label)) {Hn : ι → HMap ℝ} {H : HMap ℝ}
    (h : TendstoH F Hn H) :
    TendstoH F (fun n => l.foldl (fun H e => calcH net φ (calcH net φ H e.1 e.2.2) e.2.1 e.2.2) (Hn n))
      (l.foldl (fun H e => calcH net φ (calcH net φ H e.1 e.2.2) e.2.1 e.2.2) H) := by
  induction l generalizing Hn H with
  | nil => exact h
  | cons x xs ih =>
    simp only [List.foldl_cons]
    exact ih (tendstoH_calcH net φ (tendstoH_calcH net φ h _ _) _ _)

/-- **one sweep is continuous**: if the entries of `Hn` converge to those of `H`, the entries of
`sweep net φ (Hn ·)` converge to those of `sweep net φ H` -/
theorem tendstoH_sweep (net : Net) (φ : ℝ) {Hn : ι → HMap ℝ} {H : HMap ℝ} (h : TendstoH F Hn H) :
    TendstoH F (fun n => sweep net φ (Hn n)) (sweep net φ H) :=
  tendstoH_foldl_calcH net φ net.edges h

theorem tendstoH_sweeps (net : Net) (φ : ℝ) (m : Nat) {Hn : ι → HMap ℝ} {H : HMap ℝ} (h : TendstoH F Hn H) :
    TendstoH F (fun n => sweeps net φ m (Hn n)) (sweeps net φ m H) := by
  induction m generalizing Hn H with
  | zero => exact h
  | succ m ih => exact ih (tendstoH_sweep net φ h)

/-- the reported sum is continuous in the entries -/
theorem tendsto_outerSum (net : Net) {Hn : ι → HMap ℝ} {H : HMap ℝ} (h : TendstoH F Hn H) :
    Tendsto (fun n => outerSum net (Hn n)) F (nhds (outerSum net H)) := by
  unfold outerSum
  exact tendsto_foldl_add net.nodes (fun n i => prodOver net (Hn n) i (neighbours net i) [] 1)
    (fun i => prodOver net H i (neighbours net i) [] 1)
    (fun i _ => tendsto_prodOver net h i _ [] tendsto_const_nhds) tendsto_const_nhds

end real

/-! ### 4. transport along a ring homomorphism (`ℚ → ℝ`): the real run is the image of the rational run -/

section hom
variable {R S : Type} [Ring R] [Ring S] (f : R →+* S)

/-- entry-wise image of a table -/
def mapH (H : HMap R) : HMap S := H.map fun p => (p.1, f p.2)

theorem keys_mapH (H : HMap R) : Dict.keys (mapH f H) = Dict.keys H := by
  simp [mapH, Dict.keys, Function.comp_def]

theorem get_mapH (H : HMap R) (k : Nat × Nat) : Dict.get (mapH f H) k = (Dict.get H k).map f := by
  induction H with
  | nil => rfl
  | cons x xs ih =>
    obtain ⟨a, w⟩ := x
    by_cases ha : a = k
    · subst ha; simp [mapH, Dict.get]
    · have := ih
      simp only [mapH] at this
      simp [mapH, Dict.get, ha, this]

theorem readH_mapH (H : HMap R) (k : Nat × Nat) : readH (mapH f H) k = f (readH H k) := by
  unfold readH
  rw [get_mapH]
  cases Dict.get H k with
  | none => simp
  | some v => rfl

theorem set_mapH (H : HMap R) (k : Nat × Nat) (v : R) : Dict.set (mapH f H) k (f v) = mapH f (Dict.set H k v) := by
  induction H with
  | nil => rfl
  | cons x xs ih =>
    obtain ⟨a, w⟩ := x
    by_cases ha : a = k
    · simp [mapH, Dict.set, ha]
    · have := ih
      simp only [mapH] at this
      simp [mapH, Dict.set, ha, this]

theorem prodOver_mapH (net : Net) (H : HMap R) (j : Nat) (ls done : List Nat) (acc : R) :
    prodOver net (mapH f H) j ls done (f acc) = f (prodOver net H j ls done acc) := by
  induction ls generalizing done acc with
  | nil => rw [prodOver_nil_gen, prodOver_nil_gen]
  | cons l ls ih =>
    cases hlab : labelOf net j l with
    | none =>
      rw [prodOver_cons_none_gen ls done _ hlab, prodOver_cons_none_gen ls done _ hlab]
      exact ih done acc
    | some lab =>
      by_cases hd : lab.id ∈ done
      · rw [prodOver_cons_done_gen ls _ hlab hd, prodOver_cons_done_gen ls _ hlab hd]
        exact ih done acc
      · rw [prodOver_cons_new_gen ls _ hlab hd, prodOver_cons_new_gen ls _ hlab hd, readH_mapH, ← map_mul]
        exact ih _ _

theorem prodOver_mapH_one (net : Net) (H : HMap R) (j : Nat) (ls : List Nat) :
    prodOver net (mapH f H) j ls [] 1 = f (prodOver net H j ls [] 1) := by
  have := prodOver_mapH f net H j ls [] 1
  rwa [map_one] at this

theorem powN_map (x : R) (n : Nat) : powN (f x) n = f (powN x n) := by
  induction n with
  | zero => simp [powN]
  | succ n ih => simp [powN, ih]

theorem foldl_mul_map {α : Type} (l : List α) (g : α → R) (a : R) :
    l.foldl (fun acc x => acc * f (g x)) (f a) = f (l.foldl (fun acc x => acc * g x) a) := by
  induction l generalizing a with
  | nil => rfl
  | cons x xs ih =>
    simp only [List.foldl_cons, ← map_mul]
    exact ih _

theorem foldl_add_map {α : Type} (l : List α) (g : α → R) (a : R) :
    l.foldl (fun acc x => acc + f (g x)) (f a) = f (l.foldl (fun acc x => acc + g x) a) := by
  induction l generalizing a with
  | nil => rfl
  | cons x xs ih =>
    simp only [List.foldl_cons, ← map_add]
    exact ih _

theorem us_map (g : Motif) (u : Nat → R) (root : Nat) : us g (fun v => f (u v)) root = f (us g u root) := by
  unfold us
  have := foldl_mul_map f (g.nodes.filter (· ≠ root)) u 1
  rwa [map_one] at this

theorem componentTerm_map (G : Motif) (p : R) (u : Nat → R) (root : Nat) (c combos : List Nat) :
    componentTerm G (f p) (fun v => f (u v)) root c combos = f (componentTerm G p u root c combos) := by
  have h1 : (1 : S) - f p = f (1 - p) := by rw [map_sub, map_one]
  by_cases hc : c.length = 1
  · simp only [componentTerm, hc, if_true, h1, powN_map]
  · simp only [componentTerm, hc, if_false, h1, powN_map, us_map, ← map_mul]
    have := foldl_add_map f combos
      (fun n => powN p ((inner G c).edges.length - n) * powN (1 - p) n * powN (1 - p) (interfaceCount G c)
        * us (inner G c) u root) 0
    rwa [map_zero] at this

theorem automatedEquation_map (G : Motif) (p : R) (u : Nat → R) (root : Nat) :
    automatedEquation G (f p) (fun v => f (u v)) root = f (automatedEquation G p u root) := by
  unfold automatedEquation
  simp only [componentTerm_map]
  have := foldl_add_map f (connectedSubgraphs G root)
    (fun c => componentTerm G p u root c (if c.length = 1 then [] else edgeCombinations (inner G c))) 0
  rwa [map_zero] at this

theorem newMessage_mapH (net : Net) (φ : R) (H : HMap R) (focal : Nat) (lab : Label) :
    newMessage net (f φ) (mapH f H) focal lab = f (newMessage net φ H focal lab) := by
  simp only [newMessage, prodOver_mapH_one]
  exact automatedEquation_map f _ φ _ focal

theorem calcH_mapH (net : Net) (φ : R) (H : HMap R) (focal : Nat) (lab : Label) :
    calcH net (f φ) (mapH f H) focal lab = mapH f (calcH net φ H focal lab) := by
  unfold calcH
  rw [newMessage_mapH, set_mapH]

theorem sweep_mapH (net : Net) (φ : R) (H : HMap R) :
    sweep net (f φ) (mapH f H) = mapH f (sweep net φ H) := by
  unfold sweep
  generalize net.edges = l
  induction l generalizing H with
  | nil => rfl
  | cons x xs ih =>
    simp only [List.foldl_cons, calcH_mapH]
    exact ih _

theorem sweeps_mapH (net : Net) (φ : R) (n : Nat) (H : HMap R) :
    sweeps net (f φ) n (mapH f H) = mapH f (sweeps net φ n H) := by
  induction n generalizing H with
  | zero => rfl
  | succ n ih =>
    show sweeps net (f φ) n (sweep net (f φ) (mapH f H)) = mapH f (sweeps net φ n (sweep net φ H))
    rw [sweep_mapH]
    exact ih _

theorem initH_mapH (net : Net) (half : R) : initH net (f half) = mapH f (initH net half) := by
  unfold initH
  have inner : ∀ (id : Nat) (vs : List Nat) (H : HMap R),
      vs.foldl (fun H k => Dict.set H (k, id) (f half)) (mapH f H)
        = mapH f (vs.foldl (fun H k => Dict.set H (k, id) half) H) := by
    intro id vs
    induction vs with
    | nil => intro H; rfl
    | cons x xs ih =>
      intro H
      simp only [List.foldl_cons, set_mapH]
      exact ih _
  have outer : ∀ (l : List (Nat × Nat × Label)) (H : HMap R),
      l.foldl (fun H e => e.2.2.verts.foldl (fun H k => Dict.set H (k, e.2.2.id) (f half)) H) (mapH f H)
        = mapH f (l.foldl (fun H e => e.2.2.verts.foldl (fun H k => Dict.set H (k, e.2.2.id) half) H) H) := by
    intro l
    induction l with
    | nil => intro H; rfl
    | cons x xs ih =>
      intro H
      simp only [List.foldl_cons, inner]
      exact ih _
  exact outer net.edges []

theorem outerSum_mapH (net : Net) (H : HMap R) : outerSum net (mapH f H) = f (outerSum net H) := by
  unfold outerSum
  simp only [prodOver_mapH_one]
  have := foldl_add_map f net.nodes (fun i => prodOver net H i (neighbours net i) [] 1) 0
  rwa [map_zero] at this

end hom

end Gcmpy.MessagePassing
