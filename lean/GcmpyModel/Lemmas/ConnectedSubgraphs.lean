import Mathlib.Data.Finset.Basic
import Mathlib.Data.Finset.Card
import Mathlib.Data.List.Nodup
import Mathlib.Data.List.Perm.Basic
import Mathlib.Logic.Relation
import Mathlib.Tactic.Tauto
import GcmpyModel.Model.Automated
import GcmpyModel.Lemmas.Reach
/-
Specification of the structural part of `Model/Automated.lean`:

* `connectedSubgraphs G root` (the backtracking enumeration `_get_connected_subgraphs`) lists exactly the
  connected vertex sets of `G` that contain `root`, each exactly once (`connectedSubgraphs_spec`);
  fuel `|V|` suffices and the size cut-off `len(subgraph) == max_size` never changes the result
  (`go_cutoff_irrelevant`);
* `combinations`/`sublists` (`combinations_perm_sublists`, `mem_sublists_iff`, `sublists_nodup_of_nodup`);
* `edgeCombinations` (`edgeCombinations_spec`);
* `inner` (`inner_spec`).
-/
namespace Gcmpy.Automated
open Gcmpy Gcmpy.Graph

/-- `v` is connected to `root` using only vertices of `S` -/
def ConnIn (es : List Edge) (S : Finset Nat) (root v : Nat) : Prop :=
  Relation.ReflTransGen (fun a b => Adj es a b ∧ a ∈ S ∧ b ∈ S) root v

/-- `S` is a connected vertex set of the motif containing the root -/
def IsConnSet (G : Motif) (root : Nat) (S : Finset Nat) : Prop :=
  root ∈ S ∧ (∀ v ∈ S, v ∈ G.nodes) ∧ ∀ v ∈ S, ConnIn G.edges S root v

theorem ConnIn.mono {es : List Edge} {T T' : Finset Nat} (h : T ⊆ T') {root v : Nat}
    (hc : ConnIn es T root v) : ConnIn es T' root v := by
  induction hc with
  | refl => exact Relation.ReflTransGen.refl
  | tail _ hab ih => exact ih.tail ⟨hab.1, h hab.2.1, h hab.2.2⟩

theorem ConnIn.reach {es : List Edge} {T : Finset Nat} {root v : Nat} (hc : ConnIn es T root v) :
    Reach es root v := by
  induction hc with
  | refl => exact Reach.refl _ _
  | tail _ hab ih => exact ih.tail hab.1

/-! ### the enumeration invariant (ported from the probe `go_spec`) -/

/-- `T` is a connected vertex set extending `sub` that avoids `excl` outside `sub` -/
def Good (es : List Edge) (root : Nat) (sub excl : List Nat) (T : Finset Nat) : Prop :=
  (∀ x ∈ sub, x ∈ T) ∧ (∀ x ∈ T, x ∉ sub → x ∉ excl) ∧ ∀ v ∈ T, ConnIn es T root v

/-- what the candidate loop must produce -/
def Branch (es : List Edge) (root : Nat) (sub : List Nat) : List Nat → List Nat → Finset Nat → Prop
  | _, [], _ => False
  | excl, j :: cs, T => Good es root (j :: sub) (j :: excl) T ∨ Branch es root sub (j :: excl) cs T

/-- a connected proper extension of `sub` contains a vertex adjacent to `sub` -/
theorem exists_frontier (es : List Edge) (root : Nat) (sub excl : List Nat) (T : Finset Nat)
    (hroot : root ∈ sub) (hG : Good es root sub excl T) (hne : T ≠ sub.toFinset) :
    ∃ j ∈ T, j ∉ sub ∧ ∃ a ∈ sub, Adj es a j := by
  obtain ⟨hsub, _, hconn⟩ := hG
  have : ∃ v ∈ T, v ∉ sub := by
    by_contra hcon
    apply hne
    ext x; simp only [List.mem_toFinset]
    refine ⟨fun hx => ?_, hsub x⟩
    by_contra hxs
    exact hcon ⟨x, hx, hxs⟩
  obtain ⟨v, hvT, hvs⟩ := this
  have key : ∀ w, ConnIn es T root w → w ∈ sub ∨ ∃ j ∈ T, j ∉ sub ∧ ∃ a ∈ sub, Adj es a j := by
    intro w hw
    induction hw with
    | refl => exact Or.inl hroot
    | @tail b c _ hbc ih =>
      rcases ih with hb | hex
      · by_cases hc : c ∈ sub
        · exact Or.inl hc
        · exact Or.inr ⟨c, hbc.2.2, hc, b, hb, hbc.1⟩
      · exact Or.inr hex
  rcases key v (hconn v hvT) with h | h
  · exact absurd h hvs
  · exact h

theorem branch_sound (es : List Edge) (root : Nat) (sub : List Nat) :
    ∀ (cs excl : List Nat) (T : Finset Nat), (∀ c ∈ cs, c ∉ excl) → cs.Nodup → (∀ x ∈ sub, x ∈ excl) →
      Branch es root sub excl cs T → Good es root sub excl T ∧ T ≠ sub.toFinset := by
  intro cs
  induction cs with
  | nil => intro excl T _ _ _ h; exact absurd h (by simp [Branch])
  | cons j cs ih =>
    intro excl T hc hnd hse h
    have hj : j ∉ excl := hc j (List.mem_cons_self)
    have hjs : j ∉ sub := fun h' => hj (hse j h')
    rcases h with h | h
    · obtain ⟨h1, h2, h3⟩ := h
      refine ⟨⟨fun x hx => h1 x (List.mem_cons_of_mem _ hx), ?_, h3⟩, ?_⟩
      · intro x hxT hxs
        by_cases hxj : x = j
        · subst hxj; exact hj
        · have := h2 x hxT (by simp [hxj, hxs])
          exact fun hx => this (List.mem_cons_of_mem _ hx)
      · intro heq
        have : j ∈ T := h1 j (List.mem_cons_self)
        rw [heq, List.mem_toFinset] at this
        exact hjs this
    · have hnd' := List.nodup_cons.1 hnd
      obtain ⟨⟨h1, h2, h3⟩, hne⟩ := ih (j :: excl) T
        (by
          intro c hc' hmem
          rcases List.mem_cons.1 hmem with rfl | hmem
          · exact hnd'.1 hc'
          · exact hc c (List.mem_cons_of_mem _ hc') hmem)
        hnd'.2 (fun x hx => List.mem_cons_of_mem _ (hse x hx)) h
      exact ⟨⟨h1, fun x hxT hxs hx => h2 x hxT hxs (List.mem_cons_of_mem _ hx), h3⟩, hne⟩

theorem branch_complete (es : List Edge) (root : Nat) (sub : List Nat) (hroot : root ∈ sub) :
    ∀ (cs excl : List Nat) (T : Finset Nat),
      (∀ x, (∃ a ∈ sub, Adj es a x) → x ∉ excl → x ∈ cs) →
      Good es root sub excl T → T ≠ sub.toFinset → Branch es root sub excl cs T := by
  intro cs
  induction cs with
  | nil =>
    intro excl T hcov hG hne
    obtain ⟨j, hjT, hjs, a, ha, hja⟩ := exists_frontier es root sub excl T hroot hG hne
    exact absurd (hcov j ⟨a, ha, hja⟩ (hG.2.1 j hjT hjs)) (by simp)
  | cons j cs ih =>
    intro excl T hcov hG hne
    obtain ⟨h1, h2, h3⟩ := hG
    by_cases hjT : j ∈ T
    · left
      refine ⟨?_, ?_, h3⟩
      · intro x hx; rcases List.mem_cons.1 hx with rfl | hx
        · exact hjT
        · exact h1 x hx
      · intro x hxT hxs hx
        simp only [List.mem_cons, not_or] at hxs
        rcases List.mem_cons.1 hx with rfl | hx
        · exact hxs.1 rfl
        · exact h2 x hxT hxs.2 hx
    · right
      apply ih (j :: excl) T
      · intro x hx hxe
        simp only [List.mem_cons, not_or] at hxe
        rcases List.mem_cons.1 (hcov x hx hxe.2) with rfl | h
        · exact absurd rfl hxe.1
        · exact h
      · refine ⟨h1, ?_, h3⟩
        intro x hxT hxs hx
        rcases List.mem_cons.1 hx with rfl | hx
        · exact hjT hxT
        · exact h2 x hxT hxs hx
      · exact hne

theorem branch_exclusive (es : List Edge) (root : Nat) (sub cs excl : List Nat) (j : Nat) (T : Finset Nat)
    (hc : ∀ c ∈ cs, c ∉ j :: excl) (hnd : cs.Nodup) (hse : ∀ x ∈ sub, x ∈ excl) (hjs : j ∉ sub)
    (h1 : Good es root (j :: sub) (j :: excl) T) (h2 : Branch es root sub (j :: excl) cs T) : False := by
  have := (branch_sound es root sub cs (j :: excl) T hc hnd
    (fun x hx => List.mem_cons_of_mem _ (hse x hx)) h2).1
  exact this.2.1 j (h1.1 j (List.mem_cons_self)) hjs (List.mem_cons_self)

/-- output `out` lists exactly the family `P`, each member once (as vertex sets) -/
def Lists (out : List (List Nat)) (P : Finset Nat → Prop) : Prop :=
  (∀ T, P T ↔ ∃ l ∈ out, l.toFinset = T) ∧ (out.map List.toFinset).Nodup

theorem Lists.append {o₁ o₂ : List (List Nat)} {P₁ P₂ : Finset Nat → Prop}
    (h₁ : Lists o₁ P₁) (h₂ : Lists o₂ P₂) (hd : ∀ T, P₁ T → P₂ T → False) :
    Lists (o₁ ++ o₂) (fun T => P₁ T ∨ P₂ T) := by
  refine ⟨fun T => ?_, ?_⟩
  · show (P₁ T ∨ P₂ T) ↔ _
    rw [h₁.1 T, h₂.1 T]
    constructor
    · rintro (⟨l, hl, rfl⟩ | ⟨l, hl, rfl⟩)
      · exact ⟨l, List.mem_append_left _ hl, rfl⟩
      · exact ⟨l, List.mem_append_right _ hl, rfl⟩
    · rintro ⟨l, hl, rfl⟩
      rcases List.mem_append.1 hl with h | h
      · exact Or.inl ⟨l, h, rfl⟩
      · exact Or.inr ⟨l, h, rfl⟩
  · rw [List.map_append]
    refine List.Nodup.append h₁.2 h₂.2 ?_
    intro T hT₁ hT₂
    rcases List.mem_map.1 hT₁ with ⟨l₁, hl₁, rfl⟩
    rcases List.mem_map.1 hT₂ with ⟨l₂, hl₂, he⟩
    exact hd _ ((h₁.1 _).2 ⟨l₁, hl₁, rfl⟩) ((h₂.1 _).2 ⟨l₂, hl₂, he⟩)

/-- number of vertices of the universe not yet excluded -/
def avail (univ excl : List Nat) : Nat := (univ.filter (fun x => x ∉ excl)).length

theorem avail_cons_lt (univ excl : List Nat) (j : Nat) (hj : j ∈ univ) (hje : j ∉ excl) :
    avail univ (j :: excl) < avail univ excl := by
  unfold avail
  induction univ with
  | nil => cases hj
  | cons a t ih =>
    by_cases haj : a = j
    · subst haj
      have h1 : (List.filter (fun x => decide (x ∉ a :: excl)) (a :: t)).length
          = (List.filter (fun x => decide (x ∉ a :: excl)) t).length := by
        simp
      have h2 : (List.filter (fun x => decide (x ∉ excl)) (a :: t)).length
          = (List.filter (fun x => decide (x ∉ excl)) t).length + 1 := by
        simp [hje]
      have h3 : (List.filter (fun x => decide (x ∉ a :: excl)) t).length
          ≤ (List.filter (fun x => decide (x ∉ excl)) t).length := by
        apply List.Sublist.length_le
        apply List.monotone_filter_right
        intro x hx
        simp only [List.mem_cons, not_or, decide_eq_true_eq] at hx ⊢
        exact hx.2
      omega
    · have hjt : j ∈ t := by
        rcases List.mem_cons.1 hj with h | h
        · exact absurd h.symm haj
        · exact h
      have := ih hjt
      by_cases hae : a ∈ excl
      · simp only [List.filter_cons, List.mem_cons, haj, hae, or_true, not_true_eq_false,
          decide_false] at this ⊢
        simpa using this
      · simp only [List.filter_cons, List.mem_cons, haj, hae, or_self, not_false_eq_true,
          decide_true] at this ⊢
        simpa using this

theorem avail_eq_zero {univ excl : List Nat} (h : avail univ excl = 0) : ∀ x ∈ univ, x ∈ excl := by
  intro x hx
  by_contra hxe
  have : x ∈ univ.filter (fun x => x ∉ excl) := by simp [hx, hxe]
  have := List.length_pos_of_mem this
  unfold avail at h; omega

/-- state invariant of `_get_connected_subgraphs` -/
structure Inv (es : List Edge) (root : Nat) (univ sub possible excl : List Nat) : Prop where
  root_mem : root ∈ sub
  sub_excl : ∀ x ∈ sub, x ∈ excl
  sub_nodup : sub.Nodup
  sub_univ : ∀ x ∈ sub, x ∈ univ
  conn : ∀ v ∈ sub, ConnIn es sub.toFinset root v
  poss : ∀ x, x ∉ excl → (x ∈ possible ↔ ∃ a ∈ sub, Adj es a x)
  closed : ∀ a x, Adj es a x → x ∈ univ

theorem good_self (es : List Edge) (root : Nat) (univ sub possible excl : List Nat)
    (h : Inv es root univ sub possible excl) : Good es root sub excl sub.toFinset :=
  ⟨fun _ hx => List.mem_toFinset.2 hx, fun _ hx hxs => absurd (List.mem_toFinset.1 hx) hxs,
   fun v hv => h.conn v (List.mem_toFinset.1 hv)⟩

theorem inv_step (es : List Edge) (root : Nat) (univ sub possible excl excl' : List Nat) (j : Nat)
    (h : Inv es root univ sub possible excl) (hee : ∀ x ∈ excl, x ∈ excl') (hje : j ∉ excl')
    (hadj : ∃ a ∈ sub, Adj es a j) :
    Inv es root univ (j :: sub)
      ((possible ++ nbrs es j).filter (fun x => x ∉ j :: excl')) (j :: excl') := by
  have hjs : j ∉ sub := fun hj => hje (hee j (h.sub_excl j hj))
  refine ⟨List.mem_cons_of_mem _ h.root_mem, ?_, List.nodup_cons.2 ⟨hjs, h.sub_nodup⟩, ?_, ?_, ?_,
    h.closed⟩
  · intro x hx
    rcases List.mem_cons.1 hx with rfl | hx
    · exact List.mem_cons_self
    · exact List.mem_cons_of_mem _ (hee x (h.sub_excl x hx))
  · intro x hx
    rcases List.mem_cons.1 hx with rfl | hx
    · obtain ⟨a, _, haj⟩ := hadj
      exact h.closed a _ haj
    · exact h.sub_univ x hx
  · have hsubset : sub.toFinset ⊆ (j :: sub).toFinset := by
      intro x hx; simp only [List.mem_toFinset, List.mem_cons] at hx ⊢; exact Or.inr hx
    intro v hv
    rcases List.mem_cons.1 hv with rfl | hv
    · obtain ⟨a, ha, hja⟩ := hadj
      refine ((h.conn a ha).mono hsubset).tail ⟨hja, ?_, ?_⟩
      · simp [ha]
      · simp
    · exact (h.conn v hv).mono hsubset
  · intro x hx
    simp only [List.mem_cons, not_or] at hx
    have hxe : x ∉ excl := fun hx' => hx.2 (hee x hx')
    simp only [List.mem_filter, List.mem_append, List.mem_cons, not_or, decide_eq_true_eq, mem_nbrs]
    rw [h.poss x hxe]
    constructor
    · rintro ⟨h1 | h1, _⟩
      · obtain ⟨a, ha, hxa⟩ := h1; exact ⟨a, Or.inr ha, hxa⟩
      · exact ⟨j, Or.inl rfl, h1⟩
    · rintro ⟨a, ha | ha, hxa⟩
      · subst ha; exact ⟨Or.inr hxa, hx⟩
      · exact ⟨Or.inl ⟨a, ha, hxa⟩, hx⟩

/-- when every vertex is excluded the only admissible set is `sub` itself -/
theorem lists_full (es : List Edge) (root : Nat) (univ sub possible excl : List Nat)
    (hI : Inv es root univ sub possible excl) (hall : ∀ x ∈ univ, x ∈ excl) :
    Lists [sub] (Good es root sub excl) := by
  refine ⟨fun T => ?_, by simp⟩
  simp only [List.mem_singleton, exists_eq_left]
  constructor
  · intro hG
    by_contra hne
    obtain ⟨j, hjT, hjs, a, _, hja⟩ :=
      exists_frontier es root sub excl T hI.root_mem hG (fun h => hne h.symm)
    exact hG.2.1 j hjT hjs (hall j (hI.closed a j hja))
  · rintro rfl; exact good_self es root univ sub possible excl hI

/-- a duplicate-free `sub ⊆ univ` of full size covers `univ` -/
theorem Inv.full {es : List Edge} {root : Nat} {univ sub possible excl : List Nat}
    (hI : Inv es root univ sub possible excl) (hlen : univ.length ≤ sub.length) :
    ∀ x ∈ univ, x ∈ excl := by
  have hsp : sub.Subperm univ := List.subperm_of_subset hI.sub_nodup (fun x hx => hI.sub_univ x hx)
  have hp : sub.Perm univ := hsp.perm_of_length_le hlen
  intro x hx
  exact hI.sub_excl x (hp.mem_iff.2 hx)

theorem loop_spec (es : List Edge) (root : Nat) (univ sub possible excl : List Nat) (M f : Nat)
    (hI : Inv es root univ sub possible excl)
    (ih : ∀ sub' possible' excl', Inv es root univ sub' possible' excl' → avail univ excl' ≤ f →
      Lists (go (nbrs es) M f sub' possible' excl') (Good es root sub' excl')) :
    ∀ (cs excl' : List Nat), cs.Nodup → (∀ c ∈ cs, c ∉ excl') → (∀ c ∈ cs, ∃ a ∈ sub, Adj es a c) →
      (∀ x ∈ excl, x ∈ excl') → avail univ excl' ≤ f + 1 →
      Lists (loopWith (go (nbrs es) M f) (nbrs es) sub possible cs excl') (Branch es root sub excl' cs) := by
  intro cs
  induction cs with
  | nil => intro excl' _ _ _ _ _; exact ⟨fun T => by simp [Branch, loopWith], by simp [loopWith]⟩
  | cons j cs ihc =>
    intro excl' hnd hce hadj hee hav
    have hnd' := List.nodup_cons.1 hnd
    have hj : j ∉ excl' := hce j List.mem_cons_self
    obtain ⟨a, ha, hja⟩ := hadj j List.mem_cons_self
    have hju : j ∈ univ := hI.closed a j hja
    have hlt := avail_cons_lt univ excl' j hju hj
    have hI' := inv_step es root univ sub possible excl excl' j hI hee hj ⟨a, ha, hja⟩
    have h₁ := ih _ _ _ hI' (by omega)
    have hce' : ∀ c ∈ cs, c ∉ j :: excl' := by
      intro c hc hmem
      rcases List.mem_cons.1 hmem with rfl | hmem
      · exact hnd'.1 hc
      · exact hce c (List.mem_cons_of_mem _ hc) hmem
    have h₂ := ihc (j :: excl') hnd'.2 hce'
      (fun c hc => hadj c (List.mem_cons_of_mem _ hc))
      (fun x hx => List.mem_cons_of_mem _ (hee x hx)) (by omega)
    have hse : ∀ x ∈ sub, x ∈ excl' := fun x hx => hee x (hI.sub_excl x hx)
    have hjs : j ∉ sub := fun h => hj (hse j h)
    exact Lists.append h₁ h₂ (fun T h1 h2 =>
      branch_exclusive es root sub cs excl' j T hce' hnd'.2 hse hjs h1 h2)

/-- **Specification of the backtracking enumeration** (with the size cut-off `M ≥ |univ|`): the call lists
exactly the connected vertex sets that extend `sub` and avoid `excl` outside it, each exactly once, for any
fuel `≥` the number of non-excluded vertices. -/
theorem go_spec (es : List Edge) (root : Nat) (univ : List Nat) (M : Nat) (hM : univ.length ≤ M) :
    ∀ (f : Nat) (sub possible excl : List Nat), Inv es root univ sub possible excl →
      avail univ excl ≤ f → Lists (go (nbrs es) M f sub possible excl) (Good es root sub excl) := by
  intro f
  induction f with
  | zero =>
    intro sub possible excl hI hav
    exact lists_full es root univ sub possible excl hI (avail_eq_zero (by omega))
  | succ f ih =>
    intro sub possible excl hI hav
    by_cases hcut : sub.length = M
    · rw [show go (nbrs es) M (f+1) sub possible excl = [sub] by simp [go, hcut]]
      exact lists_full es root univ sub possible excl hI (hI.full (by omega))
    let cs := dedup (possible.filter (fun x => x ∉ excl))
    have hcs : ∀ c, c ∈ cs ↔ c ∈ possible ∧ c ∉ excl := by
      intro c; simp [cs, mem_dedup, List.mem_filter]
    have hloop := loop_spec es root univ sub possible excl M f hI ih cs excl (nodup_dedup _)
      (fun c hc => ((hcs c).1 hc).2)
      (fun c hc => (hI.poss c ((hcs c).1 hc).2).1 ((hcs c).1 hc).1)
      (fun x hx => hx) hav
    have hsingle : Lists [sub] (fun T => T = sub.toFinset) :=
      ⟨fun T => by simp [eq_comm], by simp⟩
    have := Lists.append hsingle hloop (fun T h1 h2 => by
      have := (branch_sound es root sub cs excl T (fun c hc => ((hcs c).1 hc).2)
        (nodup_dedup _) hI.sub_excl h2).2
      exact this h1)
    refine ⟨fun T => ?_, ?_⟩
    · have h3 := this.1 T
      simp only [List.singleton_append] at h3
      rw [show go (nbrs es) M (f+1) sub possible excl
          = sub :: loopWith (go (nbrs es) M f) (nbrs es) sub possible cs excl by simp [go, hcut, cs], ← h3]
      constructor
      · intro hG
        by_cases hT : T = sub.toFinset
        · exact Or.inl hT
        · exact Or.inr (branch_complete es root sub hI.root_mem cs excl T
            (fun x hx hxe => (hcs x).2 ⟨(hI.poss x hxe).2 hx, hxe⟩) hG hT)
      · rintro (rfl | hB)
        · exact good_self es root univ sub possible excl hI
        · exact (branch_sound es root sub cs excl T (fun c hc => ((hcs c).1 hc).2)
            (nodup_dedup _) hI.sub_excl hB).1
    · rw [show go (nbrs es) M (f+1) sub possible excl
          = sub :: loopWith (go (nbrs es) M f) (nbrs es) sub possible cs excl by simp [go, hcut, cs]]
      exact this.2

/-! ### every listed vertex list is duplicate free -/

theorem go_nodup (adj : Nat → List Nat) (M : Nat) :
    ∀ (f : Nat) (sub possible excl : List Nat), sub.Nodup → (∀ x ∈ sub, x ∈ excl) →
      ∀ c ∈ go adj M f sub possible excl, c.Nodup := by
  intro f
  induction f with
  | zero =>
    intro sub possible excl hnd _ c hc
    simp only [go, List.mem_singleton] at hc
    subst hc; exact hnd
  | succ f ih =>
    intro sub possible excl hnd hse c hc
    have hloop : ∀ (cs excl' : List Nat), (∀ c ∈ cs, c ∉ sub) → (∀ x ∈ sub, x ∈ excl') →
        ∀ c ∈ loopWith (go adj M f) adj sub possible cs excl', c.Nodup := by
      intro cs
      induction cs with
      | nil => intro _ _ _ c hc; simp [loopWith] at hc
      | cons j cs ihc =>
        intro excl' hcs hse' c hc
        simp only [loopWith, List.mem_append] at hc
        rcases hc with hc | hc
        · refine ih _ _ _ (List.nodup_cons.2 ⟨hcs j List.mem_cons_self, hnd⟩) ?_ c hc
          intro x hx
          rcases List.mem_cons.1 hx with rfl | hx
          · exact List.mem_cons_self
          · exact List.mem_cons_of_mem _ (hse' x hx)
        · exact ihc (j :: excl') (fun c hc => hcs c (List.mem_cons_of_mem _ hc))
            (fun x hx => List.mem_cons_of_mem _ (hse' x hx)) c hc
    simp only [go] at hc
    split at hc
    · rw [List.mem_singleton.1 hc]; exact hnd
    · rcases List.mem_cons.1 hc with rfl | hc
      · exact hnd
      · refine hloop _ excl ?_ hse c hc
        intro c hc hcs
        simp only [mem_dedup, List.mem_filter, decide_eq_true_eq] at hc
        exact hc.2 (hse c hcs)

/-! ### the top-level call -/

theorem inv_init (G : Motif) (root : Nat) (h : WFGraph G.edges G.nodes) (hr : root ∈ G.nodes) :
    Inv G.edges root G.nodes [root] (dedup (nbrs G.edges root)) [root] := by
  refine ⟨List.mem_singleton.2 rfl, fun _ hx => hx, List.nodup_singleton _, ?_, ?_, ?_, ?_⟩
  · intro x hx; rw [List.mem_singleton.1 hx]; exact hr
  · intro v hv; rw [List.mem_singleton.1 hv]; exact Relation.ReflTransGen.refl
  · intro x _
    simp only [mem_dedup, mem_nbrs, List.mem_singleton, exists_eq_left]
  · intro a x hax; exact (hax.mem_nodes h).2

theorem good_root_iff (G : Motif) (root : Nat) (h : WFGraph G.edges G.nodes) (hr : root ∈ G.nodes)
    (S : Finset Nat) : Good G.edges root [root] [root] S ↔ IsConnSet G root S := by
  constructor
  · rintro ⟨h1, _, h3⟩
    exact ⟨h1 root (List.mem_singleton.2 rfl), fun v hv => (h3 v hv).reach.mem_nodes h hr, h3⟩
  · rintro ⟨h1, _, h3⟩
    refine ⟨fun x hx => ?_, fun x _ hx => hx, h3⟩
    rw [List.mem_singleton.1 hx]; exact h1

theorem avail_le (univ excl : List Nat) : avail univ excl ≤ univ.length := List.length_filter_le _ _

/-- **`get_connected_subgraphs(G, root)`** lists duplicate-free vertex lists (i), never lists a vertex set
twice (ii), and lists exactly the connected vertex sets of `G` that contain `root` (iii).  In particular
fuel `|V|` suffices and the size cut-off is harmless. -/
theorem connectedSubgraphs_spec (G : Motif) (root : Nat) (h : WFGraph G.edges G.nodes)
    (hr : root ∈ G.nodes) :
    (∀ c ∈ connectedSubgraphs G root, c.Nodup) ∧
    ((connectedSubgraphs G root).map List.toFinset).Nodup ∧
    (∀ S, S ∈ (connectedSubgraphs G root).map List.toFinset ↔ IsConnSet G root S) := by
  have hL := go_spec G.edges root G.nodes G.nodes.length (Nat.le_refl _) G.nodes.length [root]
    (dedup (nbrs G.edges root)) [root] (inv_init G root h hr) (avail_le _ _)
  refine ⟨?_, hL.2, fun S => ?_⟩
  · exact go_nodup (nbrs G.edges) G.nodes.length G.nodes.length [root] _ [root]
      (List.nodup_singleton _) (fun _ hx => hx)
  · rw [← good_root_iff G root h hr S, hL.1 S, List.mem_map]
    rfl

/-- every listed component contains the root and consists of vertices of `G` -/
theorem mem_connectedSubgraphs {G : Motif} {root : Nat} (h : WFGraph G.edges G.nodes)
    (hr : root ∈ G.nodes) {c : List Nat} (hc : c ∈ connectedSubgraphs G root) :
    c.Nodup ∧ IsConnSet G root c.toFinset :=
  ⟨(connectedSubgraphs_spec G root h hr).1 c hc,
   ((connectedSubgraphs_spec G root h hr).2.2 _).1 (List.mem_map.2 ⟨c, hc, rfl⟩)⟩

/-! ### the size cut-off is redundant -/

/-- `_get_connected_subgraphs` without the `len(subgraph) == max_size` test -/
def goNoCut (adj : Nat → List Nat) : Nat → List Nat → List Nat → List Nat → List (List Nat)
  | 0, sub, _, _ => [sub]
  | f+1, sub, possible, excluded =>
    sub :: loopWith (goNoCut adj f) adj sub possible
            (dedup (possible.filter (fun x => x ∉ excluded))) excluded

/-- with `max_size ≥ |V|` the cut-off never changes the output list: when `sub` has `max_size` vertices
no candidate is left, because candidates are vertices outside `excluded ⊇ sub = V` -/
theorem go_cutoff_irrelevant (adj : Nat → List Nat) (univ : List Nat) (M : Nat) (hM : univ.length ≤ M)
    (hclosed : ∀ a, ∀ x ∈ adj a, x ∈ univ) :
    ∀ (f : Nat) (sub possible excl : List Nat), sub.Nodup → (∀ x ∈ sub, x ∈ univ) →
      (∀ x ∈ sub, x ∈ excl) → (∀ x ∈ possible, x ∈ univ) →
      go adj M f sub possible excl = goNoCut adj f sub possible excl := by
  intro f
  induction f with
  | zero => intro _ _ _ _ _ _ _; rfl
  | succ f ih =>
    intro sub possible excl hnd hsu hse hpu
    by_cases hcut : sub.length = M
    · have hcov : ∀ x ∈ univ, x ∈ sub := by
        have hsp : sub.Subperm univ := List.subperm_of_subset hnd (fun x hx => hsu x hx)
        have hp : sub.Perm univ := hsp.perm_of_length_le (by omega)
        exact fun x hx => hp.mem_iff.2 hx
      have hnil : possible.filter (fun x => x ∉ excl) = [] := by
        rw [List.filter_eq_nil_iff]
        intro x hx
        simp only [decide_eq_true_eq, not_not]
        exact hse x (hcov x (hpu x hx))
      simp only [go, goNoCut, hcut, if_true, hnil, dedup, loopWith]
    · have hloop : ∀ (cs excl' : List Nat), (∀ c ∈ cs, c ∉ sub) → (∀ c ∈ cs, c ∈ univ) →
          (∀ x ∈ sub, x ∈ excl') →
          loopWith (go adj M f) adj sub possible cs excl'
            = loopWith (goNoCut adj f) adj sub possible cs excl' := by
        intro cs
        induction cs with
        | nil => intro _ _ _ _; rfl
        | cons j cs ihc =>
          intro excl' hcs hcu hse'
          simp only [loopWith]
          rw [ihc (j :: excl') (fun c hc => hcs c (List.mem_cons_of_mem _ hc))
            (fun c hc => hcu c (List.mem_cons_of_mem _ hc))
            (fun x hx => List.mem_cons_of_mem _ (hse' x hx))]
          rw [ih (j :: sub) _ (j :: excl') (List.nodup_cons.2 ⟨hcs j List.mem_cons_self, hnd⟩)]
          · intro x hx
            rcases List.mem_cons.1 hx with rfl | hx
            · exact hcu _ List.mem_cons_self
            · exact hsu x hx
          · intro x hx
            rcases List.mem_cons.1 hx with rfl | hx
            · exact List.mem_cons_self
            · exact List.mem_cons_of_mem _ (hse' x hx)
          · intro x hx
            rcases List.mem_append.1 (List.mem_filter.1 hx).1 with hx | hx
            · exact hpu x hx
            · exact hclosed j x hx
      simp only [go, goNoCut, hcut, if_false]
      rw [hloop _ excl ?_ ?_ hse]
      · intro c hc hcs
        simp only [mem_dedup, List.mem_filter, decide_eq_true_eq] at hc
        exact hc.2 (hse c hcs)
      · intro c hc
        simp only [mem_dedup, List.mem_filter] at hc
        exact hpu c hc.1

theorem connectedSubgraphs_eq_noCut (G : Motif) (root : Nat) (h : WFGraph G.edges G.nodes)
    (hr : root ∈ G.nodes) :
    connectedSubgraphs G root
      = goNoCut (nbrs G.edges) G.nodes.length [root] (dedup (nbrs G.edges root)) [root] := by
  apply go_cutoff_irrelevant (nbrs G.edges) G.nodes G.nodes.length (Nat.le_refl _)
    (fun a x hx => ((mem_nbrs.1 hx).mem_nodes h).2) _ _ _ _ (List.nodup_singleton _)
  · intro x hx; rw [List.mem_singleton.1 hx]; exact hr
  · exact fun _ hx => hx
  · intro x hx
    exact ((mem_nbrs.1 (mem_dedup.1 hx)).mem_nodes h).2

/-! ### `inner`: the subgraph kept for a component -/

theorem inner_edges (G : Motif) (c : List Nat) :
    (inner G c).edges = G.edges.filter (fun e => e.1 ∈ c ∧ e.2 ∈ c) := rfl

theorem adj_inner {G : Motif} {c : List Nat} {a b : Nat} :
    Adj (inner G c).edges a b ↔ Adj G.edges a b ∧ a ∈ c ∧ b ∈ c := by
  unfold Adj
  rw [inner_edges]
  simp only [List.mem_filter, decide_eq_true_eq]
  tauto

theorem mem_inner_nodes {G : Motif} {c : List Nat} {v : Nat} :
    v ∈ (inner G c).nodes ↔ v ∈ G.nodes ∧ ∃ w, Adj G.edges v w ∧ v ∈ c ∧ w ∈ c := by
  have hne : (nbrs (inner G c).edges v).length ≠ 0 ↔ ∃ w, Adj G.edges v w ∧ v ∈ c ∧ w ∈ c := by
    rw [Nat.ne_zero_iff_zero_lt, List.length_pos_iff_exists_mem]
    exact exists_congr fun w => mem_nbrs.trans adj_inner
  show v ∈ G.nodes.filter (fun n => (nbrs (inner G c).edges n).length ≠ 0) ↔ _
  rw [List.mem_filter, decide_eq_true_eq, hne]

/-- the inner subgraph is a well-formed graph (no hypothesis on `c` needed) -/
theorem inner_wf (G : Motif) (c : List Nat) (h : WFGraph G.edges G.nodes) :
    WFGraph (inner G c).edges (inner G c).nodes := by
  refine ⟨h.1.filter _, ?_⟩
  intro e he
  have he' : e ∈ G.edges ∧ e.1 ∈ c ∧ e.2 ∈ c := by
    rw [inner_edges] at he
    simpa only [List.mem_filter, decide_eq_true_eq] using he
  have hG := h.2 e he'.1
  constructor
  · exact mem_inner_nodes.2 ⟨hG.1, e.2, Or.inl he'.1, he'.2.1, he'.2.2⟩
  · exact mem_inner_nodes.2 ⟨hG.2, e.1, Or.inr he'.1, he'.2.2, he'.2.1⟩

/-- in a connected set with at least two vertices every vertex has a neighbour inside the set -/
theorem IsConnSet.exists_adj {G : Motif} {root : Nat} {S : Finset Nat} (hS : IsConnSet G root S)
    (hcard : 2 ≤ S.card) {v : Nat} (hv : v ∈ S) : ∃ w, Adj G.edges v w ∧ w ∈ S := by
  by_cases hvr : v = root
  · subst hvr
    obtain ⟨u, hu, hne⟩ := Finset.exists_mem_ne (by omega : 1 < S.card) v
    rcases Relation.ReflTransGen.cases_head (hS.2.2 u hu) with h | ⟨w, hw, _⟩
    · exact absurd h.symm hne
    · exact ⟨w, hw.1, hw.2.2⟩
  · rcases Relation.ReflTransGen.cases_tail (hS.2.2 v hv) with h | ⟨w, _, hw⟩
    · exact absurd h hvr
    · exact ⟨w, hw.1.symm, hw.2.1⟩

/-- **`inner`**: the kept edges are those with both ends in `c`; the result is a well-formed graph; and for a
connected set `c ∋ root` with at least two vertices its vertex set is exactly `c` (every vertex of `c` keeps an
inner edge, every vertex outside `c` loses all its edges and is dropped). -/
theorem inner_spec (G : Motif) (c : List Nat) (h : WFGraph G.edges G.nodes) :
    (inner G c).edges = G.edges.filter (fun e => e.1 ∈ c ∧ e.2 ∈ c) ∧
    WFGraph (inner G c).edges (inner G c).nodes ∧
    (∀ root, IsConnSet G root c.toFinset → 2 ≤ c.toFinset.card → c ⊆ G.nodes →
      ∀ v, v ∈ (inner G c).nodes ↔ v ∈ c) := by
  refine ⟨rfl, inner_wf G c h, ?_⟩
  intro root hS hcard hsub v
  rw [mem_inner_nodes]
  constructor
  · rintro ⟨_, w, _, hvc, _⟩; exact hvc
  · intro hvc
    obtain ⟨w, hvw, hw⟩ := hS.exists_adj hcard (List.mem_toFinset.2 hvc)
    exact ⟨hsub hvc, w, hvw, hvc, List.mem_toFinset.1 hw⟩

/-- a connected set consists of vertices of `G`, so the hypothesis `c ⊆ G.nodes` of `inner_spec` is automatic -/
theorem IsConnSet.subset_nodes {G : Motif} {root : Nat} {c : List Nat} (hS : IsConnSet G root c.toFinset) :
    c ⊆ G.nodes := fun v hv => hS.2.1 v (List.mem_toFinset.2 hv)

/-! ### `combinations` and `sublists` -/

theorem mem_sublists_iff {α : Type} {s l : List α} : s ∈ sublists l ↔ s.Sublist l := by
  induction l generalizing s with
  | nil => simp [sublists]
  | cons x xs ih =>
    simp only [sublists, List.mem_append, List.mem_map, List.sublist_cons_iff, ih]
    constructor
    · rintro (h | ⟨t, ht, rfl⟩)
      · exact Or.inl h
      · exact Or.inr ⟨t, rfl, ht⟩
    · rintro (h | ⟨t, rfl, ht⟩)
      · exact Or.inl h
      · exact Or.inr ⟨t, ht, rfl⟩

theorem sublists_nodup_of_nodup {α : Type} {l : List α} (h : l.Nodup) : (sublists l).Nodup := by
  induction l with
  | nil => simp [sublists]
  | cons x xs ih =>
    rw [List.nodup_cons] at h
    unfold sublists
    refine List.Nodup.append (ih h.2) ((ih h.2).map (List.cons_injective)) ?_
    intro s hs hs'
    obtain ⟨t, _, rfl⟩ := List.mem_map.1 hs'
    exact h.1 ((mem_sublists_iff.1 hs).subset List.mem_cons_self)

theorem combinations_zero {α : Type} (l : List α) : combinations 0 l = [[]] := by
  cases l <;> rfl

theorem combinations_eq_nil {α : Type} : ∀ (l : List α) (k : Nat), l.length < k → combinations k l = []
  | [], k+1, _ => rfl
  | x :: xs, k+1, h => by
    have h' : xs.length < k := by simpa using h
    simp only [combinations, combinations_eq_nil xs k h', combinations_eq_nil xs (k+1) (by omega),
      List.map_nil, List.append_nil]

theorem mem_combinations_iff {α : Type} {s l : List α} {k : Nat} :
    s ∈ combinations k l ↔ s.Sublist l ∧ s.length = k := by
  induction l generalizing s k with
  | nil =>
    cases k with
    | zero => simp [combinations]
    | succ k =>
      simp only [combinations, List.not_mem_nil, List.sublist_nil, false_iff, not_and]
      rintro rfl; simp
  | cons x xs ih =>
    cases k with
    | zero =>
      simp only [combinations, List.mem_singleton, List.length_eq_zero_iff]
      exact ⟨fun h => ⟨h ▸ List.nil_sublist _, h⟩, fun h => h.2⟩
    | succ k =>
      simp only [combinations, List.mem_append, List.mem_map, ih, List.sublist_cons_iff]
      constructor
      · rintro (⟨t, ⟨ht, hl⟩, rfl⟩ | ⟨h, hl⟩)
        · exact ⟨Or.inr ⟨t, rfl, ht⟩, by simp [hl]⟩
        · exact ⟨Or.inl h, hl⟩
      · rintro ⟨h | ⟨t, rfl, ht⟩, hl⟩
        · exact Or.inr ⟨h, hl⟩
        · exact Or.inl ⟨t, ⟨ht, by simpa using hl⟩, rfl⟩

/-- the `for l in range(0, len(edges)+1): extend(combinations(edges, l))` list is a rearrangement of the list of
all sublists -/
theorem combinations_perm_sublists {α : Type} (l : List α) :
    ((List.range (l.length + 1)).flatMap fun k => combinations k l).Perm (sublists l) := by
  induction l with
  | nil => exact List.Perm.refl _
  | cons x xs ih =>
    have e1 : ((List.range ((x :: xs).length + 1)).flatMap fun k => combinations k (x :: xs))
        = [[]] ++ (List.range (xs.length + 1)).flatMap
            (fun k => (combinations k xs).map (x :: ·) ++ combinations (k+1) xs) := by
      rw [List.length_cons, List.range_succ_eq_map, List.flatMap_cons, List.flatMap_map]
      rfl
    have e2 : [[]] ++ (List.range (xs.length + 1)).flatMap (fun k => combinations (k+1) xs)
        = (List.range (xs.length + 1)).flatMap fun k => combinations k xs := by
      have h1 : ((List.range (xs.length + 1 + 1)).flatMap fun k => combinations k xs)
          = [[]] ++ (List.range (xs.length + 1)).flatMap (fun k => combinations (k+1) xs) := by
        rw [List.range_succ_eq_map, List.flatMap_cons, List.flatMap_map, combinations_zero]
      rw [← h1, List.range_succ, List.flatMap_append, List.flatMap_cons, List.flatMap_nil,
        combinations_eq_nil xs (xs.length + 1) (Nat.lt_succ_self _), List.append_nil, List.append_nil]
    have e3 : (List.range (xs.length + 1)).flatMap (fun k => (combinations k xs).map (x :: ·))
        = ((List.range (xs.length + 1)).flatMap fun k => combinations k xs).map (x :: ·) := by
      rw [List.map_flatMap]
    rw [e1]
    refine List.Perm.trans (List.Perm.append_left _ (List.flatMap_append_perm _ _ _).symm) ?_
    refine List.Perm.trans (List.Perm.append_left _ List.perm_append_comm) ?_
    rw [← List.append_assoc, e2, e3]
    exact List.Perm.append ih (ih.map _)

/-! ### `edgeCombinations` -/

theorem filterMap_ite {α β : Type} (p : α → Bool) (h : α → β) (l : List α) :
    l.filterMap (fun a => if p a = true then some (h a) else none) = (l.filter p).map h := by
  induction l with
  | nil => rfl
  | cons a t ih =>
    by_cases hp : p a = true
    · simp [hp, ih]
    · simp [hp, ih]

/-- **`get_edge_combinations(g, c)`** is (a rearrangement of) the list of removed-edge counts `|es|` over exactly
the edge subsets `es` whose removal leaves `g` connected -/
theorem edgeCombinations_spec (g : Motif) :
    (edgeCombinations g).Perm
      (((sublists g.edges).filter fun es => connected (g.edges.filter fun e => e ∉ es) g.nodes).map
        List.length) := by
  unfold edgeCombinations
  rw [filterMap_ite (fun es => connected (g.edges.filter fun e => e ∉ es) g.nodes) List.length]
  exact ((combinations_perm_sublists g.edges).filter _).map _

/-- membership form: `n` is listed iff some sub-list `es` of the edges with `|es| = n` can be removed -/
theorem mem_edgeCombinations_iff {g : Motif} {n : Nat} :
    n ∈ edgeCombinations g ↔ ∃ es : List Edge, es.Sublist g.edges ∧
      connected (g.edges.filter fun e => e ∉ es) g.nodes = true ∧ es.length = n := by
  rw [(edgeCombinations_spec g).mem_iff]
  simp only [List.mem_map, List.mem_filter, mem_sublists_iff, and_assoc]

/-! ### examples (kernel-checked evaluations of the model) -/

/-- triangle, root 0 -/
example : connectedSubgraphs ⟨[0,1,2], [(0,1),(1,2),(0,2)]⟩ 0 = [[0], [1,0], [2,1,0], [2,0]] := by decide
/-- 4-cycle 0-1-2-3-0, root 0 -/
example : connectedSubgraphs ⟨[0,1,2,3], [(0,1),(1,2),(2,3),(3,0)]⟩ 0
    = [[0], [1,0], [3,1,0], [2,3,1,0], [2,1,0], [3,0], [2,3,0]] := by decide
/-- path 0-1-2 rooted at the middle vertex -/
example : connectedSubgraphs ⟨[0,1,2], [(0,1),(1,2)]⟩ 1 = [[1], [0,1], [2,0,1], [2,1]] := by decide
/-- triangle: removing nothing or any single edge keeps it connected -/
example : edgeCombinations ⟨[0,1,2], [(0,1),(1,2),(0,2)]⟩ = [0, 1, 1, 1] := by decide
/-- the inner subgraph of the component `{0,1}` of the triangle -/
example : inner ⟨[0,1,2], [(0,1),(1,2),(0,2)]⟩ [1,0] = ⟨[0,1], [(0,1)]⟩ := by decide

/-- non-vacuity of the specification: in the path 0-1-2 the set `{0,1}` is a connected set containing 0 and
`{0,2}` is not -/
example : IsConnSet ⟨[0,1,2], [(0,1),(1,2)]⟩ 0 {0, 1} ∧ ¬ IsConnSet ⟨[0,1,2], [(0,1),(1,2)]⟩ 0 {0, 2} := by
  have h := (connectedSubgraphs_spec ⟨[0,1,2], [(0,1),(1,2)]⟩ 0 (by unfold WFGraph; decide) (by decide)).2.2
  exact ⟨(h _).1 (by decide), fun hc => absurd ((h _).2 hc) (by decide)⟩

end Gcmpy.Automated
