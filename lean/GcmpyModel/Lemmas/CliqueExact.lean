import Mathlib.Algebra.BigOperators.Intervals
import Mathlib.Algebra.BigOperators.Group.Finset.Sigma
import Mathlib.Algebra.BigOperators.Ring.Finset
import Mathlib.Algebra.BigOperators.Group.Finset.Powerset
import Mathlib.Data.Finset.Powerset
import Mathlib.Data.Finset.Card
import Mathlib.Data.Finset.Prod
import Mathlib.Order.Interval.Finset.Nat
import Mathlib.Tactic.Ring
import GcmpyModel.Lemmas.ClosedForms
import GcmpyModel.Lemmas.AutomatedExact
/-
The automated equation on the clique `K_τ` in closed form (property C16, clique part).

Route (the same as `Lemmas/CycleExact.lean`): `percAutoE_eq_automatedEquation` turns
`automatedEquation (completeGraph τ) φ u 0` into the finset-level sum over the vertex sets `S ∋ 0` of
  `(1-φ)^|∂S| · ∏_{v ∈ S, v ≠ 0} u v · Σ_{F ⊆ E(S), comp_F(0) = S} wt F`.
For the clique
* every `S ∋ 0` is admissible; `|∂S| = |S| (τ - |S|)` (`card_bdry_KE`);
* the induced graph on `S` is carried onto `K_|S|` by the order-preserving relabelling `rank S`, which preserves
  edge counts and connectivity (`card_conn_image`, `image_rank_inner`), hence the number of connected spanning edge
  subsets of the induced graph with `j` edges is `connFin |S| j` (`fiber_count`), the number of connected labelled
  graphs on `|S|` vertices with `j` edges;
* `Σ_{|S| = κ+1} ∏_{v ∈ S, v ≠ 0} u v` is the elementary symmetric sum of `u 1, …, u (τ-1)` (`sum_prod_erase`,
  `sum_combinations_eq`).
-/
namespace Gcmpy.ClosedForms
open Gcmpy Gcmpy.Graph Gcmpy.Automated

/-! ### the complete graph as a finset graph -/

/-- the edges of `completeGraph n` as a finset -/
def KE (n : Nat) : Finset Edge := (completeGraph n).edges.toFinset

theorem mem_KE {n : Nat} {e : Edge} : e ∈ KE n ↔ e.1 < e.2 ∧ e.2 < n := by
  obtain ⟨a, b⟩ := e
  unfold KE
  rw [List.mem_toFinset]
  exact mem_completeGraph_edges

theorem card_KE (n : Nat) : (KE n).card = n * (n - 1) / 2 := by
  unfold KE
  rw [List.toFinset_card_of_nodup (completeGraph_edges_nodup n), completeGraph_edges_length]

theorem completeGraph_simple (n : Nat) : Simple (completeGraph n).edges := by
  refine ⟨completeGraph_edges_nodup n, ?_, ?_⟩
  · rintro ⟨a, b⟩ he
    have := mem_completeGraph_edges.1 he
    simp only [ne_eq]; omega
  · rintro ⟨a, b⟩ he he'
    have h1 := mem_completeGraph_edges.1 he
    have h2 := mem_completeGraph_edges.1 he'
    omega

theorem completeGraph_nodes_toFinset (n : Nat) : (completeGraph n).nodes.toFinset = Finset.range n := by
  ext v
  simp [completeGraph]

/-! ### connectivity of a finset graph, and its invariance under relabelling -/

/-- the graph with vertex set `S` and edge set `F` is connected -/
def Conn (S : Finset Nat) (F : Finset Edge) : Prop := ∀ a ∈ S, ∀ b ∈ S, Perc.Reach F a b

noncomputable instance Conn.dec (S : Finset Nat) (F : Finset Edge) : Decidable (Conn S F) :=
  Classical.propDecidable _

theorem percReach_symm {F : Finset Edge} {a b : Nat} (h : Perc.Reach F a b) : Perc.Reach F b a := by
  induction h with
  | refl => exact Relation.ReflTransGen.refl
  | tail _ hbc ih => exact Relation.ReflTransGen.head (Or.symm hbc) ih

/-- a walk is mapped to a walk by any relabelling of the vertices -/
theorem reach_map (σ : Nat → Nat) {F : Finset Edge} {a b : Nat} (h : Perc.Reach F a b) :
    Perc.Reach (F.image (Prod.map σ σ)) (σ a) (σ b) := by
  induction h with
  | refl => exact Relation.ReflTransGen.refl
  | tail _ hbc ih =>
    refine Relation.ReflTransGen.tail ih ?_
    rcases hbc with h1 | h1
    · exact Or.inl (Finset.mem_image.2 ⟨_, h1, rfl⟩)
    · exact Or.inr (Finset.mem_image.2 ⟨_, h1, rfl⟩)

/-- connectivity is invariant under a relabelling that is injective on the vertex set -/
theorem conn_image_iff {S : Finset Nat} {F : Finset Edge} (hF : ∀ e ∈ F, e.1 ∈ S ∧ e.2 ∈ S) {σ : Nat → Nat}
    (hσ : Set.InjOn σ S) : Conn (S.image σ) (F.image (Prod.map σ σ)) ↔ Conn S F := by
  constructor
  · intro h a ha b hb
    have h1 := h (σ a) (Finset.mem_image_of_mem σ ha) (σ b) (Finset.mem_image_of_mem σ hb)
    have h2 := reach_map (Function.invFunOn σ S) h1
    have hinv : ∀ v ∈ S, Function.invFunOn σ S (σ v) = v := fun v hv => hσ.leftInvOn_invFunOn hv
    have hFF : (F.image (Prod.map σ σ)).image (Prod.map (Function.invFunOn σ S) (Function.invFunOn σ S)) = F := by
      rw [Finset.image_image]
      conv_rhs => rw [← Finset.image_id (s := F)]
      apply Finset.image_congr
      intro e he
      have := hF e he
      simp only [Function.comp, Prod.map, id, hinv _ this.1, hinv _ this.2]
    rw [hFF, hinv a ha, hinv b hb] at h2
    exact h2
  · intro h a' ha' b' hb'
    obtain ⟨a, ha, rfl⟩ := Finset.mem_image.1 ha'
    obtain ⟨b, hb, rfl⟩ := Finset.mem_image.1 hb'
    exact reach_map σ (h a ha b hb)

theorem prodMap_injOn {S : Finset Nat} {I : Finset Edge} (hI : ∀ e ∈ I, e.1 ∈ S ∧ e.2 ∈ S) {σ : Nat → Nat}
    (hσ : Set.InjOn σ S) : Set.InjOn (Prod.map σ σ) (I : Set Edge) := by
  rintro ⟨a, b⟩ he ⟨a', b'⟩ he' h
  have h1 := hI _ he
  have h2 := hI _ he'
  simp only [Prod.map, Prod.mk.injEq] at h
  have e1 : a = a' := hσ h1.1 h2.1 h.1
  have e2 : b = b' := hσ h1.2 h2.2 h.2
  rw [e1, e2]

/-- **relabelling lemma**: the number of connected spanning edge subsets with `j` edges is invariant under a relabelling
of the vertices that is injective on the vertex set -/
theorem card_conn_image (S : Finset Nat) (I : Finset Edge) (hI : ∀ e ∈ I, e.1 ∈ S ∧ e.2 ∈ S) (σ : Nat → Nat)
    (hσ : Set.InjOn σ S) (j : Nat) :
    (I.powerset.filter fun F => F.card = j ∧ Conn S F).card
      = ((I.image (Prod.map σ σ)).powerset.filter fun F' => F'.card = j ∧ Conn (S.image σ) F').card := by
  have hψ := prodMap_injOn hI hσ
  have hsubI : ∀ {F : Finset Edge}, F ⊆ I → ∀ e ∈ F, e.1 ∈ S ∧ e.2 ∈ S := fun hF e he => hI e (hF he)
  apply Finset.card_bij (fun F _ => F.image (Prod.map σ σ))
  · intro F hF
    rw [Finset.mem_filter, Finset.mem_powerset] at hF ⊢
    refine ⟨Finset.image_subset_image hF.1, ?_, (conn_image_iff (hsubI hF.1) hσ).2 hF.2.2⟩
    rw [Finset.card_image_of_injOn (hψ.mono (Finset.coe_subset.2 hF.1))]
    exact hF.2.1
  · intro F hF G hG hFG
    rw [Finset.mem_filter, Finset.mem_powerset] at hF hG
    have key : ∀ {F G : Finset Edge}, F ⊆ I → G ⊆ I →
        F.image (Prod.map σ σ) = G.image (Prod.map σ σ) → F ⊆ G := by
      intro F G hF hG hFG e he
      have : Prod.map σ σ e ∈ G.image (Prod.map σ σ) := hFG ▸ Finset.mem_image_of_mem _ he
      obtain ⟨e', he', hee⟩ := Finset.mem_image.1 this
      rw [← hψ (hG he') (hF he) hee]
      exact he'
    exact Finset.Subset.antisymm (key hF.1 hG.1 hFG) (key hG.1 hF.1 hFG.symm)
  · intro F' hF'
    rw [Finset.mem_filter, Finset.mem_powerset] at hF'
    obtain ⟨F, hFI, rfl⟩ := Finset.subset_image_iff.1 hF'.1
    refine ⟨F, ?_, rfl⟩
    rw [Finset.mem_filter, Finset.mem_powerset]
    refine ⟨hFI, ?_, (conn_image_iff (hsubI hFI) hσ).1 hF'.2.2⟩
    rw [← hF'.2.1, Finset.card_image_of_injOn (hψ.mono (Finset.coe_subset.2 hFI))]

/-! ### the order-preserving relabelling of a vertex set -/

/-- position of `v` in the increasing enumeration of `S` -/
def rank (S : Finset Nat) (v : Nat) : Nat := (S.filter (· < v)).card

theorem rank_lt_rank {S : Finset Nat} {a b : Nat} (ha : a ∈ S) (hab : a < b) : rank S a < rank S b := by
  unfold rank
  apply Finset.card_lt_card
  rw [Finset.ssubset_iff_of_subset]
  · exact ⟨a, Finset.mem_filter.2 ⟨ha, hab⟩, fun h => Nat.lt_irrefl a (Finset.mem_filter.1 h).2⟩
  · intro x hx
    rw [Finset.mem_filter] at hx ⊢
    exact ⟨hx.1, Nat.lt_trans hx.2 hab⟩

theorem rank_lt_card {S : Finset Nat} {a : Nat} (ha : a ∈ S) : rank S a < S.card := by
  unfold rank
  apply Finset.card_lt_card
  rw [Finset.ssubset_iff_of_subset (Finset.filter_subset _ _)]
  exact ⟨a, ha, fun h => Nat.lt_irrefl a (Finset.mem_filter.1 h).2⟩

theorem rank_injOn (S : Finset Nat) : Set.InjOn (rank S) (S : Set Nat) := by
  intro a ha b hb h
  by_contra hne
  rcases Nat.lt_or_gt_of_ne hne with hlt | hlt
  · have := rank_lt_rank (Finset.mem_coe.1 ha) hlt; omega
  · have := rank_lt_rank (Finset.mem_coe.1 hb) hlt; omega

theorem image_rank (S : Finset Nat) : S.image (rank S) = Finset.range S.card := by
  apply Finset.eq_of_subset_of_card_le
  · intro i hi
    obtain ⟨a, ha, rfl⟩ := Finset.mem_image.1 hi
    exact Finset.mem_range.2 (rank_lt_card ha)
  · rw [Finset.card_image_of_injOn (rank_injOn S), Finset.card_range]

theorem inner_mem (E : Finset Edge) (S : Finset Nat) : ∀ e ∈ Perc.inner E S, e.1 ∈ S ∧ e.2 ∈ S := by
  intro e he
  simp only [Perc.inner, Finset.mem_filter] at he
  exact he.2

/-- the subgraph of `K_τ` induced on `S` is carried onto `K_|S|` by the order-preserving relabelling -/
theorem image_rank_inner {tau : Nat} {S : Finset Nat} (hS : S ⊆ Finset.range tau) :
    (Perc.inner (KE tau) S).image (Prod.map (rank S) (rank S)) = KE S.card := by
  ext ⟨i, j⟩
  rw [Finset.mem_image, mem_KE]
  constructor
  · rintro ⟨⟨a, b⟩, he, h⟩
    simp only [Perc.inner, Finset.mem_filter, mem_KE] at he
    simp only [Prod.map, Prod.mk.injEq] at h
    obtain ⟨rfl, rfl⟩ := h
    exact ⟨rank_lt_rank he.2.1 he.1.1, rank_lt_card he.2.2⟩
  · rintro ⟨hij, hj⟩
    simp only at hij hj
    have hi' : i ∈ S.image (rank S) := by rw [image_rank, Finset.mem_range]; omega
    have hj' : j ∈ S.image (rank S) := by rw [image_rank, Finset.mem_range]; omega
    obtain ⟨a, ha, rfl⟩ := Finset.mem_image.1 hi'
    obtain ⟨b, hb, rfl⟩ := Finset.mem_image.1 hj'
    have hab : a < b := by
      by_contra hnot
      rcases Nat.eq_or_lt_of_not_lt hnot with h | h
      · rw [h] at hij; omega
      · have := rank_lt_rank hb h; omega
    refine ⟨(a, b), ?_, rfl⟩
    simp only [Perc.inner, Finset.mem_filter, mem_KE]
    exact ⟨⟨hab, Finset.mem_range.1 (hS hb)⟩, ha, hb⟩

theorem card_inner_KE {tau : Nat} {S : Finset Nat} (hS : S ⊆ Finset.range tau) :
    (Perc.inner (KE tau) S).card = S.card * (S.card - 1) / 2 := by
  rw [← card_KE, ← image_rank_inner hS,
    Finset.card_image_of_injOn (prodMap_injOn (inner_mem _ _) (rank_injOn S))]

/-- number of connected labelled graphs on `n` vertices with `j` edges, as a finset cardinality -/
noncomputable def connFin (n j : Nat) : Nat :=
  ((KE n).powerset.filter fun F => F.card = j ∧ Conn (Finset.range n) F).card

/-- **`connCount_induced`**: for every vertex set `S` of `K_τ`, the number of connected spanning edge subsets of the induced
graph with `j` edges is the number of connected labelled graphs on `|S|` vertices with `j` edges -/
theorem card_conn_inner {tau : Nat} {S : Finset Nat} (hS : S ⊆ Finset.range tau) (j : Nat) :
    ((Perc.inner (KE tau) S).powerset.filter fun F => F.card = j ∧ Conn S F).card = connFin S.card j := by
  rw [card_conn_image S _ (inner_mem _ _) (rank S) (rank_injOn S) j, image_rank_inner hS, image_rank]
  rfl

/-- the same, for the fibre of the component map that occurs in the percolation decomposition -/
theorem fiber_count {tau : Nat} {S : Finset Nat} (hS : S ⊆ Finset.range tau) (h0 : 0 ∈ S) (j : Nat) :
    (((Perc.inner (KE tau) S).powerset.filter (fun F => Perc.comp (Finset.range tau) F 0 = S)).filter
      (fun F => F.card = j)).card = connFin S.card j := by
  rw [← card_conn_inner hS j, Finset.filter_filter]
  congr 1
  apply Finset.filter_congr
  intro F hF
  rw [Perc.inner_fiber_eq_connected (Finset.range tau) (KE tau) S hS 0 h0 F (Finset.mem_powerset.1 hF)]
  constructor
  · rintro ⟨h1, h2⟩
    exact ⟨h2, fun a ha b hb => Relation.ReflTransGen.trans (percReach_symm (h1 a ha)) (h1 b hb)⟩
  · rintro ⟨h1, h2⟩
    exact ⟨fun v hv => h2 0 h0 v hv, h1⟩

/-! ### the boundary of a vertex set of the clique -/

theorem card_bdry_KE {tau : Nat} {S : Finset Nat} (hS : S ⊆ Finset.range tau) :
    (Perc.bdry (KE tau) S).card = S.card * (tau - S.card) := by
  have hmem : ∀ e : Edge, e ∈ Perc.bdry (KE tau) S ↔
      (e.1 < e.2 ∧ e.2 < tau) ∧ ¬ (e.1 ∈ S ∧ e.2 ∈ S) ∧ ¬ (e.1 ∉ S ∧ e.2 ∉ S) := by
    intro e
    simp only [Perc.bdry, Finset.mem_filter, mem_KE]
  have hlt : ∀ v ∈ S, v < tau := fun v hv => Finset.mem_range.1 (hS hv)
  have hcard : (S ×ˢ (Finset.range tau \ S)).card = S.card * (tau - S.card) := by
    rw [Finset.card_product, Finset.card_sdiff_of_subset hS, Finset.card_range]
  rw [← hcard]
  apply Finset.card_nbij' (fun e => if e.1 ∈ S then (e.1, e.2) else (e.2, e.1))
    (fun x => if x.1 < x.2 then (x.1, x.2) else (x.2, x.1))
  · rintro ⟨a, b⟩ he
    have he' := (hmem _).1 (Finset.mem_coe.1 he)
    simp only at he'
    rw [Finset.mem_coe]
    by_cases ha : a ∈ S
    · show (if a ∈ S then (a, b) else (b, a)) ∈ _
      rw [if_pos ha, Finset.mem_product, Finset.mem_sdiff, Finset.mem_range]
      exact ⟨ha, he'.1.2, fun hb => he'.2.1 ⟨ha, hb⟩⟩
    · show (if a ∈ S then (a, b) else (b, a)) ∈ _
      rw [if_neg ha, Finset.mem_product, Finset.mem_sdiff, Finset.mem_range]
      have hb : b ∈ S := by
        by_contra hb; exact he'.2.2 ⟨ha, hb⟩
      exact ⟨hb, by omega, ha⟩
  · rintro ⟨s, t⟩ hx
    have hx' := Finset.mem_coe.1 hx
    simp only [Finset.mem_product, Finset.mem_sdiff, Finset.mem_range] at hx'
    have hs := hlt s hx'.1
    have hne : s ≠ t := fun h => hx'.2.2 (h ▸ hx'.1)
    rw [Finset.mem_coe]
    show (if s < t then (s, t) else (t, s)) ∈ _
    by_cases hst : s < t
    · rw [if_pos hst, hmem]
      exact ⟨⟨hst, hx'.2.1⟩, fun h => hx'.2.2 h.2, fun h => h.1 hx'.1⟩
    · rw [if_neg hst, hmem]
      exact ⟨⟨by simp only; omega, hs⟩, fun h => hx'.2.2 h.1, fun h => h.2 hx'.1⟩
  · rintro ⟨a, b⟩ he
    have he' := (hmem _).1 (Finset.mem_coe.1 he)
    simp only at he'
    by_cases ha : a ∈ S
    · simp only [ha, if_true, he'.1.1]
    · have : ¬ b < a := by omega
      simp only [ha, if_false, this]
  · rintro ⟨s, t⟩ hx
    have hx' := Finset.mem_coe.1 hx
    simp only [Finset.mem_product, Finset.mem_sdiff, Finset.mem_range] at hx'
    by_cases hst : s < t
    · simp only [hst, if_true, hx'.1]
    · simp only [hst, if_false, hx'.2.2]

/-! ### elementary symmetric sums -/

section sums
variable {R : Type} [CommRing R]

/-- elementary symmetric sums: the list form (`itertools.combinations`) is the finset form -/
theorem sum_combinations_eq (f : Nat → R) : ∀ (l : List Nat), l.Nodup → ∀ k,
    ((combinations k (l.map f)).map List.prod).sum
      = ∑ T ∈ Finset.powersetCard k l.toFinset, ∏ v ∈ T, f v
  | [], _, 0 => by simp [combinations]
  | [], _, k+1 => by
    have : Finset.powersetCard (k + 1) (∅ : Finset Nat) = ∅ := Finset.powersetCard_eq_empty.2 (by simp)
    simp [combinations, this]
  | x :: xs, _, 0 => by simp [combinations_zero]
  | x :: xs, h, k+1 => by
    rw [List.nodup_cons] at h
    have hx : x ∉ xs.toFinset := by simpa using h.1
    have ih1 := sum_combinations_eq f xs h.2 k
    have ih2 := sum_combinations_eq f xs h.2 (k+1)
    have hdisj : Disjoint (Finset.powersetCard (k+1) xs.toFinset)
        ((Finset.powersetCard k xs.toFinset).image (insert x)) := by
      rw [Finset.disjoint_left]
      intro T hT hT'
      obtain ⟨T', _, rfl⟩ := Finset.mem_image.1 hT'
      exact hx ((Finset.mem_powersetCard.1 hT).1 (Finset.mem_insert_self x T'))
    have hnot : ∀ T ∈ Finset.powersetCard k xs.toFinset, x ∉ T := fun T hT hm =>
      hx ((Finset.mem_powersetCard.1 hT).1 hm)
    have hinj : Set.InjOn (insert x) (Finset.powersetCard k xs.toFinset : Set (Finset Nat)) := by
      intro T hT T' hT' hh
      rw [← Finset.erase_insert (hnot T (Finset.mem_coe.1 hT)), ← Finset.erase_insert (hnot T' (Finset.mem_coe.1 hT')), hh]
    have hprod : ∀ T ∈ Finset.powersetCard k xs.toFinset, ∏ v ∈ insert x T, f v = f x * ∏ v ∈ T, f v := by
      intro T hT
      rw [Finset.prod_insert (hnot T hT)]
    have hps := Finset.powersetCard_succ_insert hx k
    rw [List.toFinset_cons, hps, Finset.sum_union hdisj, Finset.sum_image hinj, ← ih2,
      Finset.sum_congr rfl hprod, ← Finset.mul_sum, ← ih1]
    simp only [List.map_cons, combinations, List.map_append, List.sum_append, List.map_map, Function.comp_def,
      List.prod_cons, List.sum_map_mul_left]
    ring

/-- the elementary symmetric sum of `u 1, …, u (τ-1)` in list form and in finset form -/
theorem sum_combinations_range (tau κ : Nat) (h : 1 ≤ tau) (u : Nat → R) :
    ((combinations κ ((List.range (tau - 1)).map fun i => u (i + 1))).map List.prod).sum
      = ∑ T ∈ Finset.powersetCard κ ((Finset.range tau).erase 0), ∏ v ∈ T, u v := by
  have hl : ((List.range (tau - 1)).map (· + 1)).Nodup :=
    List.Nodup.map (fun a b hab => Nat.add_right_cancel hab) List.nodup_range
  have ht : ((List.range (tau - 1)).map (· + 1)).toFinset = (Finset.range tau).erase 0 := by
    ext v
    simp only [List.mem_toFinset, List.mem_map, List.mem_range, Finset.mem_erase, Finset.mem_range]
    constructor
    · rintro ⟨i, hi, rfl⟩; omega
    · intro hv; exact ⟨v - 1, by omega, by omega⟩
  rw [← ht, ← sum_combinations_eq u _ hl κ, List.map_map]
  rfl

/-- the vertex sets containing the root, of size `κ+1`, correspond to the `κ`-subsets of the other vertices -/
theorem sum_prod_erase (tau κ : Nat) (h : 1 ≤ tau) (u : Nat → R) :
    ∑ S ∈ ((Finset.range tau).powerset.filter (fun S => 0 ∈ S)).filter (fun S => S.card - 1 = κ),
        ∏ v ∈ S.erase 0, u v
      = ∑ T ∈ Finset.powersetCard κ ((Finset.range tau).erase 0), ∏ v ∈ T, u v := by
  refine Finset.sum_nbij' (fun S => S.erase 0) (fun T => insert 0 T) ?_ ?_ ?_ ?_ ?_
  · intro S hS
    simp only [Finset.mem_filter, Finset.mem_powerset] at hS
    rw [Finset.mem_powersetCard]
    exact ⟨Finset.erase_subset_erase 0 hS.1.1, by rw [Finset.card_erase_of_mem hS.1.2]; exact hS.2⟩
  · intro T hT
    rw [Finset.mem_powersetCard] at hT
    have h0 : 0 ∉ T := fun hm => (Finset.mem_erase.1 (hT.1 hm)).1 rfl
    simp only [Finset.mem_filter, Finset.mem_powerset]
    refine ⟨⟨?_, Finset.mem_insert_self 0 T⟩, ?_⟩
    · intro v hv
      rcases Finset.mem_insert.1 hv with rfl | hv
      · exact Finset.mem_range.2 (by omega)
      · exact Finset.mem_of_mem_erase (hT.1 hv)
    · rw [Finset.card_insert_of_notMem h0, hT.2, Nat.add_sub_cancel]
  · intro S hS
    simp only [Finset.mem_filter] at hS
    exact Finset.insert_erase hS.1.2
  · intro T hT
    rw [Finset.mem_powersetCard] at hT
    have h0 : 0 ∉ T := fun hm => (Finset.mem_erase.1 (hT.1 hm)).1 rfl
    exact Finset.erase_insert h0
  · intro S _
    rfl

/-! ### the term attached to a vertex set, and the assembly -/

/-- grouping the percolation weights of a family of edge subsets by the number of open edges -/
theorem sum_wt_by_card (p : R) (I : Finset Edge) (P : Finset (Finset Edge)) (hP : ∀ F ∈ P, F ⊆ I) :
    ∑ F ∈ P, Perc.wt p I F
      = ∑ j ∈ Finset.range (I.card + 1),
          ((P.filter fun F => F.card = j).card : R) * (p ^ j * (1 - p) ^ (I.card - j)) := by
  rw [← Finset.sum_fiberwise_of_maps_to (g := fun F : Finset Edge => F.card) (t := Finset.range (I.card + 1))
    (fun F hF => Finset.mem_range.2 (Nat.lt_succ_of_le (Finset.card_le_card (hP F hF))))]
  apply Finset.sum_congr rfl
  intro j _
  have : ∀ F ∈ P.filter (fun F => F.card = j), Perc.wt p I F = p ^ j * (1 - p) ^ (I.card - j) := by
    intro F hF
    rw [Finset.mem_filter] at hF
    rw [Perc.wt_eq_pow p (hP F hF.1), hF.2]
  rw [Finset.sum_congr rfl this, Finset.sum_const, nsmul_eq_mul]

/-- the summand of `Perc.autoE` on the clique -/
noncomputable def kterm (tau : Nat) (p : R) (u : Nat → R) (S : Finset Nat) : R :=
  (∏ _e ∈ Perc.bdry (KE tau) S, (1 - p)) * (∏ v ∈ S.erase 0, u v) *
    ∑ F ∈ (Perc.inner (KE tau) S).powerset.filter (fun F => Perc.comp (Finset.range tau) F 0 = S),
      Perc.wt p (Perc.inner (KE tau) S) F

/-- the polynomial in `p` attached to the root components with `κ+1` vertices: `j` open edges forming a connected graph
on the component, the other `κ(κ+1)/2 - j` inner edges and the `(κ+1)(τ-κ-1)` boundary edges closed -/
noncomputable def cliquePoly (tau κ : Nat) (p : R) : R :=
  ∑ j ∈ Finset.range (κ * (κ + 1) / 2 + 1),
    (connFin (κ + 1) j : R) * p ^ j * (1 - p) ^ (κ * (κ + 1) / 2 - j + (κ + 1) * (tau - κ - 1))

theorem kterm_eq {tau κ : Nat} (p : R) (u : Nat → R) {S : Finset Nat} (hS : S ⊆ Finset.range tau)
    (h0 : 0 ∈ S) (hc : S.card = κ + 1) :
    kterm tau p u S = (∏ v ∈ S.erase 0, u v) * cliquePoly tau κ p := by
  unfold kterm cliquePoly
  rw [sum_wt_by_card p _ _ (fun F hF => Finset.mem_powerset.1 (Finset.mem_filter.1 hF).1), Finset.prod_const,
    card_bdry_KE hS, card_inner_KE hS]
  simp only [fiber_count hS h0]
  rw [hc, Nat.add_sub_cancel, Nat.mul_comm (κ + 1) κ, Nat.sub_sub, Finset.mul_sum, Finset.mul_sum]
  apply Finset.sum_congr rfl
  intro j _
  rw [pow_add]
  ring

/-- the finset-level decomposition on the clique, summed by component size -/
theorem autoE_clique {tau : Nat} (h : 1 ≤ tau) (p : R) (u : Nat → R) :
    Perc.autoE (Finset.range tau) (KE tau) p u 0
      = ∑ κ ∈ Finset.range tau,
          (∑ T ∈ Finset.powersetCard κ ((Finset.range tau).erase 0), ∏ v ∈ T, u v) * cliquePoly tau κ p := by
  have hdef : Perc.autoE (Finset.range tau) (KE tau) p u 0
      = ∑ S ∈ (Finset.range tau).powerset.filter (fun S => 0 ∈ S), kterm tau p u S := rfl
  have hmaps : ∀ S ∈ (Finset.range tau).powerset.filter (fun S => 0 ∈ S), S.card - 1 ∈ Finset.range tau := by
    intro S hS
    simp only [Finset.mem_filter, Finset.mem_powerset] at hS
    have h1 : 0 < S.card := Finset.card_pos.2 ⟨0, hS.2⟩
    have h2 := Finset.card_le_card hS.1
    rw [Finset.card_range] at h2
    rw [Finset.mem_range]; omega
  rw [hdef, ← Finset.sum_fiberwise_of_maps_to (g := fun S : Finset Nat => S.card - 1) hmaps]
  apply Finset.sum_congr rfl
  intro κ _
  rw [← sum_prod_erase tau κ h u, Finset.sum_mul]
  apply Finset.sum_congr rfl
  intro S hS
  simp only [Finset.mem_filter, Finset.mem_powerset] at hS
  have hpos : 0 < S.card := Finset.card_pos.2 ⟨0, hS.1.2⟩
  exact kterm_eq p u hS.1.1 hS.1.2 (by omega)

/-- **the automated equation on the clique `K_τ` rooted at `0`, in closed form**: the root component is any vertex set
`S ∋ 0`; for `|S| = κ+1` its `(κ+1)(τ-κ-1)` boundary edges are closed and the open inner edges form one of the
`connFin (κ+1) j` connected graphs with `j` edges on `S`; summing `∏_{v ∈ S, v ≠ 0} u v` over the `S` of a given size
gives the elementary symmetric sum of `u 1, …, u (τ-1)` -/
theorem automated_clique_finset {tau : Nat} (h : 1 ≤ tau) (p : R) (u : Nat → R) :
    automatedEquation (completeGraph tau) p u 0
      = ∑ κ ∈ Finset.range tau,
          (∑ T ∈ Finset.powersetCard κ ((Finset.range tau).erase 0), ∏ v ∈ T, u v) * cliquePoly tau κ p := by
  have h0 : 0 ∈ (completeGraph tau).nodes := by
    show 0 ∈ List.range tau
    rw [List.mem_range]; omega
  rw [← percAutoE_eq_automatedEquation (completeGraph tau) (completeGraph_wf tau (List.Sublist.refl _))
    (completeGraph_simple tau) h0, completeGraph_nodes_toFinset]
  exact autoE_clique h p u

/-- the same with the elementary symmetric sum in the list form used by `esym` -/
theorem automated_clique_list {tau : Nat} (h : 1 ≤ tau) (p : R) (u : Nat → R) :
    automatedEquation (completeGraph tau) p u 0
      = ∑ κ ∈ Finset.range tau,
          ((combinations κ ((List.range (tau - 1)).map fun i => u (i + 1))).map List.prod).sum
            * cliquePoly tau κ p := by
  rw [automated_clique_finset h p u]
  apply Finset.sum_congr rfl
  intro κ _
  rw [sum_combinations_range tau κ h u]

end sums

end Gcmpy.ClosedForms
