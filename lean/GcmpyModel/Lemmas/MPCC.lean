import GcmpyModel.Model.MPCC
import GcmpyModel.Lemmas.Dict
/-!
Helper lemmas for C10 (`MPCC`, the greedy maximal-first edge-disjoint clique cover).
-/
namespace Gcmpy.MPCC
open Gcmpy Gcmpy.Graph Gcmpy.Generate

/-! ### vocabulary -/

/-- simple loop-free graph as an edge list: every undirected edge listed once -/
def Simple (es : List Edge) : Prop := es.Nodup ∧ (∀ e ∈ es, e.1 ≠ e.2) ∧ ∀ e ∈ es, (e.2, e.1) ∉ es

/-- `c` is a clique of the graph: distinct vertices, every pair an edge -/
def IsClique (es : List Edge) (c : List Nat) : Prop :=
  c.Nodup ∧ ∀ a ∈ c, ∀ b ∈ c, a ≠ b → hasEdge es a b = true

/-- contract of `nx.enumerate_all_cliques`: only cliques, and every clique with ≥ 2 vertices occurs
    (as a vertex set) -/
def Enumerates (es : List Edge) (L : List (List Nat)) : Prop :=
  (∀ c ∈ L, IsClique es c) ∧ ∀ c, IsClique es c → 2 ≤ c.length → ∃ d ∈ L, d.Perm c

/-- the part of that contract `MPCC(G, max_size)` depends on: only cliques, and every clique with ≥ 2 vertices that is within
    the size limit occurs.  Weaker than `Enumerates` (`Enumerates.upTo`): a list from which the cliques above the limit were
    left out (they are skipped by the acceptance loop anyway) satisfies it too. -/
def EnumeratesUpTo (es : List Edge) (maxSize : Nat) (L : List (List Nat)) : Prop :=
  (∀ c ∈ L, IsClique es c) ∧
    ∀ c, IsClique es c → 2 ≤ c.length → (maxSize = 0 ∨ c.length ≤ maxSize) → ∃ d ∈ L, d.Perm c

theorem Enumerates.upTo {es : List Edge} {L : List (List Nat)} (h : Enumerates es L) (maxSize : Nat) :
    EnumeratesUpTo es maxSize L := ⟨h.1, fun c hc hl _ => h.2 c hc hl⟩

/-- the undirected pair {a,b} is one of the pairs of `c` -/
def HasPair (c : List Nat) (a b : Nat) : Prop := a ∈ c ∧ b ∈ c ∧ a ≠ b

instance (c : List Nat) (a b : Nat) : Decidable (HasPair c a b) := by unfold HasPair; infer_instance
instance (es : List Edge) : Decidable (Simple es) := by unfold Simple; infer_instance

theorem HasPair.symm {c : List Nat} {a b : Nat} (h : HasPair c a b) : HasPair c b a :=
  ⟨h.2.1, h.1, fun e => h.2.2 e.symm⟩

theorem hasPair_perm {c d : List Nat} (h : c.Perm d) (a b : Nat) : HasPair c a b ↔ HasPair d a b := by
  simp only [HasPair, h.mem_iff]

/-! ### edges, normalisation, pairs -/

theorem hasEdge_iff (es : List Edge) (a b : Nat) :
    hasEdge es a b = true ↔ (a, b) ∈ es ∨ (b, a) ∈ es := by
  simp only [hasEdge, List.any_eq_true, decide_eq_true_eq]
  constructor
  · rintro ⟨⟨x, y⟩, hx, (⟨rfl, rfl⟩ | ⟨rfl, rfl⟩)⟩
    · exact Or.inl hx
    · exact Or.inr hx
  · rintro (h | h)
    · exact ⟨(a, b), h, Or.inl ⟨rfl, rfl⟩⟩
    · exact ⟨(b, a), h, Or.inr ⟨rfl, rfl⟩⟩

theorem hasEdge_symm (es : List Edge) (a b : Nat) : hasEdge es a b = hasEdge es b a := by
  rw [Bool.eq_iff_iff, hasEdge_iff, hasEdge_iff, or_comm]

theorem normE_eq_iff (p e : Edge) : normE p = normE e ↔ p = e ∨ p = (e.2, e.1) := by
  obtain ⟨p1, p2⟩ := p
  obtain ⟨e1, e2⟩ := e
  simp only [normE, Prod.mk.injEq]
  omega

theorem normE_swap (a b : Nat) : normE (b, a) = normE (a, b) := by
  simp only [normE, Prod.mk.injEq]; omega

theorem mem_pairs_mem {c : List Nat} {a b : Nat} (h : (a, b) ∈ pairs c) : a ∈ c ∧ b ∈ c := by
  induction c with
  | nil => simp [pairs] at h
  | cons x xs ih =>
    simp only [pairs, List.mem_append, List.mem_map, Prod.mk.injEq] at h
    rcases h with ⟨y, hy, rfl, rfl⟩ | h
    · exact ⟨List.mem_cons_self, List.mem_cons_of_mem _ hy⟩
    · exact ⟨List.mem_cons_of_mem _ (ih h).1, List.mem_cons_of_mem _ (ih h).2⟩

theorem mem_pairs_ne {c : List Nat} (hc : c.Nodup) {a b : Nat} (h : (a, b) ∈ pairs c) : a ≠ b := by
  induction c with
  | nil => simp [pairs] at h
  | cons x xs ih =>
    rw [List.nodup_cons] at hc
    simp only [pairs, List.mem_append, List.mem_map, Prod.mk.injEq] at h
    rcases h with ⟨y, hy, rfl, rfl⟩ | h
    · rintro rfl; exact hc.1 hy
    · exact ih hc.2 h

theorem mem_pairs_of_hasPair {c : List Nat} {a b : Nat} (h : HasPair c a b) :
    (a, b) ∈ pairs c ∨ (b, a) ∈ pairs c := by
  obtain ⟨ha, hb, hab⟩ := h
  induction c with
  | nil => simp at ha
  | cons x xs ih =>
    simp only [pairs, List.mem_append, List.mem_map, Prod.mk.injEq]
    rcases List.mem_cons.1 ha with rfl | ha' <;> rcases List.mem_cons.1 hb with rfl | hb'
    · exact absurd rfl hab
    · exact Or.inl (Or.inl ⟨b, hb', rfl, rfl⟩)
    · exact Or.inr (Or.inl ⟨a, ha', rfl, rfl⟩)
    · rcases ih ha' hb' with h | h
      · exact Or.inl (Or.inr h)
      · exact Or.inr (Or.inr h)

/-- for a duplicate-free vertex list, "some pair of `c` normalises to the key of `(a,b)`" is `HasPair` -/
theorem claims_iff {c : List Nat} (hc : c.Nodup) (a b : Nat) :
    (∃ p ∈ pairs c, normE p = normE (a, b)) ↔ HasPair c a b := by
  constructor
  · rintro ⟨⟨p1, p2⟩, hp, hn⟩
    have hm := mem_pairs_mem hp
    have hne := mem_pairs_ne hc hp
    rcases (normE_eq_iff _ _).1 hn with h | h
    · simp only [Prod.mk.injEq] at h
      obtain ⟨rfl, rfl⟩ := h
      exact ⟨hm.1, hm.2, hne⟩
    · simp only [Prod.mk.injEq] at h
      obtain ⟨rfl, rfl⟩ := h
      exact ⟨hm.2, hm.1, fun e => hne e.symm⟩
  · intro h
    rcases mem_pairs_of_hasPair h with h | h
    · exact ⟨(a, b), h, rfl⟩
    · exact ⟨(b, a), h, normE_swap a b⟩

theorem allPairsPresent_iff (g : List Edge) {c : List Nat} (hc : c.Nodup) :
    allPairsPresent g c = true ↔ ∀ a b, HasPair c a b → hasEdge g a b = true := by
  simp only [allPairsPresent, List.all_eq_true]
  constructor
  · intro h a b hp
    rcases mem_pairs_of_hasPair hp with h' | h'
    · exact h _ h'
    · rw [hasEdge_symm]; exact h _ h'
  · intro h p hp
    have hm := mem_pairs_mem (a := p.1) (b := p.2) hp
    exact h _ _ ⟨hm.1, hm.2, mem_pairs_ne hc hp⟩


theorem mem_removePairs {g : List Edge} {c : List Nat} (hc : c.Nodup) (e : Edge) :
    e ∈ removePairs g c ↔ e ∈ g ∧ ¬ HasPair c e.1 e.2 := by
  simp only [removePairs, List.mem_filter, decide_eq_true_eq, List.any_eq_true, claims_iff hc e.1 e.2]

theorem hasEdge_removePairs {g : List Edge} {c : List Nat} (hc : c.Nodup) (a b : Nat) :
    hasEdge (removePairs g c) a b = true ↔ hasEdge g a b = true ∧ ¬ HasPair c a b := by
  simp only [hasEdge_iff, mem_removePairs hc]
  constructor
  · rintro (⟨h1, h2⟩ | ⟨h1, h2⟩)
    · exact ⟨Or.inl h1, h2⟩
    · exact ⟨Or.inr h1, fun h => h2 h.symm⟩
  · rintro ⟨h1 | h1, h2⟩
    · exact Or.inl ⟨h1, h2⟩
    · exact Or.inr ⟨h1, fun h => h2 h.symm⟩

/-! ### `sortDesc` -/

theorem le_foldl_max (l : List Nat) (a : Nat) : a ≤ l.foldl max a ∧ ∀ x ∈ l, x ≤ l.foldl max a := by
  induction l generalizing a with
  | nil => simp
  | cons y ys ih =>
    simp only [List.foldl_cons, List.mem_cons, forall_eq_or_imp]
    have := ih (max a y)
    exact ⟨by omega, by omega, this.2⟩

/-- concatenating the length classes `k ∈ ks` (distinct `k`s) permutes the sublist of those lengths -/
theorem flatMap_filter_perm (L : List (List Nat)) (ks : List Nat) (hk : ks.Nodup) :
    (ks.flatMap fun k => L.filter fun c => c.length = k).Perm (L.filter fun c => c.length ∈ ks) := by
  induction ks with
  | nil => simp
  | cons k ks ih =>
    rw [List.nodup_cons] at hk
    rw [List.flatMap_cons]
    refine ((ih hk.2).append_left _).trans ?_
    have h := List.filter_append_perm (fun c : List Nat => decide (c.length = k))
      (L.filter fun c => c.length ∈ k :: ks)
    rw [List.filter_filter, List.filter_filter] at h
    refine List.Perm.trans (List.Perm.of_eq ?_) h
    congr 1
    · apply List.filter_congr
      intro c _
      by_cases hck : c.length = k <;> simp [hck]
    · apply List.filter_congr
      intro c _
      by_cases hck : c.length = k
      · simp [hck, hk.1]
      · simp [hck]

theorem sortDesc_perm_lem (L : List (List Nat)) : (sortDesc L).Perm L := by
  unfold sortDesc
  refine (flatMap_filter_perm L _ ?_).trans (List.Perm.of_eq ?_)
  · exact (List.reverse_perm _).nodup_iff.2 List.nodup_range
  · rw [List.filter_eq_self]
    intro c hc
    have := (le_foldl_max (L.map List.length) 0).2 c.length (List.mem_map_of_mem hc)
    simp only [List.mem_reverse, List.mem_range, decide_eq_true_eq]
    omega

theorem sortDesc_sorted_lem (L : List (List Nat)) :
    (sortDesc L).Pairwise (fun a b => b.length ≤ a.length) := by
  unfold sortDesc
  rw [List.pairwise_flatMap]
  constructor
  · intro k _
    apply List.Pairwise.imp_of_mem (R := fun _ _ => True)
    · intro a b ha hb _
      simp only [List.mem_filter, decide_eq_true_eq] at ha hb
      omega
    · exact List.pairwise_of_forall (fun _ _ => trivial)
  · rw [List.pairwise_reverse]
    apply List.Pairwise.imp _ List.pairwise_lt_range
    intro a b hab x hx y hy
    simp only [List.mem_filter, decide_eq_true_eq] at hx hy
    omega

theorem mem_sortDesc (L : List (List Nat)) (c : List Nat) : c ∈ sortDesc L ↔ c ∈ L :=
  (sortDesc_perm_lem L).mem_iff


theorem filter_flatMap_filter (L : List (List Nat)) (ks : List Nat) (hk : ks.Nodup) (k : Nat) :
    (ks.flatMap fun k' => L.filter fun c => c.length = k').filter (fun c => c.length = k)
      = if k ∈ ks then L.filter (fun c => c.length = k) else [] := by
  induction ks with
  | nil => simp
  | cons k' ks ih =>
    rw [List.nodup_cons] at hk
    rw [List.flatMap_cons, List.filter_append, ih hk.2, List.filter_filter]
    by_cases hkk : k = k'
    · subst hkk
      simp [hk.1]
    · have : (List.filter (fun a => decide (a.length = k) && decide (a.length = k')) L) = [] := by
        rw [List.filter_eq_nil_iff]
        intro a _
        simp only [Bool.and_eq_true, decide_eq_true_eq]
        omega
      rw [this]
      simp [hkk]

/-- stability: within one length class the (shuffled) input order is kept -/
theorem sortDesc_stable_lem (L : List (List Nat)) (k : Nat) :
    (sortDesc L).filter (fun c => c.length = k) = L.filter (fun c => c.length = k) := by
  unfold sortDesc
  rw [filter_flatMap_filter L _ ((List.reverse_perm _).nodup_iff.2 List.nodup_range)]
  split
  · rfl
  · rename_i h
    symm
    rw [List.filter_eq_nil_iff]
    intro c hc
    have := (le_foldl_max (L.map List.length) 0).2 c.length (List.mem_map_of_mem hc)
    simp only [List.mem_reverse, List.mem_range] at h
    simp only [decide_eq_true_eq]
    omega

/-! ### the acceptance loop -/

theorem greedy_sublist (m : Nat) (cs : List (List Nat)) (g : List Edge) :
    (greedy m cs g).Sublist cs := by
  fun_induction greedy m cs g with
  | case1 => exact List.Sublist.refl _
  | case2 c cs g _ ih => exact ih.cons _
  | case3 c cs g _ _ ih => exact ih.cons_cons _
  | case4 c cs g _ _ ih => exact ih.cons _

theorem greedy_size (m : Nat) (cs : List (List Nat)) (g : List Edge) :
    ∀ d ∈ greedy m cs g, m > 0 → d.length ≤ m := by
  fun_induction greedy m cs g with
  | case1 => simp
  | case2 c cs g _ ih => exact ih
  | case3 c cs g h _ ih =>
    intro d hd hm
    rcases List.mem_cons.1 hd with rfl | hd
    · omega
    · exact ih d hd hm
  | case4 c cs g _ _ ih => exact ih

/-- every pair of every accepted clique was an edge of the working graph the loop started from -/
theorem greedy_pairs_present (m : Nat) (cs : List (List Nat)) (g : List Edge)
    (hn : ∀ c ∈ cs, c.Nodup) :
    ∀ d ∈ greedy m cs g, ∀ a b, HasPair d a b → hasEdge g a b = true := by
  fun_induction greedy m cs g with
  | case1 => simp
  | case2 c cs g _ ih => exact ih (fun c hc => hn c (List.mem_cons_of_mem _ hc))
  | case3 c cs g _ hp ih =>
    have hc := hn c List.mem_cons_self
    intro d hd a b hab
    rcases List.mem_cons.1 hd with rfl | hd
    · exact (allPairsPresent_iff g hc).1 hp a b hab
    · exact ((hasEdge_removePairs hc a b).1
        (ih (fun c hc => hn c (List.mem_cons_of_mem _ hc)) d hd a b hab)).1
  | case4 c cs g _ _ ih => exact ih (fun c hc => hn c (List.mem_cons_of_mem _ hc))

theorem greedy_disjoint (m : Nat) (cs : List (List Nat)) (g : List Edge)
    (hn : ∀ c ∈ cs, c.Nodup) :
    (greedy m cs g).Pairwise (fun c d => ∀ a b, HasPair c a b → ¬ HasPair d a b) := by
  fun_induction greedy m cs g with
  | case1 => exact List.Pairwise.nil
  | case2 c cs g _ ih => exact ih (fun c hc => hn c (List.mem_cons_of_mem _ hc))
  | case3 c cs g _ hp ih =>
    have hc := hn c List.mem_cons_self
    have hn' := fun c hc => hn c (List.mem_cons_of_mem _ hc)
    refine List.Pairwise.cons ?_ (ih hn')
    intro d hd a b hcab hdab
    exact ((hasEdge_removePairs hc a b).1 (greedy_pairs_present m cs _ hn' d hd a b hdab)).2 hcab
  | case4 c cs g _ _ ih => exact ih (fun c hc => hn c (List.mem_cons_of_mem _ hc))

/-- maximality invariant: a candidate within the size limit is accepted, or one of its pairs was missing
    from the starting graph, or one of its pairs is claimed by an accepted clique that is no smaller -/
theorem greedy_maximal_aux (m : Nat) (cs : List (List Nat)) (g : List Edge)
    (hn : ∀ c ∈ cs, c.Nodup) (hs : cs.Pairwise (fun a b => b.length ≤ a.length)) :
    ∀ d ∈ cs, ¬ (d.length > m ∧ m > 0) →
      d ∈ greedy m cs g ∨ ∃ a b, HasPair d a b ∧
        (hasEdge g a b = false ∨ ∃ d' ∈ greedy m cs g, d.length ≤ d'.length ∧ HasPair d' a b) := by
  fun_induction greedy m cs g with
  | case1 => simp
  | case2 c cs g hbig ih =>
    have hn' := fun c hc => hn c (List.mem_cons_of_mem _ hc)
    intro d hd hsz
    rcases List.mem_cons.1 hd with rfl | hd
    · exact absurd hbig hsz
    · exact ih hn' (List.pairwise_cons.1 hs).2 d hd hsz
  | case3 c cs g _ hp ih =>
    have hc := hn c List.mem_cons_self
    have hn' := fun c hc => hn c (List.mem_cons_of_mem _ hc)
    intro d hd hsz
    rcases List.mem_cons.1 hd with rfl | hd
    · exact Or.inl List.mem_cons_self
    · rcases ih hn' (List.pairwise_cons.1 hs).2 d hd hsz with h | ⟨a, b, hab, h | ⟨d', hd', hl, hd'ab⟩⟩
      · exact Or.inl (List.mem_cons_of_mem _ h)
      · refine Or.inr ⟨a, b, hab, ?_⟩
        by_cases hg : hasEdge g a b = true
        · have : HasPair c a b := by
            apply Classical.byContradiction
            intro hcab
            have := (hasEdge_removePairs hc a b).2 ⟨hg, hcab⟩
            simp [h] at this
          exact Or.inr ⟨c, List.mem_cons_self, (List.pairwise_cons.1 hs).1 d hd, this⟩
        · exact Or.inl (by simpa using hg)
      · exact Or.inr ⟨a, b, hab, Or.inr ⟨d', List.mem_cons_of_mem _ hd', hl, hd'ab⟩⟩
  | case4 c cs g _ hp ih =>
    have hc := hn c List.mem_cons_self
    have hn' := fun c hc => hn c (List.mem_cons_of_mem _ hc)
    intro d hd hsz
    rcases List.mem_cons.1 hd with rfl | hd
    · right
      have : ¬ ∀ a b, HasPair d a b → hasEdge g a b = true :=
        fun h => hp ((allPairsPresent_iff g hc).2 h)
      simp only [Classical.not_forall] at this
      obtain ⟨a, b, hab, hg⟩ := this
      exact ⟨a, b, hab, Or.inl (by simpa using hg)⟩
    · exact ih hn' (List.pairwise_cons.1 hs).2 d hd hsz


/-! ### the labelling loop -/

/-- key `k` is written by the labelling pass of `c` -/
def Claims (c : List Nat) (k : Edge) : Prop := ∃ p ∈ pairs c, normE p = k

/-- one iteration of the outer labelling loop -/
def labelStep (d : List (Edge × Lab)) (x : List Nat × Nat) : List (Edge × Lab) :=
  (pairs x.1).foldl (fun d e => Dict.set d (normE e) ⟨x.1.length, x.1, x.2⟩) d

theorem labelMap_eq (cov : List (List Nat)) : labelMap cov = cov.zipIdx.foldl labelStep [] := rfl

theorem get_foldl_set_not (ps : List Edge) (v : Lab) (d : List (Edge × Lab)) (k : Edge)
    (h : ∀ p ∈ ps, normE p ≠ k) :
    Dict.get (ps.foldl (fun d e => Dict.set d (normE e) v) d) k = Dict.get d k := by
  induction ps generalizing d with
  | nil => rfl
  | cons e ps ih =>
    rw [List.foldl_cons, ih _ (fun p hp => h p (List.mem_cons_of_mem _ hp)),
      Dict.get_set_ne _ _ (h e List.mem_cons_self)]

theorem get_foldl_set (ps : List Edge) (v : Lab) (d : List (Edge × Lab)) (k : Edge)
    (h : ∃ p ∈ ps, normE p = k) :
    Dict.get (ps.foldl (fun d e => Dict.set d (normE e) v) d) k = some v := by
  induction ps generalizing d with
  | nil => simp at h
  | cons e ps ih =>
    rw [List.foldl_cons]
    by_cases h' : ∃ p ∈ ps, normE p = k
    · exact ih _ h'
    · rw [get_foldl_set_not ps v _ k (fun p hp e => h' ⟨p, hp, e⟩)]
      obtain ⟨p, hp, hpk⟩ := h
      rcases List.mem_cons.1 hp with rfl | hp
      · rw [hpk, Dict.get_set_self]
      · exact absurd ⟨p, hp, hpk⟩ h'

theorem get_labelStep_not (d : List (Edge × Lab)) (x : List Nat × Nat) (k : Edge) (h : ¬ Claims x.1 k) :
    Dict.get (labelStep d x) k = Dict.get d k :=
  get_foldl_set_not _ _ _ _ (fun p hp e => h ⟨p, hp, e⟩)

theorem get_labelStep (d : List (Edge × Lab)) (x : List Nat × Nat) (k : Edge) (h : Claims x.1 k) :
    Dict.get (labelStep d x) k = some ⟨x.1.length, x.1, x.2⟩ :=
  get_foldl_set _ _ _ _ h

theorem get_foldl_labelStep_not (xs : List (List Nat × Nat)) (d : List (Edge × Lab)) (k : Edge)
    (h : ∀ x ∈ xs, ¬ Claims x.1 k) : Dict.get (xs.foldl labelStep d) k = Dict.get d k := by
  induction xs generalizing d with
  | nil => rfl
  | cons y ys ih =>
    rw [List.foldl_cons, ih _ (fun x hx => h x (List.mem_cons_of_mem _ hx)),
      get_labelStep_not _ _ _ (h y List.mem_cons_self)]

theorem get_foldl_labelStep (xs : List (List Nat × Nat)) (d : List (Edge × Lab)) (k : Edge)
    (hp : xs.Pairwise (fun x y => Claims x.1 k → ¬ Claims y.1 k))
    (x : List Nat × Nat) (hx : x ∈ xs) (hc : Claims x.1 k) :
    Dict.get (xs.foldl labelStep d) k = some ⟨x.1.length, x.1, x.2⟩ := by
  induction xs generalizing d with
  | nil => simp at hx
  | cons y ys ih =>
    rw [List.foldl_cons]
    rw [List.pairwise_cons] at hp
    rcases List.mem_cons.1 hx with rfl | hx
    · rw [get_foldl_labelStep_not ys _ k (fun z hz => hp.1 z hz hc), get_labelStep _ _ _ hc]
    · exact ih _ hp.2 hx

/-- every stored label was written by some iteration (or was there before) -/
theorem get_foldl_labelStep_sound (xs : List (List Nat × Nat)) (d : List (Edge × Lab)) (k : Edge) (l : Lab)
    (h : Dict.get (xs.foldl labelStep d) k = some l) :
    Dict.get d k = some l ∨ ∃ x ∈ xs, Claims x.1 k ∧ l = ⟨x.1.length, x.1, x.2⟩ := by
  induction xs generalizing d with
  | nil => exact Or.inl h
  | cons y ys ih =>
    rw [List.foldl_cons] at h
    rcases ih _ h with h' | ⟨x, hx, hc, hl⟩
    · by_cases hy : Claims y.1 k
      · rw [get_labelStep _ _ _ hy] at h'
        exact Or.inr ⟨y, List.mem_cons_self, hy, (Option.some.inj h').symm⟩
      · rw [get_labelStep_not _ _ _ hy] at h'
        exact Or.inl h'
    · exact Or.inr ⟨x, List.mem_cons_of_mem _ hx, hc, hl⟩

theorem claims_normE_iff {c : List Nat} (hc : c.Nodup) (a b : Nat) :
    Claims c (normE (a, b)) ↔ HasPair c a b := claims_iff hc a b

theorem claims_exists {c : List Nat} (hc : c.Nodup) {k : Edge} (h : Claims c k) :
    ∃ a b, HasPair c a b ∧ k = normE (a, b) := by
  obtain ⟨p, hp, rfl⟩ := h
  exact ⟨p.1, p.2, (claims_iff hc p.1 p.2).1 ⟨p, hp, rfl⟩, rfl⟩

/-- all pairs of the clique at position `id` of an edge-disjoint list carry its label -/
theorem labelMap_complete (cov : List (List Nat)) (hn : ∀ c ∈ cov, c.Nodup)
    (hd : cov.Pairwise (fun c d => ∀ a b, HasPair c a b → ¬ HasPair d a b))
    {id : Nat} {c : List Nat} (hc : cov[id]? = some c) {a b : Nat} (hab : HasPair c a b) :
    Dict.get (labelMap cov) (normE (a, b)) = some ⟨c.length, c, id⟩ := by
  rw [labelMap_eq]
  have hcm : c ∈ cov := List.mem_iff_getElem?.2 ⟨id, hc⟩
  refine get_foldl_labelStep cov.zipIdx [] _ ?_ (c, id) (List.mem_zipIdx_iff_getElem?.2 hc)
    ((claims_normE_iff (hn c hcm) a b).2 hab)
  have : (cov.zipIdx.map Prod.fst).Pairwise (fun c d => ∀ a b, HasPair c a b → ¬ HasPair d a b) := by
    rw [List.zipIdx_map_fst]; exact hd
  rw [List.pairwise_map] at this
  refine this.imp_of_mem ?_
  intro x y hx hy hxy h1 h2
  have hxn := hn x.1 (List.mem_iff_getElem?.2 ⟨x.2, List.mem_zipIdx_iff_getElem?.1 hx⟩)
  have hyn := hn y.1 (List.mem_iff_getElem?.2 ⟨y.2, List.mem_zipIdx_iff_getElem?.1 hy⟩)
  exact hxy a b ((claims_normE_iff hxn a b).1 h1) ((claims_normE_iff hyn a b).1 h2)

/-- every stored label is `(len c, c, position of c)` for a listed clique `c` one of whose pairs has this key -/
theorem labelMap_sound (cov : List (List Nat)) (hn : ∀ c ∈ cov, c.Nodup) {k : Edge} {l : Lab}
    (h : Dict.get (labelMap cov) k = some l) :
    cov[l.id]? = some l.members ∧ l.size = l.members.length ∧
      ∃ a b, HasPair l.members a b ∧ k = normE (a, b) := by
  rw [labelMap_eq] at h
  rcases get_foldl_labelStep_sound _ _ _ _ h with h' | ⟨x, hx, hc, rfl⟩
  · simp [Dict.get] at h'
  · have hx' := List.mem_zipIdx_iff_getElem?.1 hx
    exact ⟨hx', rfl, claims_exists (hn x.1 (List.mem_iff_getElem?.2 ⟨x.2, hx'⟩)) hc⟩

theorem pairwise_getElem? {α : Type} {R : α → α → Prop} {l : List α} (h : l.Pairwise R)
    {i j : Nat} {x y : α} (hi : l[i]? = some x) (hj : l[j]? = some y) (hij : i < j) : R x y := by
  obtain ⟨hi', rfl⟩ := List.getElem?_eq_some_iff.1 hi
  obtain ⟨hj', rfl⟩ := List.getElem?_eq_some_iff.1 hj
  exact List.pairwise_iff_getElem.1 h i j hi' hj' hij


/-! ### brute-force clique enumeration satisfies the `Enumerates` contract -/

theorem mem_sublists {l xs : List Nat} : l ∈ sublists xs ↔ l.Sublist xs := by
  induction xs generalizing l with
  | nil => simp [sublists]
  | cons x xs ih =>
    simp only [sublists, List.mem_append, List.mem_map]
    constructor
    · rintro (h | ⟨l', h, rfl⟩)
      · exact (ih.1 h).cons _
      · exact (ih.1 h).cons_cons _
    · intro h
      cases h
      next h => exact Or.inl (ih.2 h)
      next l' h => exact Or.inr ⟨_, ih.2 h, rfl⟩

theorem isClique_of_pairs {es : List Edge} {c : List Nat} (hc : c.Nodup)
    (h : (pairs c).all (fun e => hasEdge es e.1 e.2) = true) : IsClique es c :=
  ⟨hc, fun a ha b hb hab => (allPairsPresent_iff es hc).1 h a b ⟨ha, hb, hab⟩⟩

theorem exists_other {c : List Nat} (hc : c.Nodup) (hl : 2 ≤ c.length) (a : Nat) :
    ∃ b ∈ c, a ≠ b := by
  match c, hc, hl with
  | x :: y :: r, hc, _ =>
    have hxy : x ≠ y := by
      intro e; subst e; simp at hc
    by_cases h : a = x
    · exact ⟨y, by simp, h ▸ hxy⟩
    · exact ⟨x, by simp, h⟩

theorem allCliques_enumerates_lem (es : List Edge) (nodes : List Nat) (hnod : nodes.Nodup)
    (hv : ∀ e ∈ es, e.1 ∈ nodes ∧ e.2 ∈ nodes) : Enumerates es (allCliques es nodes) := by
  constructor
  · intro c hc
    simp only [allCliques, List.mem_filter, decide_eq_true_eq] at hc
    exact isClique_of_pairs ((mem_sublists.1 hc.1).nodup hnod) hc.2.2
  · intro c hc hl
    have hsub : ∀ a ∈ c, a ∈ nodes := by
      intro a ha
      obtain ⟨b, hb, hab⟩ := exists_other hc.1 hl a
      rcases (hasEdge_iff es a b).1 (hc.2 a ha b hb hab) with h | h
      · exact (hv _ h).1
      · exact (hv _ h).2
    have hdn : (nodes.filter (· ∈ c)).Nodup := (List.filter_sublist).nodup hnod
    have hperm : (nodes.filter (· ∈ c)).Perm c := by
      rw [List.perm_ext_iff_of_nodup hdn hc.1]
      intro a
      simp only [List.mem_filter, decide_eq_true_eq]
      exact ⟨fun h => h.2, fun h => ⟨hsub a h, h⟩⟩
    refine ⟨_, ?_, hperm⟩
    simp only [allCliques, List.mem_filter, decide_eq_true_eq]
    refine ⟨mem_sublists.2 List.filter_sublist, ?_, ?_⟩
    · intro h
      have := hperm.length_eq
      rw [h] at this
      simp at this
      omega
    · refine (allPairsPresent_iff es hdn).2 ?_
      intro a b hab
      have hab' := (hasPair_perm hperm a b).1 hab
      exact hc.2 a hab'.1 b hab'.2.1 hab'.2.2

end Gcmpy.MPCC
