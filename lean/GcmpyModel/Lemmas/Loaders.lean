import GcmpyModel.Model.Loaders
import GcmpyModel.Lemmas.Dict
import Mathlib.Algebra.Order.Field.Rat
import Mathlib.Data.List.Forall2
import Mathlib.Data.List.Nodup
import Mathlib.Algebra.BigOperators.Group.List.Basic
/-!
Helper lemmas for property C06 (deterministic joint-degree loaders).
Model: `GcmpyModel/Model/Loaders.lean`.  The property statements live in `GcmpyModel/Properties/C06.lean`.
-/
namespace Gcmpy.Loaders
open Gcmpy

/-! ## folds, sums, products -/

theorem foldl_add_eq_sum (l : List Rat) : l.foldl (· + ·) 0 = l.sum := by
  have h : ∀ (l : List Rat) (a : Rat), l.foldl (· + ·) a = a + l.sum := by
    intro l
    induction l with
    | nil => intro a; simp
    | cons x xs ih => intro a; simp only [List.foldl_cons, List.sum_cons, ih]; rw [add_assoc]
  rw [h l 0, zero_add]

theorem foldl_mul_eq_prod (l : List Rat) : l.foldl (· * ·) 1 = l.prod := by
  have h : ∀ (l : List Rat) (a : Rat), l.foldl (· * ·) a = a * l.prod := by
    intro l
    induction l with
    | nil => intro a; simp
    | cons x xs ih => intro a; simp only [List.foldl_cons, List.prod_cons, ih]; rw [mul_assoc]
  rw [h l 1, one_mul]

theorem sum_map_div {α : Type} (l : List α) (g : α → Rat) (z : Rat) :
    (l.map fun a => g a / z).sum = (l.map g).sum / z := by
  induction l with
  | nil => simp
  | cons x xs ih => simp only [List.map_cons, List.sum_cons, ih, add_div]

theorem sum_map_natCast {α : Type} (l : List α) (g : α → Nat) :
    (l.map fun a => ((g a : Nat) : Rat)).sum = (((l.map g).sum : Nat) : Rat) := by
  induction l with
  | nil => simp
  | cons x xs ih => simp only [List.map_cons, List.sum_cons, ih, Nat.cast_add]

theorem sum_map_nonneg {α : Type} (l : List α) (g : α → Rat) (h : ∀ a ∈ l, 0 ≤ g a) :
    0 ≤ (l.map g).sum := by
  induction l with
  | nil => simp
  | cons x xs ih =>
    simp only [List.map_cons, List.sum_cons]
    exact add_nonneg (h x List.mem_cons_self) (ih fun a ha => h a (List.mem_cons_of_mem _ ha))

theorem prod_map_nonneg {α : Type} (l : List α) (g : α → Rat) (h : ∀ a ∈ l, 0 ≤ g a) :
    0 ≤ (l.map g).prod := by
  induction l with
  | nil => simp
  | cons x xs ih =>
    simp only [List.map_cons, List.prod_cons]
    exact mul_nonneg (h x List.mem_cons_self) (ih fun a ha => h a (List.mem_cons_of_mem _ ha))

/-! ## dictionaries built by `map` -/

section
variable {κ ν μ : Type} [DecidableEq κ]

theorem get_map_val (d : List (κ × ν)) (f : κ → ν → μ) (k : κ) :
    Dict.get (d.map fun p => (p.1, f p.1 p.2)) k = (Dict.get d k).map (f k) := by
  induction d with
  | nil => simp [Dict.get]
  | cons x r ih =>
    obtain ⟨a, w⟩ := x
    by_cases h : a = k
    · subst h; simp [Dict.get]
    · simp only [List.map_cons, Dict.get, if_neg h]; exact ih

theorem get_map_key (ks : List κ) (g : κ → ν) (k : κ) :
    Dict.get (ks.map fun k => (k, g k)) k = if k ∈ ks then some (g k) else none := by
  induction ks with
  | nil => simp [Dict.get]
  | cons a r ih =>
    by_cases h : a = k
    · subst h; simp [Dict.get]
    · have h' : ¬ k = a := fun e => h e.symm
      simp only [List.map_cons, Dict.get, if_neg h, ih, List.mem_cons, h', false_or]

end

/-! ## `Counter` and the empirical table -/

theorem keys_update (d : List (JD × Nat)) (k : JD) :
    Dict.keys (Dict.update d k 0 (· + 1)) = if k ∈ Dict.keys d then Dict.keys d else Dict.keys d ++ [k] := by
  unfold Dict.update
  split
  · next h => exact Dict.keys_set_of_mem d k _ h
  · next h => exact Dict.keys_set_of_not_mem d k _ h

theorem keys_update_nodup (d : List (JD × Nat)) (k : JD) (h : (Dict.keys d).Nodup) :
    (Dict.keys (Dict.update d k 0 (· + 1))).Nodup := by
  rw [keys_update]
  split
  · exact h
  · next hk =>
    rw [List.nodup_append]
    refine ⟨h, by simp, ?_⟩
    intro a ha b hb
    simp only [List.mem_singleton] at hb
    subst hb
    intro e; subst e; exact hk ha

theorem counterFrom_keys_nodup (ys : List JD) (d : List (JD × Nat)) (h : (Dict.keys d).Nodup) :
    (Dict.keys (counterFrom ys d)).Nodup := by
  induction ys generalizing d with
  | nil => simpa [counterFrom] using h
  | cons y ys ih => simp only [counterFrom]; exact ih _ (keys_update_nodup d y h)

theorem get_counterFrom (ys : List JD) (d : List (JD × Nat)) (k : JD) :
    Dict.get (counterFrom ys d) k =
      if k ∈ ys ∨ k ∈ Dict.keys d then some (ys.count k + (Dict.get d k).getD 0) else none := by
  induction ys generalizing d with
  | nil =>
    simp only [counterFrom, List.not_mem_nil, false_or, List.count_nil, Nat.zero_add]
    split
    · next h =>
      have := (Dict.get_isSome_iff_mem_keys d k).2 h
      cases hg : Dict.get d k with
      | none => simp [hg] at this
      | some v => simp
    · next h => exact Dict.get_eq_none_of_not_mem d k h
  | cons y ys ih =>
    simp only [counterFrom, ih, Dict.update, Dict.mem_keys_set, Dict.get_set, List.mem_cons,
      List.count_cons]
    by_cases hyk : y = k
    · subst hyk
      simp only [true_or, or_true, if_true, beq_self_eq_true, Option.getD_some]
      congr 1; omega
    · have hky : ¬ k = y := fun e => hyk e.symm
      have hb : (y == k) = false := by simpa using hyk
      simp only [hky, false_or, if_neg hyk, hb, Bool.false_eq_true, if_false, Nat.add_zero]

theorem sum_vals_update (d : List (JD × Nat)) (k : JD) :
    ((Dict.update d k 0 (· + 1)).map (·.2)).sum = (d.map (·.2)).sum + 1 := by
  unfold Dict.update
  induction d with
  | nil => simp [Dict.set, Dict.get]
  | cons x r ih =>
    obtain ⟨a, w⟩ := x
    by_cases h : a = k
    · subst h; simp [Dict.set, Dict.get]; omega
    · simp only [Dict.set, Dict.get, if_neg h, List.map_cons, List.sum_cons, ih]; omega

theorem sum_vals_counterFrom (ys : List JD) (d : List (JD × Nat)) :
    ((counterFrom ys d).map (·.2)).sum = (d.map (·.2)).sum + ys.length := by
  induction ys generalizing d with
  | nil => simp [counterFrom]
  | cons y ys ih => simp only [counterFrom, ih, sum_vals_update, List.length_cons]; omega

theorem aux_get_counter (jds : List JD) (k : JD) :
    Dict.get (counter jds) k = if k ∈ jds then some (jds.count k) else none := by
  simp [counter, get_counterFrom, Dict.keys, Dict.get]

theorem aux_counter_keys_nodup (jds : List JD) : (Dict.keys (counter jds)).Nodup :=
  counterFrom_keys_nodup jds [] (by simp [Dict.keys])

theorem sum_vals_counter (jds : List JD) : ((counter jds).map (·.2)).sum = jds.length := by
  simp [counter, sum_vals_counterFrom]

theorem empirical_eq (jds : List JD) :
    empirical jds = (counter jds).map fun p => (p.1, ((p.2 : Nat) : Rat) / (jds.length : Rat)) := rfl

theorem aux_empirical_freq (jds : List JD) (k : JD) :
    Dict.get (empirical jds) k =
      if k ∈ jds then some ((jds.count k : Rat) / (jds.length : Rat)) else none := by
  rw [empirical_eq, get_map_val (counter jds) (fun _ c => ((c : Nat) : Rat) / (jds.length : Rat)) k,
    aux_get_counter]
  split <;> simp

theorem aux_empirical_nonneg (jds : List JD) : ∀ p ∈ empirical jds, 0 ≤ p.2 := by
  intro p hp
  rw [empirical_eq, List.mem_map] at hp
  obtain ⟨q, _, rfl⟩ := hp
  exact div_nonneg (Nat.cast_nonneg _) (Nat.cast_nonneg _)

theorem aux_empirical_sums_one (jds : List JD) (h : jds ≠ []) :
    ((empirical jds).map (·.2)).sum = 1 := by
  rw [empirical_eq, List.map_map]
  have e : ((fun p : JD × Rat => p.2) ∘ fun p : JD × Nat => (p.1, ((p.2 : Nat) : Rat) / (jds.length : Rat)))
      = fun p => ((p.2 : Nat) : Rat) / (jds.length : Rat) := rfl
  rw [e, sum_map_div (counter jds) (fun p => ((p.2 : Nat) : Rat)) (jds.length : Rat),
    sum_map_natCast (counter jds) (fun p => p.2), sum_vals_counter]
  have : (jds.length : Rat) ≠ 0 := by
    have : jds.length ≠ 0 := by simpa using h
    exact_mod_cast this
  exact div_self this

theorem empirical_keys (jds : List JD) : (empirical jds).map (·.1) = Dict.keys (counter jds) := by
  rw [empirical_eq, List.map_map]; rfl

theorem aux_empirical_support (jds : List JD) (k : JD) :
    k ∈ (empirical jds).map (·.1) ↔ k ∈ jds := by
  rw [empirical_keys, ← Dict.get_isSome_iff_mem_keys, aux_get_counter]
  split <;> simp_all

theorem aux_empirical_keys_nodup (jds : List JD) : ((empirical jds).map (·.1)).Nodup := by
  rw [empirical_keys]; exact aux_counter_keys_nodup jds

/-! ## ranges and `itertools.product` -/

theorem aux_mem_rangeAB (a b x : Nat) : x ∈ rangeAB a b ↔ a ≤ x ∧ x < b := by
  simp only [rangeAB, List.mem_map, List.mem_range]
  constructor
  · rintro ⟨y, hy, rfl⟩; omega
  · intro h; exact ⟨x - a, by omega, by omega⟩

theorem rangeAB_nodup (a b : Nat) : (rangeAB a b).Nodup :=
  List.Nodup.map (fun x y h => by simpa using h) List.nodup_range

theorem aux_mem_product (ks : List (List Nat)) (jd : JD) :
    jd ∈ product ks ↔ List.Forall₂ (fun x l => x ∈ l) jd ks := by
  induction ks generalizing jd with
  | nil => simp [product]
  | cons l rest ih =>
    simp only [product, List.mem_flatMap, List.mem_map]
    constructor
    · rintro ⟨k, hk, r, hr, rfl⟩; exact List.Forall₂.cons hk ((ih r).1 hr)
    · intro h
      cases h with
      | cons hk hr => exact ⟨_, hk, _, (ih _).2 hr, rfl⟩

theorem aux_product_nodup (ks : List (List Nat)) (h : ∀ l ∈ ks, l.Nodup) : (product ks).Nodup := by
  induction ks with
  | nil => simp [product]
  | cons l rest ih =>
    have hl : l.Nodup := h l List.mem_cons_self
    have hr : (product rest).Nodup := ih fun l' hl' => h l' (List.mem_cons_of_mem _ hl')
    simp only [product]
    rw [List.nodup_flatMap]
    refine ⟨fun x _ => List.Nodup.map (fun a b e => (List.cons.inj e).2) hr, ?_⟩
    refine List.Pairwise.imp ?_ hl
    intro a b hab
    simp only [Function.onFun]
    intro x hxa hxb
    rw [List.mem_map] at hxa hxb
    obtain ⟨r1, _, rfl⟩ := hxa
    obtain ⟨r2, _, e⟩ := hxb
    exact hab (List.cons.inj e).1.symm

/-- membership in a product of per-dimension lists described index-wise -/
theorem mem_product_box (g : Nat × Nat → List Nat) (bounds : List (Nat × Nat)) (k : JD) :
    k ∈ product (bounds.map g) ↔
      (k.length = bounds.length ∧ ∀ i (h : i < k.length), k[i] ∈ g (bounds.getD i (0, 0))) := by
  induction bounds generalizing k with
  | nil =>
    simp only [List.map_nil, product, List.mem_singleton, List.length_nil, List.length_eq_zero_iff]
    constructor
    · rintro rfl; exact ⟨rfl, fun i h => absurd h (by simp)⟩
    · exact fun h => h.1
  | cons b bs ih =>
    simp only [List.map_cons, product, List.mem_flatMap, List.mem_map]
    constructor
    · rintro ⟨x, hx, r, hr, rfl⟩
      obtain ⟨hlen, hall⟩ := (ih r).1 hr
      refine ⟨by simp [hlen], ?_⟩
      intro i hi
      cases i with
      | zero => simpa using hx
      | succ j =>
        have hj : j < r.length := by simpa using hi
        simpa using hall j hj
    · rintro ⟨hlen, hall⟩
      cases k with
      | nil => simp at hlen
      | cons x r =>
        refine ⟨x, ?_, r, (ih r).2 ⟨by simpa using hlen, ?_⟩, rfl⟩
        · have h0 := hall 0 (by simp)
          simpa using h0
        · intro i hi
          have h1 := hall (i + 1) (by simpa using hi)
          simpa using h1

/-! ## the marginal loader, direct mode -/

/-- keys of `create_jdd_directly`: product of the EXCLUSIVE ranges -/
def directKeys (bounds : List (Nat × Nat)) : List JD :=
  product (bounds.map fun (lo, hi) => rangeAB lo hi)

/-- the normalising total of `create_jdd_directly` -/
def directZ (fs : List (Nat → Rat)) (bounds : List (Nat × Nat)) : Rat :=
  ((directKeys bounds).map (marginalWeight fs)).sum

theorem aux_marginalWeight_eq_prod (fs : List (Nat → Rat)) (k : JD) :
    marginalWeight fs k = (k.zipIdx.map fun (d, i) => (fs.getD i (fun _ => 0)) d).prod := by
  unfold marginalWeight; exact foldl_mul_eq_prod _

theorem marginalWeight_nonneg (fs : List (Nat → Rat)) (h : ∀ f ∈ fs, ∀ x, 0 ≤ f x) (k : JD) :
    0 ≤ marginalWeight fs k := by
  rw [aux_marginalWeight_eq_prod]
  apply prod_map_nonneg
  rintro ⟨d, i⟩ _
  show 0 ≤ (fs.getD i (fun _ => 0)) d
  by_cases hi : i < fs.length
  · rw [List.getD_eq_getElem?_getD, List.getElem?_eq_getElem hi]; exact h _ (List.getElem_mem hi) d
  · rw [List.getD_eq_getElem?_getD, List.getElem?_eq_none (by omega)]; exact le_refl _

theorem normalise_eq (t : Table) :
    normalise t =
      if t = [] then .ok [] else
      if (t.map (·.2)).sum = 0 then .error .zeroDivision else
      .ok (t.map fun p => (p.1, p.2 / (t.map (·.2)).sum)) := by
  unfold normalise
  simp only [foldl_add_eq_sum, List.isEmpty_iff]
  split
  · next h => subst h; rfl
  · rfl

theorem marginalDirect_eq (fs : List (Nat → Rat)) (bounds : List (Nat × Nat)) :
    marginalDirect fs bounds =
      if directKeys bounds = [] then .ok [] else
      if directZ fs bounds = 0 then .error .zeroDivision else
      .ok ((directKeys bounds).map fun k => (k, marginalWeight fs k / directZ fs bounds)) := by
  have e1 : marginalDirect fs bounds
      = normalise ((directKeys bounds).map fun k => (k, marginalWeight fs k)) := rfl
  have e2 : (((directKeys bounds).map fun k => (k, marginalWeight fs k)).map (·.2)).sum
      = directZ fs bounds := by
    rw [List.map_map]; rfl
  rw [e1, normalise_eq, e2]
  simp only [List.map_eq_nil_iff, List.map_map]
  rfl

theorem marginalDirect_ok_cases {fs : List (Nat → Rat)} {bounds : List (Nat × Nat)} {t : Table}
    (h : marginalDirect fs bounds = .ok t) :
    (directKeys bounds = [] ∧ t = []) ∨
    (directKeys bounds ≠ [] ∧ directZ fs bounds ≠ 0 ∧
      t = (directKeys bounds).map fun k => (k, marginalWeight fs k / directZ fs bounds)) := by
  rw [marginalDirect_eq] at h
  split at h
  · next hk => left; exact ⟨hk, (Except.ok.inj h).symm⟩
  · next hk =>
    split at h
    · exact absurd h (by simp)
    · next hz => right; exact ⟨hk, hz, (Except.ok.inj h).symm⟩

theorem marginalDirect_keys {fs : List (Nat → Rat)} {bounds : List (Nat × Nat)} {t : Table}
    (h : marginalDirect fs bounds = .ok t) : t.map (·.1) = directKeys bounds := by
  rcases marginalDirect_ok_cases h with ⟨hk, rfl⟩ | ⟨_, _, rfl⟩
  · simp [hk]
  · rw [List.map_map]; simp [Function.comp_def]

theorem mem_directKeys (bounds : List (Nat × Nat)) (k : JD) :
    k ∈ directKeys bounds ↔
      (k.length = bounds.length ∧ ∀ i (h : i < k.length),
        (bounds.getD i (0, 0)).1 ≤ k[i] ∧ k[i] < (bounds.getD i (0, 0)).2) := by
  unfold directKeys
  rw [mem_product_box (fun (lo, hi) => rangeAB lo hi) bounds k]
  simp only [aux_mem_rangeAB]

theorem directKeys_nodup (bounds : List (Nat × Nat)) : (directKeys bounds).Nodup := by
  apply aux_product_nodup
  intro l hl
  rw [List.mem_map] at hl
  obtain ⟨b, _, rfl⟩ := hl
  exact rangeAB_nodup _ _

theorem aux_marginal_direct_value {fs : List (Nat → Rat)} {bounds : List (Nat × Nat)} {t : Table}
    (h : marginalDirect fs bounds = .ok t) (k : JD) (hk : k ∈ directKeys bounds) :
    Dict.get t k = some (marginalWeight fs k / directZ fs bounds) := by
  rcases marginalDirect_ok_cases h with ⟨hk0, _⟩ | ⟨_, _, rfl⟩
  · rw [hk0] at hk; simp at hk
  · rw [get_map_key (directKeys bounds) (fun k => marginalWeight fs k / directZ fs bounds) k, if_pos hk]

theorem aux_marginal_direct_sums_one {fs : List (Nat → Rat)} {bounds : List (Nat × Nat)} {t : Table}
    (h : marginalDirect fs bounds = .ok t) (hne : t ≠ []) : (t.map (·.2)).sum = 1 := by
  rcases marginalDirect_ok_cases h with ⟨_, ht⟩ | ⟨_, hz, rfl⟩
  · exact absurd ht hne
  · rw [List.map_map]
    have e : ((fun p : JD × Rat => p.2) ∘ fun k => (k, marginalWeight fs k / directZ fs bounds))
        = fun k => marginalWeight fs k / directZ fs bounds := rfl
    rw [e, sum_map_div]
    exact div_self hz

theorem directZ_nonneg (fs : List (Nat → Rat)) (bounds : List (Nat × Nat))
    (hf : ∀ f ∈ fs, ∀ x, 0 ≤ f x) : 0 ≤ directZ fs bounds :=
  sum_map_nonneg _ _ fun k _ => marginalWeight_nonneg fs hf k

theorem aux_marginal_direct_nonneg {fs : List (Nat → Rat)} {bounds : List (Nat × Nat)} {t : Table}
    (h : marginalDirect fs bounds = .ok t) (hf : ∀ f ∈ fs, ∀ x, 0 ≤ f x) :
    ∀ p ∈ t, 0 ≤ p.2 := by
  rcases marginalDirect_ok_cases h with ⟨_, rfl⟩ | ⟨_, _, rfl⟩
  · simp
  · intro p hp
    rw [List.mem_map] at hp
    obtain ⟨k, _, rfl⟩ := hp
    exact div_nonneg (marginalWeight_nonneg fs hf k) (directZ_nonneg fs bounds hf)

theorem aux_marginal_direct_zero (fs : List (Nat → Rat)) (bounds : List (Nat × Nat)) :
    marginalDirect fs bounds = .error .zeroDivision ↔
      (directKeys bounds ≠ [] ∧ directZ fs bounds = 0) := by
  rw [marginalDirect_eq]
  split
  · next hk => simp [hk]
  · next hk =>
    split
    · next hz => simp [hk, hz]
    · next hz => simp [hz]

/-! ## sampling mode -/

theorem sampledCalls_length (fs : List (Nat → Rat)) (bounds : List (Nat × Nat)) (n : Nat) :
    (sampledCalls fs bounds n).length = bounds.length := by
  simp [sampledCalls]

theorem aux_sampled_calls_aligned (fs : List (Nat → Rat)) (bounds : List (Nat × Nat)) (n i : Nat)
    (h : i < bounds.length) :
    (sampledCalls fs bounds n)[i]'(by rw [sampledCalls_length]; exact h) =
      (rangeAB bounds[i].1 (bounds[i].2 + 1),
       (rangeAB bounds[i].1 (bounds[i].2 + 1)).map (fs.getD i (fun _ => 0)),
       n) := by
  simp [sampledCalls, List.getElem_zipIdx]

/-! ## function loader -/

theorem functionLoader_keys (fp : JD → Rat) (bounds : List (Nat × Nat)) :
    (functionLoader fp bounds).map (·.1) = product (bounds.map fun (lo, hi) => rangeAB lo (hi + 1)) := by
  unfold functionLoader
  rw [List.map_map]; simp [Function.comp_def]

theorem aux_function_support (fp : JD → Rat) (bounds : List (Nat × Nat)) (k : JD) :
    k ∈ (functionLoader fp bounds).map (·.1) ↔
      (k.length = bounds.length ∧ ∀ i (h : i < k.length),
        (bounds.getD i (0, 0)).1 ≤ k[i] ∧ k[i] ≤ (bounds.getD i (0, 0)).2) := by
  rw [functionLoader_keys, mem_product_box (fun (lo, hi) => rangeAB lo (hi + 1)) bounds k]
  simp only [aux_mem_rangeAB, Nat.lt_succ_iff]

theorem aux_function_value (fp : JD → Rat) (bounds : List (Nat × Nat)) (p : JD × Rat)
    (h : p ∈ functionLoader fp bounds) : p.2 = fp p.1 := by
  unfold functionLoader at h
  rw [List.mem_map] at h
  obtain ⟨k, _, rfl⟩ := h
  rfl

theorem functionLoader_keys_nodup (fp : JD → Rat) (bounds : List (Nat × Nat)) :
    ((functionLoader fp bounds).map (·.1)).Nodup := by
  rw [functionLoader_keys]
  apply aux_product_nodup
  intro l hl
  rw [List.mem_map] at hl
  obtain ⟨b, _, rfl⟩ := hl
  exact rangeAB_nodup _ _

theorem aux_function_get (fp : JD → Rat) (bounds : List (Nat × Nat)) (k : JD)
    (hk : k ∈ (functionLoader fp bounds).map (·.1)) : Dict.get (functionLoader fp bounds) k = some (fp k) := by
  rw [functionLoader_keys] at hk
  unfold functionLoader
  rw [get_map_key _ fp k, if_pos hk]

end Gcmpy.Loaders
