import Mathlib.Data.Nat.Choose.Basic
import Mathlib.Data.Nat.Choose.Sum
import Mathlib.Data.Finset.Sort
import Mathlib.Data.Finset.Max
import Mathlib.Algebra.BigOperators.NatAntidiagonal
import Mathlib.Algebra.BigOperators.Intervals
import Mathlib.Combinatorics.SimpleGraph.Acyclic
import GcmpyModel.Lemmas.ClosedForms
import GcmpyModel.Lemmas.AutomatedExact
import GcmpyModel.Lemmas.Percolation
/-
Lemmas for property C16, counting part: the memo table `Qgen` (Model/ClosedForms.lean) computes the Harary–Palmer
recursion (`Qgen_rec`), and the number of connected labelled graphs satisfies it (`hp_identity`).
-/

namespace Gcmpy.ClosedForms
open Gcmpy Gcmpy.Graph Gcmpy.Automated

/-! ## A. the memo table computes the Harary–Palmer recursion -/

theorem fact_eq_factorial : ∀ n, fact n = n.factorial
  | 0 => rfl
  | n+1 => by rw [fact, fact_eq_factorial n, Nat.factorial_succ]

/-- the model's `binomial` (factorial quotient) is `Nat.choose` -/
theorem binomial_eq_choose (n k : Nat) : binomial n k = n.choose k := by
  unfold binomial
  split
  · rename_i h; rw [Nat.choose_eq_zero_of_lt h]
  · rename_i h
    rw [fact_eq_factorial, fact_eq_factorial, fact_eq_factorial, Nat.div_div_eq_div_mul,
      Nat.choose_eq_factorial_div_factorial (by omega)]

theorem foldl_sub_range (f : Nat → Int) (a : Int) :
    ∀ n, (List.range n).foldl (fun acc i => acc - f i) a = a - ∑ i ∈ Finset.range n, f i
  | 0 => by simp
  | n+1 => by
    rw [List.range_succ, List.foldl_append, foldl_sub_range f a n, Finset.sum_range_succ]
    simp only [List.foldl_cons, List.foldl_nil]; ring

theorem Qgen_zero_below (n k : Nat) (h : k + 1 < n) : Qgen n k = 0 := by
  obtain ⟨m, rfl⟩ : ∃ m, n = m + 1 := ⟨n - 1, by omega⟩
  rw [Qgen_succ_eq_qEntryGen]
  unfold qEntryGen
  have : k < m + 1 - 1 := by omega
  simp only [this, true_or, if_true]

theorem Qgen_zero_outside (n k : Nat) (h1 : 1 ≤ n) (h : k > n * (n - 1) / 2) : Qgen n k = 0 := by
  obtain ⟨m, rfl⟩ : ∃ m, n = m + 1 := ⟨n - 1, by omega⟩
  rw [Qgen_succ_eq_qEntryGen]; exact qEntryGen_eq_zero_of_gt h

/-- lookups in the rows below are values of `Qgen` -/
theorem qTableGen_lookup {n m : Nat} (hm : m < n) (j : Nat) :
    ((qTableGen n).getD m []).getD j 0 = Qgen (m + 1) j := by
  unfold Qgen
  rw [Nat.add_sub_cancel, qTableGen_getD_of_le (n := m + 1) (m := n) (by omega) (by omega)]

/-- **the table realises the Harary–Palmer recursion** (all `n ≥ 1`, all `k` in the non-trivial range) -/
theorem Qgen_rec (n k : Nat) (hn : 1 ≤ n) (hk1 : n - 1 ≤ k) (hk2 : k ≤ n * (n - 1) / 2) :
    Qgen n k = ((n.choose 2).choose k : Int)
      - ∑ m ∈ Finset.range (n - 1), ((n - 1).choose m : Int) *
          ∑ p ∈ Finset.range (k + 1), (((n - 1 - m).choose 2).choose p : Int) * Qgen (m + 1) (k - p) := by
  obtain ⟨N, rfl⟩ : ∃ N, n = N + 1 := ⟨n - 1, by omega⟩
  rw [Qgen_succ_eq_qEntryGen]
  unfold qEntryGen
  simp only [Nat.add_sub_cancel] at hk1 hk2 ⊢
  have h1 : ¬ (k < N ∨ k > (N + 1) * N / 2) := by omega
  simp only [h1, if_false]
  rw [foldl_sub_range, binomial_eq_choose, Nat.choose_two_right, Nat.add_sub_cancel]
  congr 1
  apply Finset.sum_congr rfl
  intro m hm
  have hmN : m < N := Finset.mem_range.1 hm
  rw [binomial_eq_choose]
  congr 1
  rw [List.foldl_map, foldl_add_range, zero_add]
  have hnp : (N - m) * (N + 1 - 2 - m) / 2 = (N - m).choose 2 := by
    rw [Nat.choose_two_right]; congr 2; omega
  simp only [hnp, binomial_eq_choose, qTableGen_lookup hmN]
  -- re-index
  set lb := k - (m + 1) * m / 2 with hlb
  have e1 : ∑ i ∈ Finset.range (k - m + 1 - lb), (((N - m).choose 2).choose (i + lb) : Int) * Qgen (m + 1) (k - (i + lb))
      = ∑ p ∈ Finset.Ico lb (k - m + 1), (((N - m).choose 2).choose p : Int) * Qgen (m + 1) (k - p) := by
    rw [Finset.sum_Ico_eq_sum_range]
    apply Finset.sum_congr rfl; intro i _; rw [Nat.add_comm]
  rw [e1]
  apply Finset.sum_subset
  · intro p hp; simp only [Finset.mem_Ico, Finset.mem_range] at hp ⊢; omega
  · intro p hp hp'
    simp only [Finset.mem_Ico, Finset.mem_range, not_and, not_lt] at hp hp'
    by_cases hpl : lb ≤ p
    · have := hp' hpl
      rw [Qgen_zero_below _ _ (by omega), mul_zero]
    · rw [Qgen_zero_outside _ _ (by omega) (by simp only [Nat.add_sub_cancel]; omega), mul_zero]

end Gcmpy.ClosedForms

open Finset BigOperators

namespace Gcmpy.HP
open Gcmpy.Perc

/-! ## B. connected graphs on a finite vertex set, as finsets of ordered pairs `a < b` -/

/-- the graph `(S, A)` is connected -/
def Conn {V : Type} (S : Finset V) (A : Finset (V × V)) : Prop := ∀ u ∈ S, ∀ v ∈ S, Reach A u v

section basic
variable {V : Type} [LinearOrder V]

/-- the edges of the complete graph on `S`: pairs `(a, b)` with `a < b` -/
def pairs (S : Finset V) : Finset (V × V) := (S ×ˢ S).filter fun e => e.1 < e.2

theorem mem_pairs {S : Finset V} {e : V × V} : e ∈ pairs S ↔ e.1 ∈ S ∧ e.2 ∈ S ∧ e.1 < e.2 := by
  simp only [pairs, mem_filter, mem_product, and_assoc]

theorem pairs_mono {S T : Finset V} (h : S ⊆ T) : pairs S ⊆ pairs T := by
  intro e he
  rw [mem_pairs] at he ⊢
  exact ⟨h he.1, h he.2.1, he.2.2⟩

theorem pairs_insert_max (a : V) (S : Finset V) (h : ∀ x ∈ S, x < a) :
    pairs (insert a S) = pairs S ∪ S.image (fun x => (x, a)) := by
  ext ⟨x, y⟩
  simp only [mem_pairs, mem_insert, mem_union, mem_image, Prod.mk.injEq]
  constructor
  · rintro ⟨hx | hx, hy | hy, hlt⟩
    · subst hx; subst hy; exact absurd hlt (lt_irrefl _)
    · subst hx; exact absurd hlt (lt_asymm (h y hy))
    · subst hy; exact Or.inr ⟨x, hx, rfl, rfl⟩
    · exact Or.inl ⟨hx, hy, hlt⟩
  · rintro (⟨hx, hy, hlt⟩ | ⟨z, hz, rfl, rfl⟩)
    · exact ⟨Or.inr hx, Or.inr hy, hlt⟩
    · exact ⟨Or.inr hz, Or.inl rfl, h z hz⟩

/-- `K_S` has `C(|S|, 2)` edges -/
theorem card_pairs (S : Finset V) : (pairs S).card = S.card.choose 2 := by
  induction S using Finset.induction_on_max with
  | empty => rfl
  | insert a S h ih =>
    have ha : a ∉ S := fun ha => lt_irrefl _ (h a ha)
    rw [pairs_insert_max a S h, card_union_of_disjoint, ih, card_insert_of_notMem ha,
      card_image_of_injective _ (fun x y hxy => (Prod.mk.inj hxy).1), Nat.choose_succ_succ, Nat.choose_one_right,
      Nat.add_comm]
    rw [Finset.disjoint_left]
    intro e he he'
    obtain ⟨z, _, rfl⟩ := mem_image.1 he'
    exact ha (mem_pairs.1 he).2.1

open Classical in
/-- number of connected graphs with vertex set `S` and `k` edges -/
noncomputable def cc (S : Finset V) (k : ℕ) : ℕ := (((pairs S).powersetCard k).filter (Conn S)).card

end basic

theorem Reach.symm {V : Type} {A : Finset (V × V)} {a b : V} (h : Reach A a b) : Reach A b a := by
  induction h with
  | refl => exact Relation.ReflTransGen.refl
  | tail _ hbc ih => exact Relation.ReflTransGen.head (Or.symm hbc) ih

theorem Reach.trans {V : Type} {A : Finset (V × V)} {a b c : V} (h : Reach A a b) (h' : Reach A b c) : Reach A a c :=
  Relation.ReflTransGen.trans h h'

theorem conn_iff_root {V : Type} {S : Finset V} {A : Finset (V × V)} {r : V} (hr : r ∈ S) :
    Conn S A ↔ ∀ v ∈ S, Reach A r v :=
  ⟨fun h v hv => h r hr v hv, fun h u hu v hv => Reach.trans (Reach.symm (h u hu)) (h v hv)⟩

section basic2
variable {V : Type} [LinearOrder V]

theorem inner_pairs {Vs S : Finset V} (h : S ⊆ Vs) : inner (pairs Vs) S = pairs S := by
  ext e
  simp only [inner, mem_filter, mem_pairs]
  constructor
  · rintro ⟨⟨_, _, hlt⟩, h1, h2⟩; exact ⟨h1, h2, hlt⟩
  · rintro ⟨h1, h2, hlt⟩; exact ⟨⟨h h1, h h2, hlt⟩, h1, h2⟩

theorem outer_pairs (Vs S : Finset V) : outer (pairs Vs) S = pairs (Vs \ S) := by
  ext e
  simp only [outer, mem_filter, mem_pairs, mem_sdiff]
  tauto

theorem pairs_ends {Vs : Finset V} {A : Finset (V × V)} (hA : A ⊆ pairs Vs) :
    ∀ e ∈ A, e.1 ∈ Vs ∧ e.2 ∈ Vs := fun _ he =>
  ⟨(mem_pairs.1 (hA he)).1, (mem_pairs.1 (hA he)).2.1⟩

end basic2


section fiber
variable {V : Type} [DecidableEq V]

theorem outer_union (E : Finset (V × V)) (S : Finset V) {F O : Finset (V × V)}
    (hF : F ⊆ inner E S) (hO : O ⊆ outer E S) : outer (F ∪ O) S = O := by
  ext e
  simp only [outer, mem_filter, mem_union]
  constructor
  · rintro ⟨h | h, h2⟩
    · have := hF h; simp only [inner, mem_filter] at this; tauto
    · exact h
  · intro h; have := hO h; simp only [outer, mem_filter] at this; tauto

theorem disjoint_inner_outer (E : Finset (V × V)) (S : Finset V) {F O : Finset (V × V)}
    (hF : F ⊆ inner E S) (hO : O ⊆ outer E S) : Disjoint F O := by
  rw [Finset.disjoint_left]; intro e h1 h2
  have h1 := hF h1; have h2 := hO h2
  simp only [inner, outer, mem_filter] at h1 h2; tauto

theorem inner_subset_of_subset {A E : Finset (V × V)} (h : A ⊆ E) (S : Finset V) : inner A S ⊆ inner E S := by
  intro e he; simp only [inner, mem_filter] at he ⊢; exact ⟨h he.1, he.2⟩

theorem outer_subset_of_subset {A E : Finset (V × V)} (h : A ⊆ E) (S : Finset V) : outer A S ⊆ outer E S := by
  intro e he; simp only [outer, mem_filter] at he ⊢; exact ⟨h he.1, he.2⟩

open Classical in
/-- the edge sets with `k` edges in which the component of `r` is `S` are the disjoint unions of a spanning
connected edge set inside `S` and an arbitrary edge set outside `S` -/
theorem fiber_card (Vs : Finset V) (E : Finset (V × V)) (hE : ∀ e ∈ E, e.1 ∈ Vs ∧ e.2 ∈ Vs) (r : V)
    (S : Finset V) (hr : r ∈ S) (k : ℕ) :
    ((E.powersetCard k).filter (fun A => comp Vs A r = S)).card
      = ∑ ij ∈ antidiagonal k, (outer E S).card.choose ij.1 *
          (((inner E S).powersetCard ij.2).filter (fun F => comp Vs F r = S)).card := by
  have hsub : ∀ {A : Finset (V × V)}, A ⊆ E → ∀ e ∈ A, e.1 ∈ Vs ∧ e.2 ∈ Vs :=
    fun hA e he => hE e (hA he)
  set T := ((((inner E S).powerset.filter (fun F => comp Vs F r = S)) ×ˢ (outer E S).powerset).filter
    (fun x => x.2.card + x.1.card = k)) with hT
  have step1 : ((E.powersetCard k).filter (fun A => comp Vs A r = S)).card = T.card := by
    refine Finset.card_nbij' (fun A => (inner A S, outer A S)) (fun x => x.1 ∪ x.2) ?_ ?_ ?_ ?_
    · intro A h
      simp only [mem_coe, mem_filter, mem_powersetCard] at h
      obtain ⟨⟨hA, hk⟩, hc⟩ := h
      rw [comp_eq_iff Vs _ (hsub hA) _ _ hr] at hc
      have hp := part_E A S
      rw [hc.1, Finset.empty_union] at hp
      simp only [hT, mem_coe, mem_product, mem_filter, mem_powerset]
      refine ⟨⟨⟨inner_subset_of_subset hA S, hc.2⟩, outer_subset_of_subset hA S⟩, ?_⟩
      rw [Nat.add_comm, ← card_union_of_disjoint
        (disjoint_inner_outer A S (Finset.Subset.refl _) (Finset.Subset.refl _)), ← hp, hk]
    · rintro ⟨F, O⟩ h
      simp only [hT, mem_coe, mem_product, mem_filter, mem_powerset] at h
      obtain ⟨⟨⟨hF, hc⟩, hO⟩, hk⟩ := h
      have hFOE : F ∪ O ⊆ E := by
        rw [part_E E S]
        exact Finset.union_subset_union hF (hO.trans Finset.subset_union_right)
      simp only [mem_coe, mem_filter, mem_powersetCard]
      refine ⟨⟨hFOE, ?_⟩, ?_⟩
      · rw [card_union_of_disjoint (disjoint_inner_outer E S hF hO), Nat.add_comm, hk]
      · rw [comp_eq_iff Vs _ (hsub hFOE) _ _ hr, bdry_union E S hF hO, inner_union E S hF hO]
        exact ⟨rfl, hc⟩
    · intro A h
      simp only [mem_coe, mem_filter, mem_powersetCard] at h
      obtain ⟨⟨hA, hk⟩, hc⟩ := h
      rw [comp_eq_iff Vs _ (hsub hA) _ _ hr] at hc
      have hp := part_E A S
      rw [hc.1, Finset.empty_union] at hp
      exact hp.symm
    · rintro ⟨F, O⟩ h
      simp only [hT, mem_coe, mem_product, mem_filter, mem_powerset] at h
      obtain ⟨⟨⟨hF, hc⟩, hO⟩, hk⟩ := h
      simp only [inner_union E S hF hO, outer_union E S hF hO]
  rw [step1, Finset.card_eq_sum_card_fiberwise (f := fun x => (x.2.card, x.1.card)) (t := antidiagonal k)
    (fun x hx => by
      simp only [hT, mem_coe, mem_filter] at hx
      simpa using hx.2)]
  apply Finset.sum_congr rfl
  rintro ⟨i, j⟩ hij
  rw [mem_antidiagonal] at hij
  rw [← card_powersetCard, Nat.mul_comm, ← card_product]
  congr 1
  ext ⟨F, O⟩
  simp only [hT, mem_filter, mem_product, mem_powerset, mem_powersetCard, Prod.mk.injEq]
  constructor
  · rintro ⟨⟨⟨⟨hF, hc⟩, hO⟩, _⟩, hi, hj⟩; exact ⟨⟨⟨hF, hj⟩, hc⟩, hO, hi⟩
  · rintro ⟨⟨⟨hF, hj⟩, hc⟩, hO, hi⟩; exact ⟨⟨⟨⟨hF, hc⟩, hO⟩, by omega⟩, hi, hj⟩

end fiber

section relabel
variable {V W : Type}

theorem adj_map (f : V ↪ W) (A : Finset (V × V)) (a b : V) :
    Adj (A.map (f.prodMap f)) (f a) (f b) ↔ Adj A a b := by
  unfold Adj
  simp only [mem_map, Function.Embedding.coe_prodMap, Prod.exists, Prod.map_apply, Prod.mk.injEq,
    EmbeddingLike.apply_eq_iff_eq]
  constructor
  · rintro (⟨x, y, h, rfl, rfl⟩ | ⟨x, y, h, rfl, rfl⟩)
    · exact Or.inl h
    · exact Or.inr h
  · rintro (h | h)
    · exact Or.inl ⟨a, b, h, rfl, rfl⟩
    · exact Or.inr ⟨b, a, h, rfl, rfl⟩

theorem adj_map_right (f : V ↪ W) (A : Finset (V × V)) (a : V) (w : W)
    (h : Adj (A.map (f.prodMap f)) (f a) w) : ∃ b, w = f b := by
  unfold Adj at h
  simp only [mem_map, Function.Embedding.coe_prodMap, Prod.exists, Prod.map_apply, Prod.mk.injEq] at h
  rcases h with ⟨x, y, _, _, rfl⟩ | ⟨x, y, _, rfl, _⟩
  · exact ⟨y, rfl⟩
  · exact ⟨x, rfl⟩

theorem reach_map (f : V ↪ W) (A : Finset (V × V)) (a b : V) :
    Reach (A.map (f.prodMap f)) (f a) (f b) ↔ Reach A a b := by
  constructor
  · intro h
    have : ∀ w, Reach (A.map (f.prodMap f)) (f a) w → ∃ b, w = f b ∧ Reach A a b := by
      intro w hw
      induction hw with
      | refl => exact ⟨a, rfl, Relation.ReflTransGen.refl⟩
      | tail _ hbc ih =>
        obtain ⟨b, rfl, hab⟩ := ih
        obtain ⟨c, rfl⟩ := adj_map_right f A b _ hbc
        exact ⟨c, rfl, hab.tail ((adj_map f A b c).1 hbc)⟩
    obtain ⟨b', hb', hr⟩ := this _ h
    rw [f.injective hb']; exact hr
  · intro h
    induction h with
    | refl => exact Relation.ReflTransGen.refl
    | tail _ hbc ih => exact ih.tail ((adj_map f A _ _).2 hbc)

end relabel


/-! ## C. the Harary–Palmer identity and relabelling invariance -/

section hp
variable {V : Type} [LinearOrder V]

open Classical in
theorem fiber_conn (Vs S : Finset V) (hSV : S ⊆ Vs) (r : V) (hr : r ∈ S) (j : ℕ) :
    (((inner (pairs Vs) S).powersetCard j).filter (fun F => comp Vs F r = S)).card = cc S j := by
  unfold cc
  rw [inner_pairs hSV]
  congr 1
  apply Finset.filter_congr
  intro F hF
  rw [mem_powersetCard] at hF
  rw [conn_iff_root hr]
  exact inner_fiber_eq_connected Vs (pairs Vs) S hSV r hr F (by rw [inner_pairs hSV]; exact hF.1)

/-- **Harary–Palmer, finset form**: classify all graphs with `k` edges on `Vs` by the component `S` of `r` -/
theorem hp_identity (Vs : Finset V) (r : V) (hr : r ∈ Vs) (k : ℕ) :
    (Vs.card.choose 2).choose k
      = ∑ S ∈ Vs.powerset.filter (fun S => r ∈ S), ∑ ij ∈ antidiagonal k,
          ((Vs.card - S.card).choose 2).choose ij.1 * cc S ij.2 := by
  classical
  rw [← card_pairs, ← card_powersetCard,
    Finset.card_eq_sum_card_fiberwise (f := fun A => comp Vs A r) (t := Vs.powerset.filter (fun S => r ∈ S))
      (fun A _ => by simp [root_mem_comp A hr, comp_subset])]
  apply Finset.sum_congr rfl
  intro S hS
  rw [mem_filter, mem_powerset] at hS
  rw [fiber_card Vs (pairs Vs) (pairs_ends (Finset.Subset.refl _)) r S hS.2 k]
  apply Finset.sum_congr rfl
  intro ij _
  rw [fiber_conn Vs S hS.1 r hS.2, outer_pairs, card_pairs, card_sdiff_of_subset hS.1]

end hp

section relabel2
variable {V W : Type} [LinearOrder V] [LinearOrder W]

theorem pairs_map (e : V ↪o W) (S : Finset V) :
    pairs (S.map e.toEmbedding) = (pairs S).map (e.toEmbedding.prodMap e.toEmbedding) := by
  ext ⟨x, y⟩
  simp only [mem_pairs, mem_map, RelEmbedding.coe_toEmbedding, Function.Embedding.coe_prodMap, Prod.exists,
    Prod.map_apply, Prod.mk.injEq]
  constructor
  · rintro ⟨⟨a, ha, rfl⟩, ⟨b, hb, rfl⟩, hlt⟩
    exact ⟨a, b, ⟨ha, hb, e.lt_iff_lt.1 hlt⟩, rfl, rfl⟩
  · rintro ⟨a, b, ⟨ha, hb, hlt⟩, rfl, rfl⟩
    exact ⟨⟨a, ha, rfl⟩, ⟨b, hb, rfl⟩, e.lt_iff_lt.2 hlt⟩

omit [LinearOrder V] [LinearOrder W] in
theorem conn_map (f : V ↪ W) (S : Finset V) (A : Finset (V × V)) :
    Conn (S.map f) (A.map (f.prodMap f)) ↔ Conn S A := by
  unfold Conn
  simp only [mem_map, forall_exists_index, and_imp, forall_apply_eq_imp_iff₂, reach_map]

/-- **relabelling invariance** along an order embedding -/
theorem cc_map (e : V ↪o W) (S : Finset V) (k : ℕ) : cc (S.map e.toEmbedding) k = cc S k := by
  classical
  unfold cc
  rw [pairs_map, powersetCard_map, filter_map, card_map]
  congr 1
  apply Finset.filter_congr
  intro A _
  exact conn_map e.toEmbedding S A

end relabel2

/-- number of connected labelled graphs on `n` vertices with `k` edges (vertex set `Fin n`) -/
noncomputable def ccN (n k : ℕ) : ℕ := cc (univ : Finset (Fin n)) k

theorem cc_eq_ccN {V : Type} [LinearOrder V] (S : Finset V) (k : ℕ) : cc S k = ccN S.card k := by
  unfold ccN
  rw [← cc_map (S.orderEmbOfFin rfl), map_orderEmbOfFin_univ]


theorem sum_powerset_mem {V : Type} [DecidableEq V] (Vs : Finset V) (r : V) (hr : r ∈ Vs) (g : ℕ → ℕ) :
    ∑ S ∈ Vs.powerset.filter (fun S => r ∈ S), g S.card
      = ∑ m ∈ range Vs.card, (Vs.card - 1).choose m * g (m + 1) := by
  have h1 : ∑ S ∈ Vs.powerset.filter (fun S => r ∈ S), g S.card
      = ∑ T ∈ (Vs.erase r).powerset, g (T.card + 1) := by
    refine Finset.sum_nbij' (fun S => S.erase r) (fun T => insert r T) ?_ ?_ ?_ ?_ ?_
    · intro S hS
      simp only [mem_filter, mem_powerset] at hS ⊢
      exact Finset.erase_subset_erase r hS.1
    · intro T hT
      simp only [mem_filter, mem_powerset] at hT ⊢
      refine ⟨?_, mem_insert_self r T⟩
      intro x hx
      rcases mem_insert.1 hx with rfl | hx
      · exact hr
      · exact (mem_erase.1 (hT hx)).2
    · intro S hS
      simp only [mem_filter, mem_powerset] at hS
      exact insert_erase hS.2
    · intro T hT
      simp only [mem_powerset] at hT
      exact erase_insert (fun h => (mem_erase.1 (hT h)).1 rfl)
    · intro S hS
      simp only [mem_filter, mem_powerset] at hS
      rw [card_erase_of_mem hS.2]
      have : 0 < S.card := card_pos.2 ⟨r, hS.2⟩
      congr 1; omega
  rw [h1, Finset.sum_powerset, card_erase_of_mem hr]
  have hpos : 0 < Vs.card := card_pos.2 ⟨r, hr⟩
  have : Vs.card - 1 + 1 = Vs.card := by omega
  rw [this]
  apply Finset.sum_congr rfl
  intro m _
  rw [Finset.sum_congr rfl (fun T hT => by rw [(mem_powersetCard.1 hT).2]), sum_const, card_powersetCard,
    card_erase_of_mem hr, smul_eq_mul]

/-- **Harary–Palmer for the number of connected labelled graphs**: all graphs on `n` vertices with `k` edges,
classified by the size `m + 1` of the component of a fixed vertex -/
theorem ccN_hp (n k : ℕ) (hn : 1 ≤ n) :
    (n.choose 2).choose k = ∑ m ∈ range n, (n - 1).choose m *
      ∑ ij ∈ antidiagonal k, ((n - 1 - m).choose 2).choose ij.1 * ccN (m + 1) ij.2 := by
  have h := hp_identity (univ : Finset (Fin n)) ⟨0, by omega⟩ (mem_univ _) k
  simp only [card_univ, Fintype.card_fin, cc_eq_ccN] at h
  rw [h, sum_powerset_mem (univ : Finset (Fin n)) ⟨0, by omega⟩ (mem_univ _)
    (fun c => ∑ ij ∈ antidiagonal k, ((n - c).choose 2).choose ij.1 * ccN c ij.2)]
  simp only [card_univ, Fintype.card_fin]
  apply Finset.sum_congr rfl
  intro m _
  have : n - (m + 1) = n - 1 - m := by omega
  rw [this]


theorem ccN_rec_nat (n k : ℕ) (hn : 1 ≤ n) :
    (n.choose 2).choose k = (∑ m ∈ range (n - 1), (n - 1).choose m *
      ∑ p ∈ range (k + 1), ((n - 1 - m).choose 2).choose p * ccN (m + 1) (k - p)) + ccN n k := by
  rw [ccN_hp n k hn]
  obtain ⟨N, rfl⟩ : ∃ N, n = N + 1 := ⟨n - 1, by omega⟩
  simp only [Nat.add_sub_cancel, Finset.Nat.sum_antidiagonal_eq_sum_range_succ_mk]
  rw [Finset.sum_range_succ]
  congr 1
  rw [Nat.choose_self, Nat.sub_self, one_mul, Finset.sum_range_succ']
  simp only [Nat.choose_zero_right, Nat.sub_zero, one_mul]
  simp

theorem ccN_zero_above (n k : ℕ) (h : n.choose 2 < k) : ccN n k = 0 := by
  classical
  unfold ccN cc
  rw [powersetCard_eq_empty.2 (by rw [card_pairs, card_univ, Fintype.card_fin]; exact h)]
  rfl

/-- a connected graph on `n` vertices has at least `n - 1` edges (via Mathlib's spanning-tree theorem) -/
theorem conn_card_ge {n : ℕ} (hn : 1 ≤ n) (A : Finset (Fin n × Fin n)) (h : Conn univ A) : n ≤ A.card + 1 := by
  classical
  let G : SimpleGraph (Fin n) := SimpleGraph.fromRel (fun a b => (a, b) ∈ A)
  have hadj : ∀ a b, Adj A a b → G.Reachable a b := by
    intro a b hab
    by_cases hne : a = b
    · subst hne; exact SimpleGraph.Reachable.refl _
    · exact SimpleGraph.Adj.reachable ((SimpleGraph.fromRel_adj _ _ _).2 ⟨hne, hab⟩)
  have hreach : ∀ a b, Reach A a b → G.Reachable a b := by
    intro a b hab
    induction hab with
    | refl => exact SimpleGraph.Reachable.refl _
    | tail _ hbc ih => exact ih.trans (hadj _ _ hbc)
  have : Nonempty (Fin n) := ⟨⟨0, by omega⟩⟩
  have hconn : G.Connected := by
    rw [SimpleGraph.connected_iff]
    exact ⟨fun u v => hreach u v (h u (mem_univ _) v (mem_univ _)), inferInstance⟩
  have h1 := hconn.card_vert_le_card_edgeSet_add_one
  rw [Nat.card_eq_fintype_card, Fintype.card_fin] at h1
  have h2 : Nat.card G.edgeSet ≤ A.card := by
    rw [Nat.card_coe_set_eq]
    have hsub : G.edgeSet ⊆ (fun e : Fin n × Fin n => s(e.1, e.2)) '' (A : Set (Fin n × Fin n)) := by
      intro e he
      induction e using Sym2.ind with
      | _ a b =>
        rw [SimpleGraph.mem_edgeSet, SimpleGraph.fromRel_adj] at he
        rcases he.2 with h' | h'
        · exact ⟨(a, b), h', rfl⟩
        · exact ⟨(b, a), h', Sym2.eq_swap⟩
    calc G.edgeSet.ncard ≤ ((fun e : Fin n × Fin n => s(e.1, e.2)) '' (A : Set (Fin n × Fin n))).ncard :=
          Set.ncard_le_ncard hsub (Set.Finite.image _ A.finite_toSet)
      _ ≤ (A : Set (Fin n × Fin n)).ncard := Set.ncard_image_le A.finite_toSet
      _ = A.card := Set.ncard_coe_finset A
  omega

theorem ccN_zero_below (n k : ℕ) (h : k + 1 < n) : ccN n k = 0 := by
  classical
  unfold ccN cc
  rw [card_eq_zero, filter_eq_empty_iff]
  intro A hA hc
  have := conn_card_ge (by omega) A hc
  rw [(mem_powersetCard.1 hA).2] at this
  omega


/-! ## D. the table against the count -/

open Gcmpy.ClosedForms in
/-- **the shortcut-free table `Qgen` counts connected labelled graphs** (abstract count `ccN`) -/
theorem Qgen_eq_ccN : ∀ n, 1 ≤ n → ∀ k, Qgen n k = (ccN n k : Int) := by
  intro n
  induction n using Nat.strong_induction_on with
  | _ n ih =>
    intro hn k
    by_cases h1 : k + 1 < n
    · rw [Qgen_zero_below n k h1, ccN_zero_below n k h1]; rfl
    by_cases h2 : n * (n - 1) / 2 < k
    · rw [Qgen_zero_outside n k hn h2, ccN_zero_above n k (by rw [Nat.choose_two_right]; exact h2)]; rfl
    rw [Qgen_rec n k hn (by omega) (by omega)]
    have h := ccN_rec_nat n k hn
    have h' : ((n.choose 2).choose k : Int) = (∑ m ∈ range (n - 1), ((n - 1).choose m : Int) *
        ∑ p ∈ range (k + 1), (((n - 1 - m).choose 2).choose p : Int) * (ccN (m + 1) (k - p) : Int)) + ccN n k := by
      rw [h]; push_cast; rfl
    rw [h']
    have e : ∑ m ∈ range (n - 1), ((n - 1).choose m : Int) *
          ∑ p ∈ range (k + 1), (((n - 1 - m).choose 2).choose p : Int) * Qgen (m + 1) (k - p)
        = ∑ m ∈ range (n - 1), ((n - 1).choose m : Int) *
          ∑ p ∈ range (k + 1), (((n - 1 - m).choose 2).choose p : Int) * (ccN (m + 1) (k - p) : Int) := by
      apply Finset.sum_congr rfl
      intro m hm
      rw [mem_range] at hm
      congr 1
      apply Finset.sum_congr rfl
      intro p _
      rw [ih (m + 1) (by omega) (by omega)]
    rw [e]; ring

end Gcmpy.HP
