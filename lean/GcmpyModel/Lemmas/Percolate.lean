import GcmpyModel.Lemmas.Reach
import GcmpyModel.Model.Percolate
/-
Helper lemmas about `Percolate.kept` (used by Properties/C18).
-/
namespace Gcmpy.Percolate
open Gcmpy.Graph

theorem map_fst_zip_sublist {α β : Type} (l₁ : List α) (l₂ : List β) :
    ((l₁.zip l₂).map (·.1)).Sublist l₁ := by
  induction l₁ generalizing l₂ with
  | nil => simp
  | cons a as ih =>
    cases l₂ with
    | nil => simp
    | cons b bs => simpa using ih bs

/-- list form: edge `t` is retained iff its own draw is `≤ φ` -/
theorem kept_eq (es : List Edge) (φ : Rat) (draws : List Rat) :
    kept es φ draws = ((es.zip draws).filter (fun p => decide (p.2 ≤ φ))).map (·.1) := by
  unfold kept
  congr 1
  apply List.filter_congr
  rintro ⟨e, d⟩ _
  simp only [gt_iff_lt, Rat.not_lt]

theorem kept_sublist (es : List Edge) (φ : Rat) (draws : List Rat) : (kept es φ draws).Sublist es := by
  rw [kept_eq]
  exact (List.filter_sublist.map _).trans (map_fst_zip_sublist _ _)

theorem kept_subset (es : List Edge) (φ : Rat) (draws : List Rat) : kept es φ draws ⊆ es :=
  (kept_sublist es φ draws).subset

/-- a sub-graph on the same node list is well formed -/
theorem wf_kept {es : List Edge} {nodes : List Nat} (h : WFGraph es nodes) (φ : Rat) (draws : List Rat) :
    WFGraph (kept es φ draws) nodes :=
  ⟨h.1, fun e he => h.2 e (kept_subset es φ draws he)⟩

/-- all draws `≤ φ`: nothing is removed -/
theorem kept_all {es : List Edge} {φ : Rat} {draws : List Rat} (hl : draws.length = es.length)
    (h : ∀ d ∈ draws, d ≤ φ) : kept es φ draws = es := by
  rw [kept_eq, List.filter_eq_self.2, List.map_fst_zip (by omega)]
  rintro ⟨e, d⟩ hp
  simpa using h d (List.of_mem_zip hp).2

/-- all draws `> φ`: everything is removed -/
theorem kept_none {es : List Edge} {φ : Rat} {draws : List Rat}
    (h : ∀ d ∈ draws, φ < d) : kept es φ draws = [] := by
  rw [kept_eq, List.filter_eq_nil_iff.2, List.map_nil]
  rintro ⟨e, d⟩ hp
  simpa [Rat.not_le] using h d (List.of_mem_zip hp).2

/-- the leaves of a star whose edge is retained -/
def keptLeaves (ls : List Nat) (φ : Rat) (draws : List Rat) : List Nat :=
  ((ls.zip draws).filter (fun p => decide (p.2 ≤ φ))).map (·.1)

theorem kept_star (c : Nat) (ls : List Nat) (φ : Rat) (draws : List Rat) :
    kept (ls.map fun l => (c, l)) φ draws = (keptLeaves ls φ draws).map fun l => (c, l) := by
  rw [kept_eq, keptLeaves, List.zip_map_left, List.filter_map, List.map_map, List.map_map]
  rfl

theorem keptLeaves_sublist (ls : List Nat) (φ : Rat) (draws : List Rat) :
    (keptLeaves ls φ draws).Sublist ls :=
  (List.filter_sublist.map _).trans (map_fst_zip_sublist _ _)

theorem keptLeaves_length {ls : List Nat} {φ : Rat} {draws : List Rat} (hl : draws.length = ls.length) :
    (keptLeaves ls φ draws).length = (draws.filter (fun d => decide (d ≤ φ))).length := by
  have h : draws = (ls.zip draws).map (·.2) := (List.map_snd_zip (by omega)).symm
  conv => rhs; rw [h, List.filter_map, List.length_map]
  rw [keptLeaves, List.length_map]
  rfl

end Gcmpy.Percolate
