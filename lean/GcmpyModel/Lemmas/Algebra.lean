import GcmpyModel.Model.Algebra
import GcmpyModel.Lemmas.Dict
import GcmpyModel.Lemmas.Loaders
import Mathlib.Algebra.Order.Field.Rat
import Mathlib.Algebra.BigOperators.Group.List.Basic
import Mathlib.Tactic.FieldSimp
import Mathlib.Tactic.Ring
import Mathlib.Tactic.Linarith
import Mathlib.Data.List.Nodup
/-!
Helper lemmas for property C14 (degree-distribution algebra).
Model: `GcmpyModel/Model/Algebra.lean`.  The property statements live in `GcmpyModel/Properties/C14.lean`.
-/

/-! ## generic dictionary facts -/
namespace Gcmpy.Dict
set_option linter.unusedSectionVars false
variable {κ ν μ : Type} [DecidableEq κ]

theorem set_of_not_mem (d : List (κ × ν)) (k : κ) (v : ν) (h : k ∉ keys d) :
    set d k v = d ++ [(k, v)] := by
  induction d with
  | nil => rfl
  | cons x r ih =>
    obtain ⟨a, w⟩ := x
    simp only [keys, List.map_cons, List.mem_cons, not_or] at h
    have h1 : ¬ a = k := fun e => h.1 e.symm
    simp only [set, if_neg h1, List.cons_append]
    congr 1
    exact ih h.2

/-- the fold used by every `for k in …: d[g(k)] = …` loop -/
abbrev setAll (d : List (κ × ν)) (l : List (κ × ν)) : List (κ × ν) :=
  l.foldl (fun d kv => set d kv.1 kv.2) d

theorem setAll_append (l d : List (κ × ν)) (h : (keys (d ++ l)).Nodup) : setAll d l = d ++ l := by
  induction l generalizing d with
  | nil => simp [setAll]
  | cons x xs ih =>
    have hx : x.1 ∉ keys d := by
      simp only [keys, List.map_append, List.map_cons] at h
      have := (List.nodup_append.1 h).2.2
      intro hm
      exact this _ hm _ List.mem_cons_self rfl
    simp only [setAll, List.foldl_cons]
    rw [set_of_not_mem d x.1 x.2 hx]
    have : (keys ((d ++ [(x.1, x.2)]) ++ xs)).Nodup := by simpa using h
    have := ih _ this
    simpa [setAll] using this

/-- folding `set` over pairs with distinct keys into the empty dict reproduces the list -/
theorem foldl_set_eq (l : List (κ × ν)) (h : (keys l).Nodup) : setAll [] l = l := by
  simpa using setAll_append l [] (by simpa using h)

theorem nodup_keys_set (d : List (κ × ν)) (k : κ) (v : ν) (h : (keys d).Nodup) :
    (keys (set d k v)).Nodup := by
  by_cases hk : k ∈ keys d
  · rw [keys_set_of_mem d k v hk]; exact h
  · rw [keys_set_of_not_mem d k v hk]
    rw [List.nodup_append]
    refine ⟨h, by simp, ?_⟩
    intro a ha b hb
    simp only [List.mem_singleton] at hb
    subst hb
    intro e; subst e; exact hk ha

theorem nodup_keys_setAll (l d : List (κ × ν)) (h : (keys d).Nodup) : (keys (setAll d l)).Nodup := by
  induction l generalizing d with
  | nil => simpa [setAll] using h
  | cons x xs ih => simp only [setAll, List.foldl_cons]; exact ih _ (nodup_keys_set d x.1 x.2 h)

theorem mem_of_get {d : List (κ × ν)} {k : κ} {v : ν} (h : get d k = some v) : (k, v) ∈ d := by
  induction d with
  | nil => simp [get] at h
  | cons x r ih =>
    obtain ⟨a, w⟩ := x
    by_cases h1 : a = k
    · subst h1; simp only [get, if_true, Option.some.injEq] at h; subst h; exact List.mem_cons_self
    · simp only [get, if_neg h1] at h; exact List.mem_cons_of_mem _ (ih h)

theorem mem_iff_get {d : List (κ × ν)} (hn : (keys d).Nodup) (k : κ) (v : ν) :
    (k, v) ∈ d ↔ get d k = some v :=
  ⟨fun h => get_of_mem d hn (k, v) h, mem_of_get⟩

theorem get_eq_none_iff (d : List (κ × ν)) (k : κ) : get d k = none ↔ k ∉ keys d := by
  rw [← get_isSome_iff_mem_keys]
  cases get d k <;> simp

/-- two dictionaries with the same lookups hold the same entries, up to order -/
theorem perm_of_get_eq {d₁ d₂ : List (κ × ν)} (h₁ : (keys d₁).Nodup) (h₂ : (keys d₂).Nodup)
    (h : ∀ k, get d₁ k = get d₂ k) : d₁.Perm d₂ := by
  rw [List.perm_ext_iff_of_nodup (List.Nodup.of_map _ h₁) (List.Nodup.of_map _ h₂)]
  rintro ⟨k, v⟩
  rw [mem_iff_get h₁, mem_iff_get h₂, h]

/-- lookups in a filtered dictionary (predicate on keys) -/
theorem get_filter (d : List (κ × ν)) (p : κ → Bool) (k : κ) :
    get (d.filter fun kv => p kv.1) k = if p k then get d k else none := by
  induction d with
  | nil => simp [get]
  | cons x r ih =>
    obtain ⟨a, w⟩ := x
    by_cases h : a = k
    · subst h
      cases hp : p a <;> simp [hp, get, ih]
    · cases hp : p a <;> simp [hp, get, ih, h]

theorem keys_filter (d : List (κ × ν)) (p : κ → Bool) :
    keys (d.filter fun kv => p kv.1) = (keys d).filter p := by
  simp only [keys, List.filter_map]; rfl

/-- every stored value is `f` of its key -/
def Agrees (f : κ → ν) (d : List (κ × ν)) : Prop := ∀ k v, get d k = some v → v = f k

theorem agrees_nil (f : κ → ν) : Agrees f ([] : List (κ × ν)) := by
  intro k v h; simp [get] at h

theorem agrees_set {f : κ → ν} {d : List (κ × ν)} (hd : Agrees f d) (k : κ) (v : ν) (hv : v = f k) :
    Agrees f (set d k v) := by
  intro k' v' h
  rw [get_set] at h
  by_cases e : k = k'
  · subst e; simp only [if_true, Option.some.injEq] at h; rw [← h]; exact hv
  · simp only [if_neg e] at h; exact hd k' v' h

theorem agrees_setAll {f : κ → ν} (l d : List (κ × ν)) (hd : Agrees f d)
    (hl : ∀ kv ∈ l, kv.2 = f kv.1) : Agrees f (setAll d l) := by
  induction l generalizing d with
  | nil => exact hd
  | cons x xs ih =>
    simp only [setAll, List.foldl_cons]
    exact ih _ (agrees_set hd x.1 x.2 (hl x List.mem_cons_self))
      (fun kv h => hl kv (List.mem_cons_of_mem _ h))

theorem get_of_agrees {f : κ → ν} {d : List (κ × ν)} (hd : Agrees f d) {k : κ} (hk : k ∈ keys d) :
    get d k = some (f k) := by
  have := (get_isSome_iff_mem_keys d k).2 hk
  cases hg : get d k with
  | none => simp [hg] at this
  | some v => rw [hd k v hg]

theorem mem_keys_setAll (l d : List (κ × ν)) (k : κ) :
    k ∈ keys (setAll d l) ↔ k ∈ keys d ∨ k ∈ keys l := by
  induction l generalizing d with
  | nil => simp [setAll, keys]
  | cons x xs ih =>
    have hstep : setAll d (x :: xs) = setAll (set d x.1 x.2) xs := rfl
    rw [hstep, ih, mem_keys_set]
    have : k ∈ keys (x :: xs) ↔ k = x.1 ∨ k ∈ keys xs := by simp [keys]
    rw [this]
    constructor
    · rintro ((h | h) | h)
      · exact Or.inr (Or.inl h)
      · exact Or.inl h
      · exact Or.inr (Or.inr h)
    · rintro (h | h | h)
      · exact Or.inl (Or.inr h)
      · exact Or.inl (Or.inl h)
      · exact Or.inr h

/-- lookups through an injective re-keying -/
theorem get_map_inj (d : List (κ × ν)) (g : κ → κ) (h : κ → ν → μ) (k : κ)
    (hinj : ∀ a ∈ keys d, g a = g k → a = k) :
    get (d.map fun kv => (g kv.1, h kv.1 kv.2)) (g k) = (get d k).map (h k) := by
  induction d with
  | nil => simp [get]
  | cons x r ih =>
    obtain ⟨a, w⟩ := x
    have ih' := ih fun b hb => hinj b (by simp [keys] at hb ⊢; exact Or.inr hb)
    by_cases e : a = k
    · subst e; simp [get]
    · have : ¬ g a = g k := fun e' => e (hinj a (by simp [keys]) e')
      simp only [List.map_cons, get, if_neg this, if_neg e]
      exact ih'

end Gcmpy.Dict

namespace Gcmpy.Algebra
open Gcmpy Gcmpy.Loaders

/-! ## vocabulary -/

/-- all keys are `T`-tuples -/
def Uniform (P : Table) (T : Nat) : Prop := ∀ kp ∈ P, kp.1.length = T

/-- `mean P i` = the `P`-weighted mean of the `i`-th component -/
def mean (P : Table) (i : Nat) : Rat := (P.map fun kp => ((kp.1.getD i 0 : Nat) : Rat) * kp.2).sum

/-- the `i`-th component is positive -/
def posAt (i : Nat) (k : JD) : Bool := decide (k.getD i 0 > 0)

/-- some component is positive (`k ≠ 0`) -/
def anyPos (k : JD) : Bool := k.any fun d => decide (d > 0)

/-- `Z_i`: mass of the keys with a positive `i`-th component -/
def massPos (P : Table) (i : Nat) : Rat := ((P.filter fun kp => posAt i kp.1).map (·.2)).sum

/-- `Z`: mass of the keys `≠ 0` -/
def massAnyPos (P : Table) : Rat := ((P.filter fun kp => anyPos kp.1).map (·.2)).sum

/-- the excess table of topology `i`, as a plain `filter` + `map` of the input -/
def exTable (P : Table) (i : Nat) : Table :=
  (P.filter fun kp => posAt i kp.1).map fun kp =>
    (kp.1.modify i (· - 1), (((kp.1.getD i 0 : Nat) : Rat) * kp.2) / mean P i)

/-- `P` restricted to the keys selected by `sel`, every mass divided by `z` -/
def restrictScale (P : Table) (sel : JD → Bool) (z : Rat) : Table :=
  (P.filter fun kp => sel kp.1).map fun kp => (kp.1, kp.2 / z)

/-! ## `mapM` in `Option` -/

theorem mapM_some {α β : Type} (f : α → Option β) (g : α → β) (l : List α)
    (h : ∀ a ∈ l, f a = some (g a)) : l.mapM f = some (l.map g) := by
  induction l with
  | nil => simp
  | cons a r ih =>
    rw [List.mapM_cons, h a List.mem_cons_self, ih fun b hb => h b (List.mem_cons_of_mem _ hb)]
    rfl

theorem mapM_none {α β : Type} (f : α → Option β) (l : List α)
    (h : ∃ a ∈ l, f a = none) : l.mapM f = none := by
  induction l with
  | nil => obtain ⟨a, ha, _⟩ := h; simp at ha
  | cons a r ih =>
    rw [List.mapM_cons]
    obtain ⟨b, hb, hfb⟩ := h
    cases hfa : f a with
    | none => rfl
    | some v =>
      have : ∃ c ∈ r, f c = none := by
        rcases List.mem_cons.1 hb with rfl | hb'
        · rw [hfa] at hfb; exact absurd hfb (by simp)
        · exact ⟨b, hb', hfb⟩
      rw [ih this]; rfl

theorem mapM_eq_some {α β : Type} (f : α → Option β) (l : List α) (r : List β)
    (h : l.mapM f = some r) :
    r.length = l.length ∧ ∀ j (hj : j < l.length) (hj' : j < r.length), f l[j] = some r[j] := by
  induction l generalizing r with
  | nil =>
    simp only [List.mapM_nil] at h
    cases h
    exact ⟨rfl, fun j hj => absurd hj (by simp)⟩
  | cons a l ih =>
    rw [List.mapM_cons] at h
    cases hfa : f a with
    | none => rw [hfa] at h; exact absurd h (by simp)
    | some v =>
      cases hl : l.mapM f with
      | none => rw [hfa, hl] at h; exact absurd h (by simp)
      | some r' =>
        rw [hfa, hl] at h
        have : r = v :: r' := by
          have : some (v :: r') = some r := h
          exact (Option.some.inj this).symm
        subst this
        obtain ⟨h1, h2⟩ := ih r' hl
        refine ⟨by simp [h1], ?_⟩
        intro j hj hj'
        cases j with
        | zero => simpa using hfa
        | succ j => simpa using h2 j (by simpa using hj) (by simpa using hj')

/-! ## tuples -/

theorem modify_pred_succ (k : JD) (i : Nat) (h : k.getD i 0 > 0) :
    (k.modify i (· - 1)).modify i (· + 1) = k := by
  apply List.ext_getElem?
  intro j
  grind

theorem modify_succ_pred (k : JD) (i : Nat) : (k.modify i (· + 1)).modify i (· - 1) = k := by
  apply List.ext_getElem?
  intro j
  grind

theorem getD_modify_pred (k : JD) (i : Nat) (h : k.getD i 0 > 0) :
    (k.modify i (· - 1)).getD i 0 + 1 = k.getD i 0 := by
  grind

theorem modify_pred_inj {i : Nat} {k k' : JD} (hk : k.getD i 0 > 0) (hk' : k'.getD i 0 > 0)
    (h : k.modify i (· - 1) = k'.modify i (· - 1)) : k = k' := by
  rw [← modify_pred_succ k i hk, ← modify_pred_succ k' i hk', h]

theorem modify_succ_inj {i : Nat} {k k' : JD} (h : k.modify i (· + 1) = k'.modify i (· + 1)) : k = k' := by
  rw [← modify_succ_pred k i, ← modify_succ_pred k' i, h]

theorem posAt_iff (i : Nat) (k : JD) : posAt i k = true ↔ k.getD i 0 > 0 := by simp [posAt]

theorem anyPos_iff (k : JD) : anyPos k = true ↔ ∃ i, i < k.length ∧ k.getD i 0 > 0 := by
  simp only [anyPos, List.any_eq_true, decide_eq_true_eq]
  constructor
  · rintro ⟨d, hd, hpos⟩
    obtain ⟨i, hi, rfl⟩ := List.getElem_of_mem hd
    exact ⟨i, hi, by simpa [List.getD_eq_getElem?_getD, List.getElem?_eq_getElem hi] using hpos⟩
  · rintro ⟨i, hi, hpos⟩
    refine ⟨k[i], List.getElem_mem hi, ?_⟩
    simpa [List.getD_eq_getElem?_getD, List.getElem?_eq_getElem hi] using hpos

theorem posAt_lt_length {i : Nat} {k : JD} (h : posAt i k = true) : i < k.length := by
  rw [posAt_iff] at h
  grind

theorem anyPos_iff' (k : JD) : anyPos k = true ↔ ∃ i, k.getD i 0 > 0 := by
  rw [anyPos_iff]
  constructor
  · rintro ⟨i, _, h⟩; exact ⟨i, h⟩
  · rintro ⟨i, h⟩; exact ⟨i, posAt_lt_length ((posAt_iff i k).2 h), h⟩

/-! ## 1. averages -/

theorem averages_eq (P : Table) (T : Nat) (hne : P ≠ []) (hu : Uniform P T) :
    averages P = some ((List.range T).map (mean P)) := by
  cases P with
  | nil => exact absurd rfl hne
  | cons x r =>
    obtain ⟨k0, p0⟩ := x
    have hT : k0.length = T := hu (k0, p0) List.mem_cons_self
    simp only [averages, hT, foldl_add_eq_sum]
    rfl

theorem averages_nil : averages [] = none := rfl

/-! ## 2. excess tables -/

/-- one round of the `for index in range(num_topologies)` loop -/
def excessStep (jdd : Table) (avi : Rat × Nat) : Option Table :=
  let entries := jdd.filter fun (k, _) => k.getD avi.2 0 > 0
  if entries.isEmpty then some [] else
  if avi.1 = 0 then none else
  some (entries.foldl (fun q (k, p) =>
    Dict.set q (k.modify avi.2 (· - 1)) ((((k.getD avi.2 0 : Nat) : Rat) * p) / avi.1)) [])

theorem excessFromJdd_unfold (P : Table) :
    excessFromJdd P = (averages P).bind fun avs => avs.zipIdx.mapM (excessStep P) := rfl

theorem keys_exTable (P : Table) (i : Nat) :
    Dict.keys (exTable P i) = ((Dict.keys P).filter (posAt i)).map fun k => k.modify i (· - 1) := by
  simp only [exTable, Dict.keys, List.map_map, List.filter_map]
  rfl

theorem nodup_keys_exTable (P : Table) (i : Nat) (hn : (Dict.keys P).Nodup) :
    (Dict.keys (exTable P i)).Nodup := by
  rw [keys_exTable]
  apply List.Nodup.map_on _ (hn.filter _)
  intro a ha b hb hab
  rw [List.mem_filter] at ha hb
  exact modify_pred_inj ((posAt_iff i a).1 ha.2) ((posAt_iff i b).1 hb.2) hab

theorem excessStep_eq (P : Table) (i : Nat) (hn : (Dict.keys P).Nodup) :
    excessStep P (mean P i, i) =
      if (P.filter fun kp => posAt i kp.1) ≠ [] ∧ mean P i = 0 then none else some (exTable P i) := by
  have hf : (P.filter fun (k, _) => decide (k.getD i 0 > 0)) = P.filter fun kp => posAt i kp.1 := rfl
  simp only [excessStep, hf, List.isEmpty_iff]
  by_cases he : (P.filter fun kp => posAt i kp.1) = []
  · simp [he, exTable]
  · by_cases hm : mean P i = 0
    · simp [he, hm]
    · simp only [he, hm, if_false, ne_eq, not_false_eq_true, and_false]
      congr 1
      have := Dict.foldl_set_eq (exTable P i) (nodup_keys_exTable P i hn)
      rw [← this]
      simp only [Dict.setAll, exTable, List.foldl_map]

theorem zipIdx_map_range {α : Type} (f : Nat → α) (T : Nat) :
    ((List.range T).map f).zipIdx = (List.range T).map fun i => (f i, i) := by
  apply List.ext_getElem
  · simp
  · intro j h1 h2
    simp [List.getElem_zipIdx]

theorem getElem?_map_range {α : Type} (f : Nat → α) (T i : Nat) (q : α)
    (h : ((List.range T).map f)[i]? = some q) : i < T ∧ q = f i := by
  by_cases hi : i < T
  · refine ⟨hi, ?_⟩
    rw [List.getElem?_map, List.getElem?_range hi] at h
    exact (Option.some.inj h).symm
  · rw [List.getElem?_eq_none (by simpa using hi)] at h; exact absurd h (by simp)

/-- the excess tables are the plain `filter`+`map`s `exTable P i`; the only failure is a zero mean with a
    positive component present -/
theorem excessFromJdd_eq (P : Table) (T : Nat) (hne : P ≠ []) (hu : Uniform P T)
    (hn : (Dict.keys P).Nodup) :
    excessFromJdd P =
      if ∃ i, i < T ∧ mean P i = 0 ∧ (P.filter fun kp => posAt i kp.1) ≠ [] then none
      else some ((List.range T).map (exTable P)) := by
  rw [excessFromJdd_unfold, averages_eq P T hne hu]
  simp only [Option.bind_some, zipIdx_map_range]
  split
  · next h =>
    obtain ⟨i, hi, hm, he⟩ := h
    apply mapM_none
    refine ⟨(mean P i, i), ?_, ?_⟩
    · exact List.mem_map.2 ⟨i, List.mem_range.2 hi, rfl⟩
    · rw [excessStep_eq P i hn, if_pos ⟨he, hm⟩]
  · next h =>
    rw [mapM_some (excessStep P) (fun avi => exTable P avi.2)]
    · rw [List.map_map]; rfl
    · intro avi hmem
      obtain ⟨i, hi, rfl⟩ := List.mem_map.1 hmem
      rw [excessStep_eq P i hn, if_neg]
      rintro ⟨he, hm⟩
      exact h ⟨i, List.mem_range.1 hi, hm, he⟩

theorem excessFromJdd_nil : excessFromJdd [] = none := rfl

theorem excessFromJdd_some {P : Table} {T : Nat} {qs : List Table} (hu : Uniform P T)
    (hn : (Dict.keys P).Nodup) (h : excessFromJdd P = some qs) :
    P ≠ [] ∧ qs = (List.range T).map (exTable P) ∧
      ∀ i, i < T → (P.filter fun kp => posAt i kp.1) ≠ [] → mean P i ≠ 0 := by
  have hne : P ≠ [] := by
    rintro rfl; rw [excessFromJdd_nil] at h; exact absurd h (by simp)
  rw [excessFromJdd_eq P T hne hu hn] at h
  split at h
  · exact absurd h (by simp)
  · next hno =>
    refine ⟨hne, (Option.some.inj h).symm, ?_⟩
    intro i hi he hm
    exact hno ⟨i, hi, hm, he⟩

theorem filter_posAt_ne_nil_iff (P : Table) (i : Nat) :
    (P.filter fun kp => posAt i kp.1) ≠ [] ↔ ∃ k ∈ Dict.keys P, k.getD i 0 > 0 := by
  rw [ne_eq, List.filter_eq_nil_iff]
  simp only [Dict.keys, List.mem_map]
  constructor
  · intro h
    have : ∃ a ∈ P, posAt i a.1 = true := by
      apply Classical.byContradiction
      intro hc
      apply h
      intro a ha hp
      exact hc ⟨a, ha, hp⟩
    obtain ⟨a, ha, hp⟩ := this
    exact ⟨a.1, ⟨a, ha, rfl⟩, (posAt_iff i a.1).1 hp⟩
  · rintro ⟨k, ⟨a, ha, rfl⟩, hp⟩ hall
    exact hall a ha ((posAt_iff i a.1).2 hp)

/-! ### sums -/

theorem sum_map_filter_eq {α : Type} (l : List α) (p : α → Bool) (g : α → Rat)
    (h : ∀ a ∈ l, p a = false → g a = 0) : ((l.filter p).map g).sum = (l.map g).sum := by
  induction l with
  | nil => rfl
  | cons a r ih =>
    have ih' := ih fun b hb => h b (List.mem_cons_of_mem _ hb)
    cases hp : p a
    · simp [hp, ih', h a List.mem_cons_self hp]
    · simp [hp, ih']

theorem mean_eq_filter (P : Table) (i : Nat) :
    mean P i = ((P.filter fun kp => posAt i kp.1).map fun kp => ((kp.1.getD i 0 : Nat) : Rat) * kp.2).sum := by
  rw [mean, sum_map_filter_eq]
  intro a _ hp
  have : a.1.getD i 0 = 0 := by
    have := (posAt_iff i a.1).not.1 (by simp [hp])
    omega
  show ((a.1.getD i 0 : Nat) : Rat) * a.2 = 0
  rw [this]; simp

theorem sum_exTable (P : Table) (i : Nat) (hm : mean P i ≠ 0) : ((exTable P i).map (·.2)).sum = 1 := by
  simp only [exTable, List.map_map]
  have e : ((fun x : JD × Rat => x.2) ∘ fun kp : JD × Rat =>
      (kp.1.modify i (· - 1), (((kp.1.getD i 0 : Nat) : Rat) * kp.2) / mean P i))
      = fun kp => (((kp.1.getD i 0 : Nat) : Rat) * kp.2) / mean P i := rfl
  rw [e, sum_map_div, ← mean_eq_filter]
  exact div_self hm

theorem get_exTable (P : Table) (i : Nat) (hn : (Dict.keys P).Nodup) (kp : JD × Rat) (hkp : kp ∈ P)
    (hpos : kp.1.getD i 0 > 0) :
    Dict.get (exTable P i) (kp.1.modify i (· - 1)) =
      some ((((kp.1.getD i 0 : Nat) : Rat) * kp.2) / mean P i) := by
  apply Dict.get_of_mem (exTable P i) (nodup_keys_exTable P i hn)
    (kp.1.modify i (· - 1), (((kp.1.getD i 0 : Nat) : Rat) * kp.2) / mean P i)
  exact List.mem_map.2 ⟨kp, List.mem_filter.2 ⟨hkp, (posAt_iff i kp.1).2 hpos⟩, rfl⟩

theorem mem_keys_exTable (P : Table) (i : Nat) (k' : JD) :
    k' ∈ Dict.keys (exTable P i) ↔ ∃ k ∈ Dict.keys P, k.getD i 0 > 0 ∧ k' = k.modify i (· - 1) := by
  rw [keys_exTable, List.mem_map]
  constructor
  · rintro ⟨k, hk, rfl⟩
    rw [List.mem_filter] at hk
    exact ⟨k, hk.1, (posAt_iff i k).1 hk.2, rfl⟩
  · rintro ⟨k, hk, hp, rfl⟩
    exact ⟨k, List.mem_filter.2 ⟨hk, (posAt_iff i k).2 hp⟩, rfl⟩

/-! ## 6. histogram of a network -/

/-- `for k in jds: d[k] = d.get(k, 0) + c` -/
def accum (c : Rat) (jds : List JD) (d : Table) : Table :=
  jds.foldl (fun PK k => Dict.update PK k 0 (· + c)) d

theorem jddFromNetwork_eq (jds : List JD) :
    jddFromNetwork jds = accum (1 / ((jds.length : Nat) : Rat)) jds [] := rfl

theorem get_accum (c : Rat) (jds : List JD) (d : Table) (k : JD) :
    Dict.get (accum c jds d) k =
      if k ∈ jds ∨ k ∈ Dict.keys d then some ((Dict.get d k).getD 0 + (jds.count k : Rat) * c) else none := by
  induction jds generalizing d with
  | nil =>
    simp only [accum, List.foldl_nil, List.not_mem_nil, false_or, List.count_nil, Nat.cast_zero,
      zero_mul, add_zero]
    split
    · next h =>
      have := (Dict.get_isSome_iff_mem_keys d k).2 h
      cases hg : Dict.get d k with
      | none => simp [hg] at this
      | some v => simp
    · next h => exact Dict.get_eq_none_of_not_mem d k h
  | cons y ys ih =>
    have hstep : accum c (y :: ys) d = accum c ys (Dict.update d y 0 (· + c)) := rfl
    rw [hstep, ih]
    simp only [Dict.update, Dict.mem_keys_set, Dict.get_set, List.mem_cons, List.count_cons]
    by_cases hyk : y = k
    · subst hyk
      simp only [true_or, or_true, if_true, beq_self_eq_true, Option.getD_some]
      congr 1
      push_cast
      ring
    · have hky : ¬ k = y := fun e => hyk e.symm
      have hb : (y == k) = false := by simpa using hyk
      simp only [hky, false_or, if_neg hyk, hb, Bool.false_eq_true, if_false, Nat.add_zero]

theorem sum_vals_update_add (d : Table) (k : JD) (c : Rat) :
    ((Dict.update d k 0 (· + c)).map (·.2)).sum = (d.map (·.2)).sum + c := by
  unfold Dict.update
  induction d with
  | nil => simp [Dict.set, Dict.get]
  | cons x r ih =>
    obtain ⟨a, w⟩ := x
    by_cases h : a = k
    · subst h; simp [Dict.set, Dict.get]; ring
    · simp only [Dict.set, Dict.get, if_neg h, List.map_cons, List.sum_cons, ih]; ring

theorem sum_vals_accum (c : Rat) (jds : List JD) (d : Table) :
    ((accum c jds d).map (·.2)).sum = (d.map (·.2)).sum + (jds.length : Rat) * c := by
  induction jds generalizing d with
  | nil => simp [accum]
  | cons y ys ih =>
    have hstep : accum c (y :: ys) d = accum c ys (Dict.update d y 0 (· + c)) := rfl
    rw [hstep, ih, sum_vals_update_add]
    simp only [List.length_cons]
    push_cast
    ring

theorem nodup_keys_accum (c : Rat) (jds : List JD) (d : Table) (h : (Dict.keys d).Nodup) :
    (Dict.keys (accum c jds d)).Nodup := by
  induction jds generalizing d with
  | nil => simpa [accum] using h
  | cons y ys ih =>
    have hstep : accum c (y :: ys) d = accum c ys (Dict.update d y 0 (· + c)) := rfl
    rw [hstep]
    exact ih _ (Dict.nodup_keys_set d y _ h)

/-! ## 5. row sums of a mixing matrix -/

/-- the inner `for right_key in keys` loop -/
def rowInner (ejk : Table) (left : JD) (rs : List JD) (q : Table) : Table :=
  rs.foldl (fun q right =>
    match Dict.get ejk (left ++ right) with
    | some v => Dict.update q left 0 (· + v)
    | none => q) q

/-- the outer `for left_key in keys` loop -/
def rowOuter (ejk : Table) (ks : List JD) (ls : List JD) (q : Table) : Table :=
  ls.foldl (fun q left => rowInner ejk left ks q) q

def rowStep (keys : List (String × List JD)) (ne : String × Table) : Option (String × Table) :=
  (Dict.get keys ne.1).bind fun ks => some (ne.1, rowOuter ne.2 ks ks [])

theorem excessFromEjk_unfold (ejks : List (String × Table)) (keys : List (String × List JD)) :
    excessFromEjk ejks keys = if ejks.length ≠ keys.length then none else ejks.mapM (rowStep keys) := rfl

/-- `Σ_b ejk(a ++ b)` over the listed second halves -/
def rowSum (ejk : Table) (ks : List JD) (a : JD) : Rat :=
  (ks.map fun b => (Dict.get ejk (a ++ b)).getD 0).sum

/-- some `a ++ b` is a key of the matrix -/
def hasRow (ejk : Table) (ks : List JD) (a : JD) : Bool :=
  ks.any fun b => (Dict.get ejk (a ++ b)).isSome

theorem hasRow_iff (ejk : Table) (ks : List JD) (a : JD) :
    hasRow ejk ks a = true ↔ ∃ b ∈ ks, a ++ b ∈ Dict.keys ejk := by
  simp only [hasRow, List.any_eq_true, Dict.get_isSome_iff_mem_keys]

theorem rowSum_eq_zero (ejk : Table) (ks : List JD) (a : JD) (h : hasRow ejk ks a = false) :
    rowSum ejk ks a = 0 := by
  induction ks with
  | nil => rfl
  | cons b r ih =>
    simp only [hasRow, List.any_cons, Bool.or_eq_false_iff] at h
    have h1 : Dict.get ejk (a ++ b) = none := by
      cases hg : Dict.get ejk (a ++ b) with
      | none => rfl
      | some v => rw [hg] at h; simp at h
    have := ih h.2
    simp only [rowSum, List.map_cons, List.sum_cons, h1, Option.getD_none, zero_add] at this ⊢
    exact this

theorem get_rowInner (ejk : Table) (left : JD) (rs : List JD) (q : Table) (a : JD) :
    Dict.get (rowInner ejk left rs q) a =
      if a = left ∧ hasRow ejk rs left = true then
        some ((Dict.get q left).getD 0 + rowSum ejk rs left)
      else Dict.get q a := by
  induction rs generalizing q with
  | nil => simp [rowInner, hasRow]
  | cons r rs ih =>
    have hstep : rowInner ejk left (r :: rs) q = rowInner ejk left rs
        (match Dict.get ejk (left ++ r) with
          | some v => Dict.update q left 0 (· + v)
          | none => q) := rfl
    rw [hstep, ih]
    cases hg : Dict.get ejk (left ++ r) with
    | none => simp [hg, rowSum, hasRow]
    | some v =>
      have hr : hasRow ejk (r :: rs) left = true := by simp [hasRow, hg]
      simp only [hr, and_true]
      by_cases ha : a = left
      · subst ha
        simp only [true_and, if_true, Dict.update, Dict.get_set_self, Option.getD_some]
        have e : rowSum ejk (r :: rs) a = v + rowSum ejk rs a := by
          simp [rowSum, hg]
        cases hrs : hasRow ejk rs a
        · simp only [Bool.false_eq_true, if_false, e, rowSum_eq_zero ejk rs a hrs, add_zero]
        · simp only [if_true, e]; congr 1; ring
      · have : left ≠ a := fun e => ha e.symm
        simp only [ha, false_and, if_false, Dict.update, Dict.get_set_ne _ _ this]

theorem get_rowOuter (ejk : Table) (ks ls : List JD) (q : Table) (a : JD) (hn : ls.Nodup) :
    Dict.get (rowOuter ejk ks ls q) a =
      if a ∈ ls ∧ hasRow ejk ks a = true then some ((Dict.get q a).getD 0 + rowSum ejk ks a)
      else Dict.get q a := by
  induction ls generalizing q with
  | nil => simp [rowOuter]
  | cons l ls ih =>
    have hstep : rowOuter ejk ks (l :: ls) q = rowOuter ejk ks ls (rowInner ejk l ks q) := rfl
    rw [hstep, ih _ (List.nodup_cons.1 hn).2]
    by_cases ha : a = l
    · subst ha
      have hnot : a ∉ ls := (List.nodup_cons.1 hn).1
      simp only [hnot, false_and, if_false, List.mem_cons, true_or, true_and, get_rowInner]
    · have hmem : a ∈ l :: ls ↔ a ∈ ls := by simp [ha]
      simp only [hmem, get_rowInner, ha, false_and, if_false]

theorem get_rowTable (ejk : Table) (ks : List JD) (a : JD) (hn : ks.Nodup) :
    Dict.get (rowOuter ejk ks ks []) a =
      if a ∈ ks ∧ hasRow ejk ks a = true then some (rowSum ejk ks a) else none := by
  rw [get_rowOuter ejk ks ks [] a hn]
  simp [Dict.get]

theorem excessFromEjk_some {ejks : List (String × Table)} {keys : List (String × List JD)}
    {qs : List (String × Table)} (h : excessFromEjk ejks keys = some qs) :
    ejks.length = keys.length ∧ qs.length = ejks.length ∧
      ∀ j (hj : j < ejks.length) (hj' : j < qs.length),
        ∃ ks, Dict.get keys ejks[j].1 = some ks ∧ qs[j] = (ejks[j].1, rowOuter ejks[j].2 ks ks []) := by
  rw [excessFromEjk_unfold] at h
  split at h
  · exact absurd h (by simp)
  · next hl =>
    obtain ⟨h1, h2⟩ := mapM_eq_some _ _ _ h
    refine ⟨by simpa using hl, h1, ?_⟩
    intro j hj hj'
    have := h2 j hj hj'
    simp only [rowStep] at this
    cases hg : Dict.get keys ejks[j].1 with
    | none => rw [hg] at this; exact absurd this (by simp)
    | some ks =>
      rw [hg] at this
      exact ⟨ks, rfl, (Option.some.inj this).symm⟩

/-! ## 3. inverting one excess table -/

/-- the normalising constant of `invert_single` -/
def bottomOf (q : Table) (i : Nat) : Rat :=
  (q.map fun kq => kq.2 / (((kq.1.getD i 0 + 1 : Nat)) : Rat)).sum

/-- the table built by `invert_single`, as a plain `map` -/
def invTable (q : Table) (i : Nat) : Table :=
  q.map fun kq => (kq.1.modify i (· + 1), (kq.2 / (((kq.1.getD i 0 + 1 : Nat)) : Rat)) / bottomOf q i)

theorem keys_invTable (q : Table) (i : Nat) :
    Dict.keys (invTable q i) = (Dict.keys q).map fun k => k.modify i (· + 1) := by
  simp only [invTable, Dict.keys, List.map_map]; rfl

theorem nodup_keys_invTable (q : Table) (i : Nat) (hn : (Dict.keys q).Nodup) :
    (Dict.keys (invTable q i)).Nodup := by
  rw [keys_invTable]
  exact List.Nodup.map (fun a b h => modify_succ_inj h) hn

theorem invertSingle_eq (q : Table) (i : Nat) (hn : (Dict.keys q).Nodup) :
    invertSingle q i =
      if q = [] then some [] else if bottomOf q i = 0 then none else some (invTable q i) := by
  have hb : ((q.map fun (k, v) => v / (((k.getD i 0 + 1 : Nat)) : Rat)).foldl (· + ·) 0) = bottomOf q i := by
    rw [foldl_add_eq_sum]; rfl
  simp only [invertSingle, hb, List.isEmpty_iff]
  by_cases he : q = []
  · simp [he]
  · by_cases hz : bottomOf q i = 0
    · simp [he, hz]
    · simp only [he, hz, if_false]
      congr 1
      have := Dict.foldl_set_eq (invTable q i) (nodup_keys_invTable q i hn)
      rw [← this]
      simp only [Dict.setAll, invTable, List.foldl_map]

theorem get_invTable (q : Table) (i : Nat) (hn : (Dict.keys q).Nodup) (kq : JD × Rat) (h : kq ∈ q) :
    Dict.get (invTable q i) (kq.1.modify i (· + 1)) =
      some ((kq.2 / (((kq.1.getD i 0 + 1 : Nat)) : Rat)) / bottomOf q i) := by
  apply Dict.get_of_mem (invTable q i) (nodup_keys_invTable q i hn)
    (kq.1.modify i (· + 1), (kq.2 / (((kq.1.getD i 0 + 1 : Nat)) : Rat)) / bottomOf q i)
  exact List.mem_map.2 ⟨kq, h, rfl⟩

/-- the constant of `invert_single` on an excess table is `Z_i / mean_i` -/
theorem bottomOf_exTable (P : Table) (i : Nat) :
    bottomOf (exTable P i) i = massPos P i / mean P i := by
  simp only [bottomOf, exTable, List.map_map, massPos]
  rw [← sum_map_div]
  congr 1
  apply List.map_congr_left
  intro kp hkp
  have hpos : kp.1.getD i 0 > 0 := (posAt_iff i kp.1).1 (List.mem_filter.1 hkp).2
  simp only [Function.comp]
  rw [getD_modify_pred kp.1 i hpos]
  have : ((kp.1.getD i 0 : Nat) : Rat) ≠ 0 := by
    have : kp.1.getD i 0 ≠ 0 := by omega
    exact_mod_cast this
  field_simp

/-- inverting the `i`-th excess table gives `P` conditioned on `k[i] > 0` -/
theorem invTable_exTable (P : Table) (i : Nat) (hm : mean P i ≠ 0) (hz : massPos P i ≠ 0) :
    invTable (exTable P i) i = restrictScale P (posAt i) (massPos P i) := by
  simp only [invTable, bottomOf_exTable]
  simp only [exTable, List.map_map, restrictScale]
  apply List.map_congr_left
  intro kp hkp
  have hpos : kp.1.getD i 0 > 0 := (posAt_iff i kp.1).1 (List.mem_filter.1 hkp).2
  simp only [Function.comp]
  rw [getD_modify_pred kp.1 i hpos, modify_pred_succ kp.1 i hpos]
  have : ((kp.1.getD i 0 : Nat) : Rat) ≠ 0 := by
    have : kp.1.getD i 0 ≠ 0 := by omega
    exact_mod_cast this
  congr 1
  field_simp

theorem massPos_ne_zero_filter {P : Table} {i : Nat} (hz : massPos P i ≠ 0) :
    (P.filter fun kp => posAt i kp.1) ≠ [] := by
  intro h; apply hz; simp [massPos, h]

theorem invertSingle_exTable (P : Table) (i : Nat) (hn : (Dict.keys P).Nodup) (hm : mean P i ≠ 0)
    (hz : massPos P i ≠ 0) :
    invertSingle (exTable P i) i = some (restrictScale P (posAt i) (massPos P i)) := by
  rw [invertSingle_eq _ _ (nodup_keys_exTable P i hn)]
  have he : exTable P i ≠ [] := by
    simp only [exTable, ne_eq, List.map_eq_nil_iff]
    exact massPos_ne_zero_filter hz
  have hb : bottomOf (exTable P i) i ≠ 0 := by
    rw [bottomOf_exTable]; exact div_ne_zero hz hm
  rw [if_neg he, if_neg hb, invTable_exTable P i hm hz]

theorem get_restrictScale (P : Table) (sel : JD → Bool) (z : Rat) (k : JD) :
    Dict.get (restrictScale P sel z) k = if sel k then (Dict.get P k).map (· / z) else none := by
  have : restrictScale P sel z
      = ((P.filter fun kp => sel kp.1).map fun p => (p.1, (fun _ v => v / z) p.1 p.2)) := rfl
  rw [this, get_map_val (P.filter fun kp => sel kp.1) (fun _ v => v / z) k, Dict.get_filter]
  split <;> simp

theorem keys_restrictScale (P : Table) (sel : JD → Bool) (z : Rat) :
    Dict.keys (restrictScale P sel z) = (Dict.keys P).filter sel := by
  simp only [restrictScale, Dict.keys, List.map_map, List.filter_map]; rfl

/-! ## 4. the full inversion -/

theorem get_zip {α : Type} (names : List String) (xs : List α) (hn : names.Nodup)
    (hl : names.length = xs.length) (j : Nat) (hj : j < names.length) :
    Dict.get (names.zip xs) names[j] = some (xs[j]'(hl ▸ hj)) := by
  have hk : Dict.keys (names.zip xs) = names := by
    simp only [Dict.keys]; exact List.map_fst_zip (by omega)
  have hj' : j < (names.zip xs).length := by simp [List.length_zip, ← hl]; exact hj
  have := Dict.get_getElem (names.zip xs) (by rw [hk]; exact hn) j hj'
  simpa [List.getElem_zip] using this

theorem observations_eq (qks : List (String × Table)) (tbl : Nat → Table) (l : List (String × Nat))
    (h : ∀ nj ∈ l, ∃ q, Dict.get qks nj.1 = some q ∧ invertSingle q nj.2 = some (tbl nj.2)) :
    observations qks l = some (l.map fun nj => (nj.1, tbl nj.2)) := by
  induction l with
  | nil => rfl
  | cons x r ih =>
    obtain ⟨n, j⟩ := x
    obtain ⟨q, h1, h2⟩ := h (n, j) List.mem_cons_self
    have h1' : Dict.get qks n = some q := h1
    have h2' : invertSingle q j = some (tbl j) := h2
    simp only [observations, h1', h2', ih fun nj hnj => h nj (List.mem_cons_of_mem _ hnj), List.map_cons]

theorem scaleAll_eq (ref : String) (base : Rat) (common : JD) (tbl tbl' : Nat → Table)
    (l : List (String × Nat))
    (h : ∀ nj ∈ l, (nj.1 = ref → tbl' nj.2 = tbl nj.2) ∧
      (nj.1 ≠ ref → ∃ c, Dict.get (tbl nj.2) common = some c ∧ c ≠ 0 ∧
        ((tbl nj.2).map fun kv => (kv.1, kv.2 * (base / c))) = tbl' nj.2)) :
    scaleAll ref base common (l.map fun nj => (nj.1, tbl nj.2))
      = some (l.map fun nj => (nj.1, tbl' nj.2)) := by
  induction l with
  | nil => rfl
  | cons x r ih =>
    obtain ⟨n, j⟩ := x
    have ih' := ih fun nj hnj => h nj (List.mem_cons_of_mem _ hnj)
    obtain ⟨h1, h2⟩ := h (n, j) List.mem_cons_self
    simp only [List.map_cons, scaleAll, ih']
    by_cases hr : n = ref
    · have := h1 hr
      simp only at this
      simp only [hr, if_true, this]
    · obtain ⟨c, hc1, hc2, hc3⟩ := h2 hr
      simp only at hc1 hc3
      simp only [hr, if_false, hc1, hc2, ← hc3]

theorem mergeAll_eq (scaled : List (String × Table)) :
    mergeAll scaled = scaled.foldl (fun P np => Dict.setAll P np.2) [] := rfl

/-- merging tables whose entries all agree with one function `f` of the key -/
theorem agrees_merge (f : JD → Rat) (tables : List (String × Table)) (d : Table)
    (hd : Dict.Agrees f d) (h : ∀ np ∈ tables, ∀ kv ∈ np.2, kv.2 = f kv.1) :
    Dict.Agrees f (tables.foldl (fun P np => Dict.setAll P np.2) d) := by
  induction tables generalizing d with
  | nil => exact hd
  | cons t ts ih =>
    simp only [List.foldl_cons]
    exact ih _ (Dict.agrees_setAll t.2 d hd (h t List.mem_cons_self))
      (fun np hnp => h np (List.mem_cons_of_mem _ hnp))

theorem mem_keys_merge (tables : List (String × Table)) (d : Table) (k : JD) :
    k ∈ Dict.keys (tables.foldl (fun P np => Dict.setAll P np.2) d) ↔
      k ∈ Dict.keys d ∨ ∃ np ∈ tables, k ∈ Dict.keys np.2 := by
  induction tables generalizing d with
  | nil => simp
  | cons t ts ih =>
    simp only [List.foldl_cons]
    rw [ih, Dict.mem_keys_setAll]
    simp only [List.mem_cons, exists_eq_or_imp]
    exact or_assoc

theorem nodup_keys_merge (tables : List (String × Table)) (d : Table) (hd : (Dict.keys d).Nodup) :
    (Dict.keys (tables.foldl (fun P np => Dict.setAll P np.2) d)).Nodup := by
  induction tables generalizing d with
  | nil => simpa using hd
  | cons t ts ih => simp only [List.foldl_cons]; exact ih _ (Dict.nodup_keys_setAll t.2 d hd)

theorem renormalise_eq (merged : Table) :
    renormalise merged =
      if merged = [] then some [] else
      if (merged.map (·.2)).sum = 0 then none else
      some (merged.map fun kv => (kv.1, kv.2 / (merged.map (·.2)).sum)) := by
  simp only [renormalise, foldl_add_eq_sum, List.isEmpty_iff]

/-- the observations after rescaling: every one is `P` restricted to `k[j] > 0`, divided by the same `z` -/
def scaledObs (P : Table) (names : List String) (z : Rat) : List (String × Table) :=
  names.zipIdx.map fun nj => (nj.1, restrictScale P (posAt nj.2) z)

theorem sum_restrictScale (P : Table) (sel : JD → Bool) (z : Rat) :
    ((restrictScale P sel z).map (·.2)).sum = ((P.filter fun kp => sel kp.1).map (·.2)).sum / z := by
  simp only [restrictScale, List.map_map]
  rw [← sum_map_div]
  rfl

theorem nodup_keys_restrictScale (P : Table) (sel : JD → Bool) (z : Rat) (hn : (Dict.keys P).Nodup) :
    (Dict.keys (restrictScale P sel z)).Nodup := by
  rw [keys_restrictScale]; exact hn.filter _

theorem mem_keys_of_mem {P : Table} {kp : JD × Rat} (h : kp ∈ P) : kp.1 ∈ Dict.keys P :=
  List.mem_map.2 ⟨kp, h, rfl⟩

theorem get_merged (P : Table) (T : Nat) (names : List String) (z : Rat) (hu : Uniform P T)
    (hn : (Dict.keys P).Nodup) (hlen : names.length = T) (k : JD) :
    Dict.get (mergeAll (scaledObs P names z)) k = Dict.get (restrictScale P anyPos z) k := by
  rw [mergeAll_eq]
  let f : JD → Rat := fun k => (Dict.get P k).getD 0 / z
  have hag : Dict.Agrees f ((scaledObs P names z).foldl (fun P np => Dict.setAll P np.2) []) := by
    apply agrees_merge f _ [] (Dict.agrees_nil f)
    intro np hnp kv hkv
    obtain ⟨nj, _, rfl⟩ := List.mem_map.1 hnp
    obtain ⟨kp, hkp, rfl⟩ := List.mem_map.1 hkv
    have := Dict.get_of_mem P hn kp (List.mem_filter.1 hkp).1
    simp only [f, this, Option.getD_some]
  have hkeys : k ∈ Dict.keys ((scaledObs P names z).foldl (fun P np => Dict.setAll P np.2) []) ↔
      k ∈ Dict.keys P ∧ ∃ j, j < T ∧ posAt j k = true := by
    rw [mem_keys_merge]
    have : k ∉ Dict.keys ([] : Table) := by simp [Dict.keys]
    simp only [this, false_or, scaledObs, List.mem_map, List.mem_zipIdx_iff_getElem?]
    constructor
    · rintro ⟨np, ⟨nj, hnj, rfl⟩, hk⟩
      rw [keys_restrictScale, List.mem_filter] at hk
      have hj : nj.2 < names.length := by
        rcases Nat.lt_or_ge nj.2 names.length with h | h
        · exact h
        · rw [List.getElem?_eq_none h] at hnj; exact absurd hnj (by simp)
      exact ⟨hk.1, nj.2, hlen ▸ hj, hk.2⟩
    · rintro ⟨hkP, j, hj, hp⟩
      have hj' : j < names.length := hlen ▸ hj
      refine ⟨(names[j], restrictScale P (posAt j) z), ⟨(names[j], j), ?_, rfl⟩, ?_⟩
      · simp [List.getElem?_eq_getElem hj']
      · rw [keys_restrictScale, List.mem_filter]; exact ⟨hkP, hp⟩
  rw [get_restrictScale]
  by_cases hk : k ∈ Dict.keys ((scaledObs P names z).foldl (fun P np => Dict.setAll P np.2) [])
  · rw [Dict.get_of_agrees hag hk]
    obtain ⟨hkP, j, hj, hp⟩ := hkeys.1 hk
    have hany : anyPos k = true := (anyPos_iff k).2 ⟨j, posAt_lt_length hp, (posAt_iff j k).1 hp⟩
    rw [if_pos hany]
    have := (Dict.get_isSome_iff_mem_keys P k).2 hkP
    cases hg : Dict.get P k with
    | none => simp [hg] at this
    | some v => simp [f, hg]
  · rw [Dict.get_eq_none_of_not_mem _ k hk]
    split
    · next hany =>
      by_cases hkP : k ∈ Dict.keys P
      · exfalso
        apply hk
        obtain ⟨j, hj, hp⟩ := (anyPos_iff k).1 hany
        obtain ⟨kp, hkp, rfl⟩ := List.mem_map.1 hkP
        have hlenk : kp.1.length = T := hu kp hkp
        exact hkeys.2 ⟨hkP, j, hlenk ▸ hj, (posAt_iff j kp.1).2 hp⟩
      · rw [Dict.get_eq_none_of_not_mem P k hkP]; rfl
    · rfl

theorem nodup_keys_merged (P : Table) (names : List String) (z : Rat) :
    (Dict.keys (mergeAll (scaledObs P names z))).Nodup := by
  rw [mergeAll_eq]; exact nodup_keys_merge _ [] (by simp [Dict.keys])

theorem sum_merged (P : Table) (T : Nat) (names : List String) (z : Rat) (hu : Uniform P T)
    (hn : (Dict.keys P).Nodup) (hlen : names.length = T) :
    ((mergeAll (scaledObs P names z)).map (·.2)).sum = massAnyPos P / z := by
  have hperm := Dict.perm_of_get_eq (nodup_keys_merged P names z)
    (nodup_keys_restrictScale P anyPos z hn) (get_merged P T names z hu hn hlen)
  rw [(hperm.map (·.2)).sum_eq, sum_restrictScale]
  rfl

theorem observations_excess (P : Table) (T : Nat) (names : List String) (hn : (Dict.keys P).Nodup)
    (hnames : names.Nodup) (hlen : names.length = T)
    (hmean : ∀ i, i < T → mean P i ≠ 0) (hZi : ∀ i, i < T → massPos P i ≠ 0) :
    observations (names.zip ((List.range T).map (exTable P))) names.zipIdx =
      some (names.zipIdx.map fun nj => (nj.1, restrictScale P (posAt nj.2) (massPos P nj.2))) := by
  apply observations_eq _ (fun j => restrictScale P (posAt j) (massPos P j))
  intro nj hnj
  rw [List.mem_zipIdx_iff_getElem?] at hnj
  have hj : nj.2 < names.length := by
    rcases Nat.lt_or_ge nj.2 names.length with h | h
    · exact h
    · rw [List.getElem?_eq_none h] at hnj; exact absurd hnj (by simp)
  rw [List.getElem?_eq_getElem hj] at hnj
  have hnj' : names[nj.2] = nj.1 := Option.some.inj hnj
  have hjT : nj.2 < T := hlen ▸ hj
  refine ⟨exTable P nj.2, ?_, invertSingle_exTable P nj.2 hn (hmean _ hjT) (hZi _ hjT)⟩
  have := get_zip names ((List.range T).map (exTable P)) hnames (by simp [hlen]) nj.2 hj
  rw [hnj'] at this
  rw [this]
  simp

/-- the whole pipeline `excess tables → observations → rescale → merge → renormalise` on the excess tables
    of `P` returns `P` conditioned on `k ≠ 0` -/
theorem jddFromExcess_excess (P : Table) (T : Nat) (names : List String) (common : JD) (pc : Rat)
    (hu : Uniform P T) (hn : (Dict.keys P).Nodup) (hT : 0 < T)
    (hnames : names.Nodup) (hlen : names.length = T)
    (hmean : ∀ i, i < T → mean P i ≠ 0) (hZi : ∀ i, i < T → massPos P i ≠ 0)
    (hZ : massAnyPos P ≠ 0)
    (hc : (common, pc) ∈ P) (hcpos : ∀ i, i < T → common.getD i 0 > 0) (hpc : pc ≠ 0) :
    ∃ R, jddFromExcess (names.zip ((List.range T).map (exTable P))) names common = some R ∧
      (Dict.keys R).Nodup ∧
      ∀ k, Dict.get R k = if anyPos k then (Dict.get P k).map (· / massAnyPos P) else none := by
  have hgetc : Dict.get P common = some pc := Dict.get_of_mem P hn (common, pc) hc
  have hZ0 : massPos P 0 ≠ 0 := hZi 0 hT
  -- the value of observation `j` on the common key
  have hobsc : ∀ j, j < T → ∀ z, Dict.get (restrictScale P (posAt j) z) common = some (pc / z) := by
    intro j hj z
    rw [get_restrictScale, if_pos ((posAt_iff j common).2 (hcpos j hj)), hgetc]; rfl
  cases names with
  | nil => simp at hlen; omega
  | cons n0 rest =>
    have hobs := observations_excess P T (n0 :: rest) hn hnames hlen hmean hZi
    -- base value
    have hbase : baseValue ((n0 :: rest).zipIdx.map fun nj =>
        (nj.1, restrictScale P (posAt nj.2) (massPos P nj.2))) n0 common = some (pc / massPos P 0) := by
      simp only [List.zipIdx_cons, List.map_cons, baseValue, Dict.get, if_true]
      exact hobsc 0 hT _
    -- rescaling
    have hscale : scaleAll n0 (pc / massPos P 0) common ((n0 :: rest).zipIdx.map fun nj =>
        (nj.1, restrictScale P (posAt nj.2) (massPos P nj.2))) = some (scaledObs P (n0 :: rest) (massPos P 0)) := by
      apply scaleAll_eq n0 (pc / massPos P 0) common
        (fun j => restrictScale P (posAt j) (massPos P j)) (fun j => restrictScale P (posAt j) (massPos P 0))
      intro nj hnj
      rw [List.mem_zipIdx_iff_getElem?] at hnj
      have hj : nj.2 < (n0 :: rest).length := by
        rcases Nat.lt_or_ge nj.2 (n0 :: rest).length with h | h
        · exact h
        · rw [List.getElem?_eq_none h] at hnj; exact absurd hnj (by simp)
      rw [List.getElem?_eq_getElem hj] at hnj
      have hnj' : (n0 :: rest)[nj.2] = nj.1 := Option.some.inj hnj
      have hjT : nj.2 < T := hlen ▸ hj
      constructor
      · intro hr
        have h0 : (n0 :: rest)[0]'(by simp) = n0 := rfl
        have : nj.2 = 0 := by
          have e : (n0 :: rest)[nj.2] = (n0 :: rest)[0]'(by simp) := by rw [hnj', hr, h0]
          exact (hnames.getElem_inj_iff).1 e
        rw [this]
      · intro _
        have hzj : massPos P nj.2 ≠ 0 := hZi _ hjT
        refine ⟨pc / massPos P nj.2, hobsc _ hjT _, div_ne_zero hpc hzj, ?_⟩
        simp only [restrictScale, List.map_map]
        apply List.map_congr_left
        intro kp _
        simp only [Function.comp]
        congr 1
        field_simp
    -- merge and renormalise
    have hsum := sum_merged P T (n0 :: rest) (massPos P 0) hu hn hlen
    have hmerged := get_merged P T (n0 :: rest) (massPos P 0) hu hn hlen
    have htot : ((mergeAll (scaledObs P (n0 :: rest) (massPos P 0))).map (·.2)).sum ≠ 0 := by
      rw [hsum]; exact div_ne_zero hZ hZ0
    have hmne : mergeAll (scaledObs P (n0 :: rest) (massPos P 0)) ≠ [] := by
      intro h; rw [h] at htot; exact htot rfl
    refine ⟨(mergeAll (scaledObs P (n0 :: rest) (massPos P 0))).map fun kv =>
      (kv.1, kv.2 / ((mergeAll (scaledObs P (n0 :: rest) (massPos P 0))).map (·.2)).sum), ?_, ?_, ?_⟩
    · simp only [jddFromExcess, List.head?_cons, hobs, hbase, hscale]
      rw [renormalise_eq, if_neg hmne, if_neg htot]
    · have : Dict.keys ((mergeAll (scaledObs P (n0 :: rest) (massPos P 0))).map fun kv =>
          (kv.1, kv.2 / ((mergeAll (scaledObs P (n0 :: rest) (massPos P 0))).map (·.2)).sum))
          = Dict.keys (mergeAll (scaledObs P (n0 :: rest) (massPos P 0))) := by
        simp only [Dict.keys, List.map_map]; rfl
      rw [this]; exact nodup_keys_merged P _ _
    · intro k
      rw [get_map_val (mergeAll (scaledObs P (n0 :: rest) (massPos P 0)))
        (fun _ v => v / ((mergeAll (scaledObs P (n0 :: rest) (massPos P 0))).map (·.2)).sum) k,
        hmerged k, get_restrictScale, hsum]
      split
      · cases Dict.get P k with
        | none => rfl
        | some v =>
          simp only [Option.map_some]
          congr 1
          field_simp
      · rfl

/-! ### non-negative masses make every normalising constant non-zero -/

theorem le_sum_of_mem_nonneg {α : Type} (l : List α) (g : α → Rat) (h : ∀ a ∈ l, 0 ≤ g a)
    (a : α) (ha : a ∈ l) : g a ≤ (l.map g).sum := by
  induction l with
  | nil => simp at ha
  | cons x xs ih =>
    simp only [List.map_cons, List.sum_cons]
    have hx : 0 ≤ g x := h x List.mem_cons_self
    have hxs : 0 ≤ (xs.map g).sum := sum_map_nonneg xs g fun b hb => h b (List.mem_cons_of_mem _ hb)
    rcases List.mem_cons.1 ha with rfl | ha'
    · linarith
    · have := ih (fun b hb => h b (List.mem_cons_of_mem _ hb)) ha'
      linarith

theorem mean_pos (P : Table) (i : Nat) (hnn : ∀ kp ∈ P, 0 ≤ kp.2) (c : JD) (pc : Rat)
    (hc : (c, pc) ∈ P) (hci : c.getD i 0 > 0) (hpc : 0 < pc) : 0 < mean P i := by
  have h1 := le_sum_of_mem_nonneg P (fun kp => ((kp.1.getD i 0 : Nat) : Rat) * kp.2)
    (fun kp hkp => mul_nonneg (Nat.cast_nonneg _) (hnn kp hkp)) (c, pc) hc
  have h2 : (1 : Rat) ≤ ((c.getD i 0 : Nat) : Rat) := by exact_mod_cast hci
  have h3 : pc ≤ ((c.getD i 0 : Nat) : Rat) * pc := by nlinarith
  have h1' : ((c.getD i 0 : Nat) : Rat) * pc ≤ mean P i := h1
  linarith

theorem massPos_pos (P : Table) (i : Nat) (hnn : ∀ kp ∈ P, 0 ≤ kp.2) (c : JD) (pc : Rat)
    (hc : (c, pc) ∈ P) (hci : c.getD i 0 > 0) (hpc : 0 < pc) : 0 < massPos P i := by
  have h1 := le_sum_of_mem_nonneg (P.filter fun kp => posAt i kp.1) (fun kp => kp.2)
    (fun kp hkp => hnn kp (List.mem_filter.1 hkp).1) (c, pc)
    (List.mem_filter.2 ⟨hc, (posAt_iff i c).2 hci⟩)
  have h1' : pc ≤ massPos P i := h1
  linarith

theorem massAnyPos_pos (P : Table) (hnn : ∀ kp ∈ P, 0 ≤ kp.2) (c : JD) (pc : Rat)
    (hc : (c, pc) ∈ P) (hca : anyPos c = true) (hpc : 0 < pc) : 0 < massAnyPos P := by
  have h1 := le_sum_of_mem_nonneg (P.filter fun kp => anyPos kp.1) (fun kp => kp.2)
    (fun kp hkp => hnn kp (List.mem_filter.1 hkp).1) (c, pc)
    (List.mem_filter.2 ⟨hc, hca⟩)
  have h1' : pc ≤ massAnyPos P := h1
  linarith

/-! ### row sums read off the matrix itself -/

/-- when every matrix key splits as `a ++ b` with both halves listed and of length `T`, the sum over the
    listed second halves is the sum of the matrix entries whose first half is `a` -/
theorem rowSum_eq_matrix (ejk : Table) (ks : List JD) (T : Nat) (a : JD) (hnk : ks.Nodup)
    (hne : (Dict.keys ejk).Nodup) (hlen : ∀ k ∈ ks, k.length = T)
    (hform : ∀ k ∈ Dict.keys ejk, ∃ a' ∈ ks, ∃ b' ∈ ks, k = a' ++ b') (ha : a ∈ ks) :
    rowSum ejk ks a = ((ejk.filter fun kv => decide (kv.1.take T = a)).map (·.2)).sum := by
  let g : JD → Rat := fun b => (Dict.get ejk (a ++ b)).getD 0
  let S := ks.filter fun b => (Dict.get ejk (a ++ b)).isSome
  let L1 : Table := S.map fun b => (a ++ b, g b)
  let L2 : Table := ejk.filter fun kv => decide (kv.1.take T = a)
  have hS : rowSum ejk ks a = (S.map g).sum := by
    symm
    apply sum_map_filter_eq
    intro b _ hb
    show (Dict.get ejk (a ++ b)).getD 0 = 0
    cases hg : Dict.get ejk (a ++ b) with
    | none => rfl
    | some v => rw [hg] at hb; simp at hb
  have hL1sum : (L1.map (·.2)).sum = (S.map g).sum := by
    simp only [L1, List.map_map]; rfl
  have hkeys1 : Dict.keys L1 = S.map fun b => a ++ b := by
    simp only [L1, Dict.keys, List.map_map]; rfl
  have hn1 : (Dict.keys L1).Nodup := by
    rw [hkeys1]
    exact List.Nodup.map (fun x y h => List.append_cancel_left h) (hnk.filter _)
  have hn2 : (Dict.keys L2).Nodup := by
    have : Dict.keys L2 = (Dict.keys ejk).filter fun k => decide (k.take T = a) :=
      Dict.keys_filter ejk fun k => decide (k.take T = a)
    rw [this]; exact hne.filter _
  have haT : a.length = T := hlen a ha
  have hget : ∀ k, Dict.get L1 k = Dict.get L2 k := by
    intro k
    have h2 : Dict.get L2 k = if decide (k.take T = a) then Dict.get ejk k else none :=
      Dict.get_filter ejk (fun k => decide (k.take T = a)) k
    rw [h2]
    by_cases hk : k ∈ Dict.keys L1
    · rw [hkeys1, List.mem_map] at hk
      obtain ⟨b, hb, rfl⟩ := hk
      have hb' := (List.mem_filter.1 hb).2
      have hmem : (a ++ b, g b) ∈ L1 := List.mem_map.2 ⟨b, hb, rfl⟩
      rw [Dict.get_of_mem L1 hn1 (a ++ b, g b) hmem]
      have ht : (a ++ b).take T = a := List.take_left' haT
      simp only [ht, decide_true, if_true]
      cases hg : Dict.get ejk (a ++ b) with
      | none => rw [hg] at hb'; simp at hb'
      | some v => simp [g, hg]
    · rw [Dict.get_eq_none_of_not_mem L1 k hk]
      split
      · next ht =>
        have ht' : k.take T = a := of_decide_eq_true ht
        cases hg : Dict.get ejk k with
        | none => rfl
        | some v =>
          exfalso
          apply hk
          have hkm : k ∈ Dict.keys ejk := (Dict.get_isSome_iff_mem_keys ejk k).1 (by simp [hg])
          obtain ⟨a', ha', b', hb', rfl⟩ := hform k hkm
          have : (a' ++ b').take T = a' := List.take_left' (hlen a' ha')
          rw [this] at ht'
          subst ht'
          rw [hkeys1, List.mem_map]
          exact ⟨b', List.mem_filter.2 ⟨hb', by simp [hg]⟩, rfl⟩
      · rfl
  have hperm := Dict.perm_of_get_eq hn1 hn2 hget
  rw [hS, ← hL1sum, (hperm.map (·.2)).sum_eq]

end Gcmpy.Algebra
