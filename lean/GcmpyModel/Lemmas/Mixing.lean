import GcmpyModel.Model.Mixing
import GcmpyModel.Lemmas.Dict
import Mathlib.Algebra.Order.Field.Rat
import Mathlib.Algebra.BigOperators.Group.List.Basic
import Mathlib.Tactic.Ring
import Mathlib.Tactic.FieldSimp
import Mathlib.Data.List.Nodup
/-!
Helper lemmas for property C13 (mixing-matrix extractors).
Model: `GcmpyModel/Model/Mixing.lean`.  The property statements live in `GcmpyModel/Properties/C13.lean`.

Route: `getEjk` is, literally, the weighted counter `addAll ((1/2)/E) []` run over the list of concatenated
edge ends (the self-paired branch `+ 1/E` is two successive `+ (1/2)/E` on the same key).
-/

/-! ## more dictionary facts -/
namespace Gcmpy.Dict
variable {κ ν : Type} [DecidableEq κ]

theorem set_set (d : List (κ × ν)) (k : κ) (v w : ν) : set (set d k v) k w = set d k w := by
  induction d with
  | nil => simp [set]
  | cons x r ih =>
    obtain ⟨a, u⟩ := x
    by_cases h : a = k
    · subst h; simp [set]
    · simp [set, h, ih]

theorem mem_of_get_eq_some {d : List (κ × ν)} {k : κ} {v : ν} (h : get d k = some v) : (k, v) ∈ d := by
  induction d with
  | nil => simp [get] at h
  | cons x r ih =>
    obtain ⟨a, u⟩ := x
    by_cases h1 : a = k
    · subst h1
      simp only [get, if_true, Option.some.injEq] at h
      subst h; exact List.mem_cons_self
    · simp only [get, if_neg h1] at h
      exact List.mem_cons_of_mem _ (ih h)

theorem get_update (d : List (κ × ν)) (k k' : κ) (dflt : ν) (f : ν → ν) :
    get (update d k dflt f) k' = if k = k' then some (f ((get d k).getD dflt)) else get d k' := by
  simp only [update, get_set]

theorem mem_keys_update (d : List (κ × ν)) (k k' : κ) (dflt : ν) (f : ν → ν) :
    k' ∈ keys (update d k dflt f) ↔ k' = k ∨ k' ∈ keys d := by
  simp only [update, mem_keys_set]

theorem update_update_self (d : List (κ × ν)) (k : κ) (dflt : ν) (f g : ν → ν) :
    update (update d k dflt f) k dflt g = update d k dflt (g ∘ f) := by
  simp only [update, get_set_self, set_set, Option.getD_some, Function.comp]

theorem keys_update_eq (d : List (κ × ν)) (k : κ) (dflt : ν) (f : ν → ν) :
    keys (update d k dflt f) = if k ∈ keys d then keys d else keys d ++ [k] := by
  unfold update
  split
  · next h => exact keys_set_of_mem d k _ h
  · next h => exact keys_set_of_not_mem d k _ h

theorem keys_update_nodup' (d : List (κ × ν)) (k : κ) (dflt : ν) (f : ν → ν) (h : (keys d).Nodup) :
    (keys (update d k dflt f)).Nodup := by
  rw [keys_update_eq]
  split
  · exact h
  · next hk =>
    rw [List.nodup_append]
    refine ⟨h, by simp, ?_⟩
    intro a ha b hb
    simp only [List.mem_singleton] at hb
    subst hb
    intro e; subst e; exact hk ha

theorem get_getD_of_mem_keys {d : List (κ × ν)} {k : κ} (dflt : ν) (h : k ∈ keys d) :
    get d k = some ((get d k).getD dflt) := by
  have := (get_isSome_iff_mem_keys d k).2 h
  cases hg : get d k with
  | none => simp [hg] at this
  | some v => simp

end Gcmpy.Dict

namespace Gcmpy.Mixing
open Gcmpy Gcmpy.Loaders

/-! ## the weighted counter -/
section AddAll
variable {κ : Type} [DecidableEq κ]

/-- `for k in ks: d[k] = d.get(k, 0) + w` -/
def addAll (w : Rat) (d : List (κ × Rat)) (ks : List κ) : List (κ × Rat) :=
  ks.foldl (fun d k => Dict.update d k 0 (· + w)) d

theorem addAll_cons (w : Rat) (d : List (κ × Rat)) (k : κ) (ks : List κ) :
    addAll w d (k :: ks) = addAll w (Dict.update d k 0 (· + w)) ks := rfl

theorem get_addAll (w : Rat) (ks : List κ) (d : List (κ × Rat)) (k : κ) :
    Dict.get (addAll w d ks) k =
      if k ∈ ks ∨ k ∈ Dict.keys d then some ((Dict.get d k).getD 0 + ((ks.count k : Nat) : Rat) * w)
      else none := by
  induction ks generalizing d with
  | nil =>
    simp only [addAll, List.foldl_nil, List.not_mem_nil, false_or, List.count_nil, Nat.cast_zero,
      zero_mul, add_zero]
    split
    · next h => exact Dict.get_getD_of_mem_keys 0 h
    · next h => exact Dict.get_eq_none_of_not_mem d k h
  | cons y ys ih =>
    rw [addAll_cons, ih]
    simp only [Dict.mem_keys_update, Dict.get_update, List.mem_cons, List.count_cons]
    by_cases hyk : y = k
    · subst hyk
      simp only [true_or, or_true, if_true, beq_self_eq_true, Option.getD_some, Nat.cast_add,
        Nat.cast_one]
      congr 1; ring
    · have hky : ¬ k = y := fun e => hyk e.symm
      have hb : (y == k) = false := by simpa using hyk
      simp only [hky, false_or, if_neg hyk, hb, Bool.false_eq_true, if_false, Nat.add_zero]

theorem keys_addAll_nodup (w : Rat) (ks : List κ) (d : List (κ × Rat)) (h : (Dict.keys d).Nodup) :
    (Dict.keys (addAll w d ks)).Nodup := by
  induction ks generalizing d with
  | nil => exact h
  | cons y ys ih => rw [addAll_cons]; exact ih _ (Dict.keys_update_nodup' d y 0 _ h)

theorem sum_filter_update (P : κ → Bool) (d : List (κ × Rat)) (k : κ) (w : Rat) :
    (((Dict.update d k 0 (· + w)).filter (fun p => P p.1)).map (·.2)).sum =
      ((d.filter (fun p => P p.1)).map (·.2)).sum + if P k then w else 0 := by
  unfold Dict.update
  induction d with
  | nil =>
    by_cases hp : P k <;> simp [Dict.set, Dict.get, hp]
  | cons x r ih =>
    obtain ⟨a, u⟩ := x
    by_cases h : a = k
    · subst h
      by_cases hp : P a <;> simp [Dict.set, Dict.get, hp]
      ring
    · simp only [Dict.set, Dict.get, if_neg h]
      by_cases hp : P a
      · simp only [List.filter_cons, hp, if_true, List.map_cons, List.sum_cons, ih]; ring
      · simp only [List.filter_cons, hp, Bool.false_eq_true, if_false, ih]

theorem sum_filter_addAll (P : κ → Bool) (w : Rat) (ks : List κ) (d : List (κ × Rat)) :
    (((addAll w d ks).filter (fun p => P p.1)).map (·.2)).sum =
      ((d.filter (fun p => P p.1)).map (·.2)).sum + (((ks.filter P).length : Nat) : Rat) * w := by
  induction ks generalizing d with
  | nil => simp [addAll]
  | cons y ys ih =>
    rw [addAll_cons, ih, sum_filter_update]
    by_cases hp : P y
    · simp only [hp, if_true, List.filter_cons, List.length_cons, Nat.cast_add, Nat.cast_one]; ring
    · simp only [hp, Bool.false_eq_true, if_false, List.filter_cons, add_zero]

theorem sum_addAll (w : Rat) (ks : List κ) (d : List (κ × Rat)) :
    ((addAll w d ks).map (·.2)).sum = (d.map (·.2)).sum + ((ks.length : Nat) : Rat) * w := by
  have := sum_filter_addAll (fun _ => true) w ks d
  simpa using this

end AddAll

/-! ## edge counter -/

/-- number of edges of topology `name` -/
def numE (net : ANet) (name : String) : Nat := (net.edges.filter (fun e => e.2.2 = name)).length

theorem get_countFold (es : List (Nat × Nat × String)) (start : List (String × Nat)) (name : String) :
    Dict.get (es.foldl (fun d e => Dict.update d e.2.2 0 (· + 1)) start) name =
      if (es.filter (fun e => e.2.2 = name)).length = 0 ∧ name ∉ Dict.keys start then none
      else some ((Dict.get start name).getD 0 + (es.filter (fun e => e.2.2 = name)).length) := by
  induction es generalizing start with
  | nil =>
    simp only [List.foldl_nil, List.filter_nil, List.length_nil, true_and, Nat.add_zero]
    split
    · next h => exact Dict.get_eq_none_of_not_mem start name h
    · next h => exact Dict.get_getD_of_mem_keys 0 (Classical.not_not.1 h)
  | cons e es ih =>
    rw [List.foldl_cons, ih]
    simp only [Dict.mem_keys_update, Dict.get_update, List.filter_cons]
    by_cases he : e.2.2 = name
    · simp only [he, decide_true, if_true, List.length_cons, true_or, not_true_eq_false, and_false,
        if_false, Option.getD_some, Nat.succ_ne_zero, false_and]
      congr 1; omega
    · have he' : ¬ name = e.2.2 := fun h => he h.symm
      simp only [he, decide_false, Bool.false_eq_true, if_false, he', false_or]

theorem aux_count_edge_types (net : ANet) (name : String) :
    Dict.get (countEdgeTypes net []) name = if numE net name = 0 then none else some (numE net name) := by
  unfold countEdgeTypes numE
  rw [get_countFold]
  simp only [Dict.keys, List.map_nil, List.not_mem_nil, not_false_eq_true, and_true, Dict.get,
    Option.getD_none, Nat.zero_add]

theorem getD_countEdgeTypes (net : ANet) (name : String) :
    (Dict.get (countEdgeTypes net []) name).getD 0 = numE net name := by
  rw [aux_count_edge_types]
  split
  · next h => simp [h]
  · simp

/-! ## edge ends -/

/-- hypothesis: all annotated joint-degree tuples have length `T` -/
def Uniform (net : ANet) (T : Nat) : Prop := ∀ p ∈ net.jd, p.2.length = T

/-- hypothesis: both end points of every edge carry a joint-degree annotation -/
def Annotated (net : ANet) : Prop :=
  ∀ e ∈ net.edges, (Dict.get net.jd e.1).isSome ∧ (Dict.get net.jd e.2.1).isSome

/-- the edge ends of the edges `es` of topology `name`, as (own excess tuple, partner's excess tuple) -/
def endsIn (net : ANet) (i : Nat) (name : String) (es : List (Nat × Nat × String)) : List (JD × JD) :=
  (es.filter (fun e => e.2.2 = name)).flatMap fun e =>
    [(excess (jdOf net e.1) i, excess (jdOf net e.2.1) i),
     (excess (jdOf net e.2.1) i, excess (jdOf net e.1) i)]

/-- the edge ends of topology `name`: every edge `(u, v)` of that topology contributes the end at `u`
    (own excess `excess(u)`, partner excess `excess(v)`) and the end at `v` -/
def ends (net : ANet) (i : Nat) (name : String) : List (JD × JD) := endsIn net i name net.edges

/-- key of an end: the concatenation of the two tuples -/
def cat (q : JD × JD) : JD := q.1 ++ q.2

theorem endsIn_cons_pos (net : ANet) (i : Nat) {name : String} {e : Nat × Nat × String}
    (es : List (Nat × Nat × String)) (h : e.2.2 = name) :
    endsIn net i name (e :: es) =
      (excess (jdOf net e.1) i, excess (jdOf net e.2.1) i) ::
      (excess (jdOf net e.2.1) i, excess (jdOf net e.1) i) :: endsIn net i name es := by
  simp [endsIn, h]

theorem endsIn_cons_neg (net : ANet) (i : Nat) {name : String} {e : Nat × Nat × String}
    (es : List (Nat × Nat × String)) (h : ¬ e.2.2 = name) :
    endsIn net i name (e :: es) = endsIn net i name es := by
  simp [endsIn, h]

theorem length_endsIn (net : ANet) (i : Nat) (name : String) (es : List (Nat × Nat × String)) :
    (endsIn net i name es).length = 2 * (es.filter (fun e => e.2.2 = name)).length := by
  induction es with
  | nil => simp [endsIn]
  | cons e es ih =>
    by_cases h : e.2.2 = name
    · rw [endsIn_cons_pos net i es h]; simp [h, ih]; omega
    · rw [endsIn_cons_neg net i es h]; simp [h, ih]

theorem length_ends (net : ANet) (i : Nat) (name : String) : (ends net i name).length = 2 * numE net name :=
  length_endsIn net i name net.edges

/-- `get_ejk` as a fold of a named step function -/
def stepE (net : ANet) (E : Rat) (i : Nat) (name : String) (ejk : Table) (e : Nat × Nat × String) : Table :=
  if e.2.2 = name then
    if excess (jdOf net e.1) i ++ excess (jdOf net e.2.1) i = excess (jdOf net e.2.1) i ++ excess (jdOf net e.1) i
    then Dict.update ejk (excess (jdOf net e.1) i ++ excess (jdOf net e.2.1) i) 0 (· + 1 / E)
    else Dict.update (Dict.update ejk (excess (jdOf net e.1) i ++ excess (jdOf net e.2.1) i) 0 (· + (1 / 2) / E))
      (excess (jdOf net e.2.1) i ++ excess (jdOf net e.1) i) 0 (· + (1 / 2) / E)
  else ejk

theorem getEjk_eq_foldl (net : ANet) (ne : List (String × Nat)) (i : Nat) (name : String) :
    getEjk net ne i name =
      net.edges.foldl (stepE net (((Dict.get ne name).getD 0 : Nat) : Rat) i name) [] := rfl

theorem foldl_stepE (net : ANet) (E : Rat) (i : Nat) (name : String) (es : List (Nat × Nat × String))
    (acc : Table) :
    es.foldl (stepE net E i name) acc = addAll ((1 / 2) / E) acc ((endsIn net i name es).map cat) := by
  induction es generalizing acc with
  | nil => rfl
  | cons e es ih =>
    rw [List.foldl_cons, ih]
    by_cases h : e.2.2 = name
    · rw [endsIn_cons_pos net i es h]
      simp only [List.map_cons, addAll_cons, cat, stepE, if_pos h]
      congr 1
      split
      · next heq =>
        rw [← heq, Dict.update_update_self]
        congr 1
        funext x
        simp only [Function.comp]
        ring
      · rfl
    · rw [endsIn_cons_neg net i es h]
      simp only [stepE, if_neg h]

/-- `get_ejk` is the weighted counter over the concatenated edge ends, each end weighing `1/(2E)` -/
theorem getEjk_eq_addAll (net : ANet) (ne : List (String × Nat)) (i : Nat) (name : String) :
    getEjk net ne i name =
      addAll ((1 / 2) / (((Dict.get ne name).getD 0 : Nat) : Rat)) [] ((ends net i name).map cat) := by
  rw [getEjk_eq_foldl, foldl_stepE]; rfl

/-! ## lengths, and counting ends through their keys -/

theorem length_excess (jd : JD) (i : Nat) : (excess jd i).length = jd.length := by
  simp [excess]

theorem length_jdOf {net : ANet} {T : Nat} (hU : Uniform net T) {v : Nat}
    (hv : (Dict.get net.jd v).isSome) : (jdOf net v).length = T := by
  unfold jdOf
  cases hg : Dict.get net.jd v with
  | none => simp [hg] at hv
  | some jd => exact hU _ (Dict.mem_of_get_eq_some hg)

theorem jdOf_mem {net : ANet} {v : Nat} (hv : (Dict.get net.jd v).isSome) :
    jdOf net v ∈ net.jd.map (·.2) := by
  unfold jdOf
  cases hg : Dict.get net.jd v with
  | none => simp [hg] at hv
  | some jd => exact List.mem_map.2 ⟨_, Dict.mem_of_get_eq_some hg, rfl⟩

theorem mem_endsIn {net : ANet} {i : Nat} {name : String} {es : List (Nat × Nat × String)} {q : JD × JD}
    (h : q ∈ endsIn net i name es) :
    ∃ e ∈ es, e.2.2 = name ∧
      (q = (excess (jdOf net e.1) i, excess (jdOf net e.2.1) i) ∨
       q = (excess (jdOf net e.2.1) i, excess (jdOf net e.1) i)) := by
  simp only [endsIn, List.mem_flatMap, List.mem_filter, decide_eq_true_eq, List.mem_cons,
    List.not_mem_nil, or_false] at h
  obtain ⟨e, ⟨he, hn⟩, hq⟩ := h
  exact ⟨e, he, hn, hq⟩

theorem ends_lengths {net : ANet} {T : Nat} (hU : Uniform net T) (hA : Annotated net) (i : Nat)
    (name : String) : ∀ q ∈ ends net i name, q.1.length = T ∧ q.2.length = T := by
  intro q hq
  obtain ⟨e, he, _, hq⟩ := mem_endsIn hq
  have h1 := length_jdOf hU (hA e he).1
  have h2 := length_jdOf hU (hA e he).2
  rcases hq with rfl | rfl <;> simp [length_excess, h1, h2]

theorem count_map_cat (l : List (JD × JD)) (a b : JD) (hl : ∀ q ∈ l, q.1.length = a.length) :
    @List.count JD instBEqOfDecidableEq (a ++ b) (l.map cat) = l.count (a, b) := by
  induction l with
  | nil => rfl
  | cons q l ih =>
    have ih' := ih fun q hq => hl q (List.mem_cons_of_mem _ hq)
    have hq := hl q List.mem_cons_self
    simp only [List.map_cons, List.count_cons, ih']
    congr 1
    obtain ⟨x, y⟩ := q
    by_cases hxy : (x, y) = (a, b)
    · obtain ⟨rfl, rfl⟩ := Prod.mk.inj hxy; simp [cat]
    · have : ¬ cat (x, y) = a ++ b := by
        intro hc
        obtain ⟨rfl, rfl⟩ := List.append_inj hc hq
        exact hxy rfl
      simp [this, hxy]

theorem mem_map_cat (l : List (JD × JD)) (a b : JD) (hl : ∀ q ∈ l, q.1.length = a.length) :
    a ++ b ∈ l.map cat ↔ (a, b) ∈ l := by
  have h1 := @List.count_pos_iff JD instBEqOfDecidableEq _ (a ++ b) (l.map cat)
  rw [← h1, count_map_cat l a b hl, List.count_pos_iff]

theorem count_endsIn_swap (net : ANet) (i : Nat) (name : String) (es : List (Nat × Nat × String))
    (a b : JD) : (endsIn net i name es).count (a, b) = (endsIn net i name es).count (b, a) := by
  induction es with
  | nil => rfl
  | cons e es ih =>
    by_cases h : e.2.2 = name
    · rw [endsIn_cons_pos net i es h]
      simp only [List.count_cons, ih, beq_iff_eq, Prod.mk.injEq]
      grind
    · rw [endsIn_cons_neg net i es h]; exact ih

/-! ## the statements about `get_ejk` -/

theorem aux_ejk_value {net : ANet} {T : Nat} (hU : Uniform net T) (hA : Annotated net) (i : Nat)
    (name : String) (a b : JD) (ha : a.length = T) :
    Dict.get (getEjk net (countEdgeTypes net []) i name) (a ++ b) =
      if (a, b) ∈ ends net i name then
        some ((((ends net i name).count (a, b) : Nat) : Rat) / (2 * (numE net name : Rat)))
      else none := by
  have hl : ∀ q ∈ ends net i name, q.1.length = a.length := fun q hq =>
    ((ends_lengths hU hA i name q hq).1).trans ha.symm
  rw [getEjk_eq_addAll, get_addAll, getD_countEdgeTypes]
  simp only [Dict.keys, List.map_nil, List.not_mem_nil, or_false, Dict.get, Option.getD_none, zero_add]
  simp only [mem_map_cat _ a b hl, count_map_cat _ a b hl]
  split
  · congr 1; ring
  · rfl

theorem aux_ejk_symmetric {net : ANet} {T : Nat} (hU : Uniform net T) (hA : Annotated net) (i : Nat)
    (name : String) (a b : JD) (ha : a.length = T) (hb : b.length = T) :
    Dict.get (getEjk net (countEdgeTypes net []) i name) (a ++ b) =
      Dict.get (getEjk net (countEdgeTypes net []) i name) (b ++ a) := by
  rw [aux_ejk_value hU hA i name a b ha, aux_ejk_value hU hA i name b a hb]
  have hc := count_endsIn_swap net i name net.edges a b
  have hm : (a, b) ∈ ends net i name ↔ (b, a) ∈ ends net i name := by
    rw [← List.count_pos_iff, ← List.count_pos_iff]; unfold ends; rw [hc]
  unfold ends at hm ⊢
  by_cases h : (a, b) ∈ endsIn net i name net.edges
  · rw [if_pos h, if_pos (hm.1 h), hc]
  · rw [if_neg h, if_neg (fun h' => h (hm.2 h'))]

theorem aux_ejk_sums_one (net : ANet) (i : Nat) (name : String) (hE : 0 < numE net name) :
    ((getEjk net (countEdgeTypes net []) i name).map (·.2)).sum = 1 := by
  rw [getEjk_eq_addAll, sum_addAll, getD_countEdgeTypes, List.length_map, length_ends]
  have : ((numE net name : Nat) : Rat) ≠ 0 := by exact_mod_cast (Nat.pos_iff_ne_zero.1 hE)
  simp only [List.map_nil, List.sum_nil, zero_add, Nat.cast_mul, Nat.cast_ofNat]
  field_simp

theorem aux_ejk_keys_nodup (net : ANet) (ne : List (String × Nat)) (i : Nat) (name : String) :
    (Dict.keys (getEjk net ne i name)).Nodup := by
  rw [getEjk_eq_addAll]
  exact keys_addAll_nodup _ _ [] (by simp [Dict.keys])

theorem aux_ejk_keys (net : ANet) (ne : List (String × Nat)) (i : Nat) (name : String) (k : JD) :
    k ∈ Dict.keys (getEjk net ne i name) ↔ ∃ q ∈ ends net i name, k = q.1 ++ q.2 := by
  rw [← Dict.get_isSome_iff_mem_keys, getEjk_eq_addAll, get_addAll]
  simp only [Dict.keys, List.map_nil, List.not_mem_nil, or_false, List.mem_map, cat]
  constructor
  · intro h
    split at h
    · next hm => obtain ⟨q, hq, rfl⟩ := hm; exact ⟨q, hq, rfl⟩
    · simp at h
  · rintro ⟨q, hq, rfl⟩
    rw [if_pos ⟨q, hq, rfl⟩]; rfl

theorem aux_ejk_row_sums {net : ANet} {T : Nat} (hU : Uniform net T) (hA : Annotated net) (i : Nat)
    (name : String) (a : JD) :
    (((getEjk net (countEdgeTypes net []) i name).filter (fun p => p.1.take T = a)).map (·.2)).sum =
      ((((ends net i name).filter (fun q => q.1 = a)).length : Nat) : Rat) / (2 * (numE net name : Rat)) := by
  rw [getEjk_eq_addAll]
  refine Eq.trans (sum_filter_addAll (fun k : JD => decide (k.take T = a)) _ _ _) ?_
  rw [getD_countEdgeTypes]
  have hlen : (((ends net i name).map cat).filter (fun k => decide (k.take T = a))).length =
      ((ends net i name).filter (fun q => q.1 = a)).length := by
    rw [List.filter_map, List.length_map]
    congr 1
    apply List.filter_congr
    intro q hq
    have h1 := (ends_lengths hU hA i name q hq).1
    simp only [Function.comp, cat, List.take_left' h1]
  rw [hlen]
  simp only [List.filter_nil, List.map_nil, List.sum_nil, zero_add]
  ring

/-! ## repeatability -/

theorem getEjks_indep (net : ANet) (names : List String) (s s' : Ext) :
    getEjks net names s = getEjks net names s' := rfl

theorem aux_get_ejks_repeatable (net : ANet) (names : List String) (n : Nat) (s : Ext) :
    ∀ m ∈ callsFrom net names n s, m = (getEjks net names ⟨[]⟩).2 := by
  induction n generalizing s with
  | zero => intro m hm; simp [callsFrom] at hm
  | succ n ih =>
    intro m hm
    have : callsFrom net names (n + 1) s
        = (getEjks net names s).2 :: callsFrom net names n (getEjks net names s).1 := rfl
    rw [this, List.mem_cons] at hm
    rcases hm with rfl | hm
    · rfl
    · exact ih _ m hm

theorem callsFrom_length (net : ANet) (names : List String) (n : Nat) (s : Ext) :
    (callsFrom net names n s).length = n := by
  induction n generalizing s with
  | zero => rfl
  | succ n ih =>
    have : callsFrom net names (n + 1) s
        = (getEjks net names s).2 :: callsFrom net names n (getEjks net names s).1 := rfl
    rw [this, List.length_cons, ih]

/-! ## excess keys cover the matrix keys -/

theorem excess_mem_excessKeys {net : ANet} {v i : Nat} (hv : (Dict.get net.jd v).isSome)
    (hp : 1 ≤ (jdOf net v).getD i 0) : excess (jdOf net v) i ∈ excessKeys net i := by
  unfold excessKeys
  rw [List.mem_eraseDups, List.mem_map]
  refine ⟨jdOf net v, ?_, rfl⟩
  rw [List.mem_filter]
  exact ⟨jdOf_mem hv, decide_eq_true (show (jdOf net v).getD i 0 > 0 from hp)⟩

theorem aux_excess_keys_cover {net : ANet} (hA : Annotated net) (i : Nat) (name : String)
    (hC : ∀ e ∈ net.edges, e.2.2 = name →
      1 ≤ (jdOf net e.1).getD i 0 ∧ 1 ≤ (jdOf net e.2.1).getD i 0) :
    ∀ q ∈ ends net i name, q.1 ∈ excessKeys net i ∧ q.2 ∈ excessKeys net i := by
  intro q hq
  obtain ⟨e, he, hn, hq⟩ := mem_endsIn hq
  have h1 := excess_mem_excessKeys (hA e he).1 (hC e he hn).1
  have h2 := excess_mem_excessKeys (hA e he).2 (hC e he hn).2
  rcases hq with rfl | rfl
  · exact ⟨h1, h2⟩
  · exact ⟨h2, h1⟩

/-! ## overall-degree variant -/

/-- edge ends as (own excess degree, partner's excess degree), degrees given by `deg` -/
def oEndsIn (deg : Nat → Nat) (es : List (Nat × Nat)) : List (Nat × Nat) :=
  es.flatMap fun e => [(deg e.1 - 1, deg e.2 - 1), (deg e.2 - 1, deg e.1 - 1)]

/-- the edge ends of a graph: every edge `(u, v)` contributes `(deg u - 1, deg v - 1)` and
    `(deg v - 1, deg u - 1)` -/
def oEnds (edges : List (Nat × Nat)) : List (Nat × Nat) := oEndsIn (degree edges) edges

def okey (q : Nat × Nat) : JD := [q.1, q.2]

theorem foldl_overall (deg : Nat → Nat) (w : Rat) (es : List (Nat × Nat)) (acc : Table) :
    es.foldl (fun ejk (e : Nat × Nat) =>
        Dict.update (Dict.update ejk [deg e.1 - 1, deg e.2 - 1] 0 (· + w)) [deg e.2 - 1, deg e.1 - 1] 0 (· + w))
      acc = addAll w acc ((oEndsIn deg es).map okey) := by
  induction es generalizing acc with
  | nil => rfl
  | cons e es ih =>
    rw [List.foldl_cons, ih]
    simp only [oEndsIn, List.flatMap_cons, List.cons_append, List.nil_append, List.map_cons, addAll_cons,
      okey]

theorem overallEjk_eq_addAll (edges : List (Nat × Nat)) :
    overallEjk edges = addAll ((1 / 2) / ((edges.length : Nat) : Rat)) [] ((oEnds edges).map okey) :=
  foldl_overall (degree edges) _ edges []

theorem length_oEndsIn (deg : Nat → Nat) (es : List (Nat × Nat)) : (oEndsIn deg es).length = 2 * es.length := by
  induction es with
  | nil => rfl
  | cons e es ih => simp only [oEndsIn, List.flatMap_cons, List.length_append, List.length_cons,
      List.length_nil] at ih ⊢; omega

theorem count_map_okey (l : List (Nat × Nat)) (j k : Nat) :
    @List.count JD instBEqOfDecidableEq [j, k] (l.map okey) = l.count (j, k) := by
  induction l with
  | nil => rfl
  | cons q l ih =>
    obtain ⟨x, y⟩ := q
    simp only [List.map_cons, List.count_cons, ih, okey]
    congr 1
    by_cases h : x = j ∧ y = k
    · simp [h]
    · have : ¬ (x, y) = (j, k) := fun e => h (Prod.mk.inj e)
      simp only [this, beq_iff_eq, List.cons.injEq, and_true, if_false]
      rw [if_neg h]

theorem count_oEndsIn_swap (deg : Nat → Nat) (es : List (Nat × Nat)) (j k : Nat) :
    (oEndsIn deg es).count (j, k) = (oEndsIn deg es).count (k, j) := by
  induction es with
  | nil => rfl
  | cons e es ih =>
    simp only [oEndsIn, List.flatMap_cons, List.count_append, List.count_cons, List.count_nil, beq_iff_eq,
      Prod.mk.injEq] at ih ⊢
    grind

theorem aux_overall_value (edges : List (Nat × Nat)) (j k : Nat) :
    Dict.get (overallEjk edges) [j, k] =
      if (j, k) ∈ oEnds edges then
        some ((((oEnds edges).count (j, k) : Nat) : Rat) / (2 * (edges.length : Rat)))
      else none := by
  rw [overallEjk_eq_addAll, get_addAll]
  simp only [Dict.keys, List.map_nil, List.not_mem_nil, or_false, Dict.get, Option.getD_none, zero_add]
  have hm : [j, k] ∈ (oEnds edges).map okey ↔ (j, k) ∈ oEnds edges := by
    have h1 := @List.count_pos_iff JD instBEqOfDecidableEq _ [j, k] ((oEnds edges).map okey)
    rw [← h1, count_map_okey, List.count_pos_iff]
  simp only [hm, count_map_okey]
  split
  · congr 1; ring
  · rfl

theorem aux_overall_symmetric (edges : List (Nat × Nat)) (j k : Nat) :
    Dict.get (overallEjk edges) [j, k] = Dict.get (overallEjk edges) [k, j] := by
  rw [aux_overall_value, aux_overall_value]
  have hc : (oEnds edges).count (j, k) = (oEnds edges).count (k, j) :=
    count_oEndsIn_swap (degree edges) edges j k
  have hm : (j, k) ∈ oEnds edges ↔ (k, j) ∈ oEnds edges := by
    rw [← List.count_pos_iff, ← List.count_pos_iff, hc]
  simp only [hm, hc]

theorem aux_overall_sums_one (edges : List (Nat × Nat)) (hE : 0 < edges.length) :
    ((overallEjk edges).map (·.2)).sum = 1 := by
  rw [overallEjk_eq_addAll, sum_addAll, List.length_map]
  have hl : (oEnds edges).length = 2 * edges.length := length_oEndsIn _ _
  rw [hl]
  have : ((edges.length : Nat) : Rat) ≠ 0 := by exact_mod_cast (Nat.pos_iff_ne_zero.1 hE)
  simp only [List.map_nil, List.sum_nil, zero_add, Nat.cast_mul, Nat.cast_ofNat]
  field_simp

theorem aux_overall_keys_nodup (edges : List (Nat × Nat)) : (Dict.keys (overallEjk edges)).Nodup := by
  rw [overallEjk_eq_addAll]
  exact keys_addAll_nodup _ _ [] (by simp [Dict.keys])

/-! ## `get_excess_degree_keys` -/

theorem aux_split_keys_spec (ejk : Table) (h : JD) :
    h ∈ splitKeys ejk ↔
      ∃ p ∈ ejk, h = p.1.take (p.1.length / 2) ∨ h = p.1.drop (p.1.length / 2) := by
  unfold splitKeys
  rw [List.mem_eraseDups, List.mem_flatMap]
  constructor
  · rintro ⟨p, hp, hh⟩
    refine ⟨p, hp, ?_⟩
    simpa using hh
  · rintro ⟨p, hp, hh⟩
    refine ⟨p, hp, ?_⟩
    simpa using hh

end Gcmpy.Mixing
