import GcmpyModel.Model.Rewire
import GcmpyModel.Lemmas.MCMC
import GcmpyModel.Lemmas.DrawSet
import GcmpyModel.Properties.C11
/-!
Lemmas about the model of the whole `rewire()` loop (`Model/Rewire.lean`); the property theorems that use them are in
`Properties/C11Loop.lean`.
-/
namespace Gcmpy.Rewire
open Gcmpy Gcmpy.Graph Gcmpy.MCMC

/-- specification vocabulary: the drawable set is a well-formed `DrawSet` (C20 invariant: the position map and the member
    list describe each other) and holds exactly the edge keys of the graph -/
def Sync (st : St) : Prop :=
  DrawSet.Inv st.S ∧ ∀ e : Edge, DrawSet.contains st.S e = true ↔ e ∈ st.G.edges.map (·.1)

namespace Lemmas

/-! ### the drawable set: adding and removing lists of keys -/

/-- `add` for every listed key -/
def addList (S : DrawSet.St Edge) (ks : List Edge) : DrawSet.St Edge :=
  ks.foldl (fun s k => DrawSet.add s k) S

/-- `remove` for every listed key; `none` as soon as one is absent -/
def removeList (S : DrawSet.St Edge) (ks : List Edge) : Option (DrawSet.St Edge) :=
  ks.foldl (fun (acc : Option (DrawSet.St Edge)) k =>
    match acc with
    | none => none
    | some s => DrawSet.remove s k) (some S)

theorem addList_spec : ∀ (ks : List Edge) (S : DrawSet.St Edge), DrawSet.Inv S →
    DrawSet.Inv (addList S ks) ∧ ∀ y, y ∈ (addList S ks).edges ↔ y ∈ ks ∨ y ∈ S.edges
  | [], S, h => ⟨h, by simp [addList]⟩
  | k :: ks, S, h => by
    obtain ⟨h1, h2⟩ := addList_spec ks (DrawSet.add S k) (DrawSet.inv_add h k)
    refine ⟨h1, ?_⟩
    intro y
    have := h2 y
    simp only [addList, List.foldl_cons] at this ⊢
    rw [this, DrawSet.mem_add h, List.mem_cons]
    tauto

theorem foldl_remove_none (ks : List Edge) :
    ks.foldl (fun (acc : Option (DrawSet.St Edge)) k =>
      match acc with
      | none => none
      | some s => DrawSet.remove s k) none = none := by
  induction ks with
  | nil => rfl
  | cons k ks ih => simpa using ih

theorem removeList_spec : ∀ (ks : List Edge) (S : DrawSet.St Edge), DrawSet.Inv S → ks.Nodup →
    (∀ k ∈ ks, k ∈ S.edges) →
    ∃ S', removeList S ks = some S' ∧ DrawSet.Inv S' ∧ ∀ y, y ∈ S'.edges ↔ y ∈ S.edges ∧ y ∉ ks
  | [], S, h, _, _ => ⟨S, rfl, h, by simp⟩
  | k :: ks, S, h, hnd, hmem => by
    obtain ⟨S1, hS1⟩ := DrawSet.remove_present h k (hmem k List.mem_cons_self)
    have hI1 := DrawSet.inv_remove h k hS1
    have hm1 := DrawSet.mem_remove h k hS1
    have hnd' := List.nodup_cons.1 hnd
    obtain ⟨S', hS', hI', hm'⟩ := removeList_spec ks S1 hI1 hnd'.2 (by
      intro x hx
      rw [hm1]
      refine ⟨hmem x (List.mem_cons_of_mem _ hx), ?_⟩
      rintro rfl
      exact hnd'.1 hx)
    refine ⟨S', ?_, hI', ?_⟩
    · simp only [removeList, List.foldl_cons, hS1]
      exact hS'
    · intro y
      rw [hm' y, hm1 y, List.mem_cons]
      tauto

theorem foldl_pairs_eq (l : List (Edge × Edge)) (acc : Option (DrawSet.St Edge)) :
    l.foldl (fun (acc : Option (DrawSet.St Edge)) (p : Edge × Edge) =>
      match acc with
      | none => none
      | some s =>
        match DrawSet.remove s (normE p.1) with
        | none => none
        | some s' => DrawSet.remove s' (normE p.2)) acc =
    (l.flatMap fun p => [normE p.1, normE p.2]).foldl (fun (acc : Option (DrawSet.St Edge)) k =>
      match acc with
      | none => none
      | some s => DrawSet.remove s k) acc := by
  induction l generalizing acc with
  | nil => rfl
  | cons p l ih =>
    rw [List.foldl_cons, List.flatMap_cons, List.foldl_append, ih]
    congr 1
    cases acc with
    | none => rfl
    | some s =>
      simp only [List.foldl_cons, List.foldl_nil]

/-- the two-at-a-time removal loop of `rewire()` is a removal of the interleaved key list -/
theorem applySet_eq (S : DrawSet.St Edge) (news e0s e1s : List Edge) :
    applySet S news e0s e1s =
      removeList (addList S (news.map normE)) ((e0s.zip e1s).flatMap fun p => [normE p.1, normE p.2]) := by
  unfold applySet removeList addList
  rw [List.foldl_map]
  exact foldl_pairs_eq _ _

theorem zipKeys_perm {e0s e1s : List Edge} (hlen : e0s.length = e1s.length) :
    ((e0s.zip e1s).flatMap fun p => [normE p.1, normE p.2]).Perm ((e0s ++ e1s).map normE) := by
  refine (flatMap_pair_perm (fun p : Edge × Edge => normE p.1) (fun p => normE p.2) (e0s.zip e1s)).trans ?_
  have h1 : (e0s.zip e1s).map (fun p => normE p.1) = e0s.map normE := by
    conv_rhs => rw [← List.map_fst_zip (l₁ := e0s) (l₂ := e1s) (by omega), List.map_map]
    rfl
  have h2 : (e0s.zip e1s).map (fun p => normE p.2) = e1s.map normE := by
    conv_rhs => rw [← List.map_snd_zip (l₁ := e0s) (l₂ := e1s) (by omega), List.map_map]
    rfl
  rw [h1, h2, List.map_append]

/-! ### `Sync` at the start and after an accepted swap -/

theorem sync_mem {st : St} (h : Sync st) (e : Edge) : e ∈ st.S.edges ↔ e ∈ st.G.edges.map (·.1) := by
  rw [h.1.mem_iff, h.2]

theorem sync_of_mem {G : Net} {S : DrawSet.St Edge} {c : Nat} (hI : DrawSet.Inv S)
    (h : ∀ e, e ∈ S.edges ↔ e ∈ G.edges.map (·.1)) : Sync ⟨G, S, c⟩ :=
  ⟨hI, fun e => by rw [← hI.mem_iff]; exact h e⟩

theorem init_sync (G : Net) (hWF : WF G) : Sync (init G) := by
  have hmap : (G.edges.map (·.1)).map normE = G.edges.map (·.1) := by
    rw [List.map_map]
    apply List.map_congr_left
    intro p hp
    exact (hWF.2.1 p hp).symm
  have hinit : initSet G = addList DrawSet.empty ((G.edges.map (·.1)).map normE) := by
    unfold initSet addList
    simp only [List.foldl_map]
  obtain ⟨h1, h2⟩ := addList_spec ((G.edges.map (·.1)).map normE) DrawSet.empty DrawSet.inv_empty
  unfold init
  rw [hinit]
  refine sync_of_mem h1 ?_
  intro e
  rw [h2 e, hmap]
  simp [DrawSet.empty]

theorem proposals_keys (G : Net) (u0 v0 : Nat) (ps : List (Edge × Edge)) :
    (proposals G u0 v0 ps).map (·.1) = ps.flatMap fun p => [(u0, p.2.2), (v0, p.1.2)] := by
  unfold proposals
  induction ps with
  | nil => rfl
  | cons p r ih => simp only [List.flatMap_cons, List.map_append, ih]; rfl

theorem proposalsFixed_keys (G : Net) (u0 v0 : Nat) (ps : List (Edge × Edge)) :
    (proposalsFixed G u0 v0 ps).map (·.1) = ps.flatMap fun p => [(u0, p.2.2), (v0, p.1.2)] := by
  unfold proposalsFixed
  induction ps with
  | nil => rfl
  | cons p r ih => simp only [List.flatMap_cons, List.map_append, ih]; rfl

theorem propsOf_keys (cfg : Cfg) (G : Net) (u0 v0 : Nat) (ps : List (Edge × Edge)) :
    (propsOf cfg G u0 v0 ps).map (·.1) = ps.flatMap fun p => [(u0, p.2.2), (v0, p.1.2)] := by
  unfold propsOf
  split
  · exact proposalsFixed_keys G u0 v0 ps
  · exact proposals_keys G u0 v0 ps

theorem newE_keys (u0 v0 : Nat) (α β : Edge × Edge → Attr) (ps : List (Edge × Edge)) :
    (newE u0 v0 α β ps).map (·.1) = (ps.flatMap fun p => [(u0, p.2.2), (v0, p.1.2)]).map normE := by
  unfold newE
  induction ps with
  | nil => rfl
  | cons p r ih => simp only [List.flatMap_cons, List.map_append, ih]; rfl

/-- the drawable set follows the graph through an accepted swap, and no `remove` raises -/
theorem sync_after {G : Net} {u0 v0 : Nat} {e0s e1s : List Edge} {A B : Nat} {ps : List (Edge × Edge)}
    (F : Facts G u0 v0 e0s e1s A B) (P : Pairing G e0s e1s ps) (α β : Edge × Edge → Attr)
    {S : DrawSet.St Edge} {c : Nat} (hS : Sync ⟨G, S, c⟩) :
    ∃ S', applySet S (ps.flatMap fun p => [(u0, p.2.2), (v0, p.1.2)]) e0s e1s = some S' ∧
      ∀ c', Sync ⟨{ G with edges := afterEdges G u0 v0 e0s e1s α β ps }, S', c'⟩ := by
  have hmemS : ∀ e, e ∈ S.edges ↔ e ∈ G.edges.map (·.1) := sync_mem hS
  obtain ⟨hI1, hm1⟩ := addList_spec ((ps.flatMap fun p => [(u0, p.2.2), (v0, p.1.2)]).map normE) S hS.1
  rw [← newE_keys u0 v0 α β ps] at hI1 hm1
  have hperm := zipKeys_perm F.len
  have hfresh : ∀ k, k ∈ (newE u0 v0 α β ps).map (·.1) → k ∉ G.edges.map (·.1) := by
    intro k hk
    obtain ⟨x, hx, rfl⟩ := List.mem_map.1 hk
    exact F.newKeys_fresh α β P hx
  obtain ⟨S', hS', hI', hm'⟩ := removeList_spec _ _ hI1 (hperm.nodup_iff.2 F.removed_nodup) (by
    intro k hk
    rw [hm1, hmemS]
    exact Or.inr (F.removed_mem_keys (hperm.subset hk)))
  refine ⟨S', ?_, ?_⟩
  · rw [applySet_eq, ← newE_keys u0 v0 α β ps]
    exact hS'
  · intro c'
    refine sync_of_mem hI' ?_
    intro e
    rw [hm' e, hm1 e, hmemS e, hperm.mem_iff]
    have hfilter : e ∈ (G.edges.filter fun p => p.1 ∉ (e0s ++ e1s).map normE).map (·.1) ↔
        e ∈ G.edges.map (·.1) ∧ e ∉ (e0s ++ e1s).map normE := by
      simp only [List.mem_map, List.mem_filter, decide_eq_true_eq]
      constructor
      · rintro ⟨p, ⟨hp, hn⟩, rfl⟩
        exact ⟨⟨p, hp, rfl⟩, hn⟩
      · rintro ⟨⟨p, hp, rfl⟩, hn⟩
        exact ⟨p, ⟨hp, hn⟩, rfl⟩
    have hR : e ∈ (List.filter (fun p => decide (p.1 ∉ (e0s ++ e1s).map normE)) G.edges ++
          newE u0 v0 α β ps).map (·.1) ↔
        (e ∈ G.edges.map (·.1) ∧ e ∉ (e0s ++ e1s).map normE) ∨ e ∈ (newE u0 v0 α β ps).map (·.1) := by
      rw [← hfilter, ← List.mem_append, ← List.map_append]
    refine Iff.trans ?_ hR.symm
    constructor
    · rintro ⟨h | h, hn⟩
      · exact Or.inr h
      · exact Or.inl ⟨h, hn⟩
    · rintro (⟨h, hn⟩ | h)
      · exact ⟨Or.inr h, hn⟩
      · exact ⟨Or.inl h, fun hr => hfresh e h (F.removed_mem_keys hr)⟩

/-- everything `rewire()` does after `swap_condition` said yes, under the step hypotheses -/
theorem accept_step (cfg : Cfg) {G G' : Net} {u0 v0 : Nat} {e0s e1s : List Edge} {S : DrawSet.St Edge} {c : Nat}
    (hok : Ok G u0 v0 e0s e1s) (hS : Sync ⟨G, S, c⟩) (ha : applyGraph cfg G u0 v0 e0s e1s = some G') :
    G'.edges.length = G.edges.length ∧
    ∃ S', applySet S ((propsOf cfg G u0 v0 ((pairUp G e0s e1s).getD [])).map (·.1)) e0s e1s = some S' ∧
      ∀ c', Sync ⟨G', S', c'⟩ := by
  unfold applyGraph at ha
  rw [propsOf_keys]
  split at ha
  · obtain ⟨A, B, ps, F, P, hps, rfl⟩ := applySwapFixed_shape hok ha
    rw [hps, Option.getD_some]
    exact ⟨F.length_after _ _ P, sync_after F P _ _ hS⟩
  · obtain ⟨A, B, ps, F, P, hps, rfl⟩ := applySwap_shape hok ha
    rw [hps, Option.getD_some]
    exact ⟨F.length_after _ _ P, sync_after F P _ _ hS⟩

theorem applyGraph_some (cfg : Cfg) {G : Net} {u0 v0 : Nat} {e0s e1s : List Edge} (hok : Ok G u0 v0 e0s e1s) :
    ∃ G', applyGraph cfg G u0 v0 e0s e1s = some G' := by
  unfold applyGraph
  split
  · exact suitable_applies_fixed hok
  · exact suitable_applies hok

/-! ### corners and the inner loop -/

theorem isCorner_of_cornerOk {G : Net} {u m : Nat} {es : List Edge} (h : cornerOk G u m es = true) :
    IsCorner G u es := by
  unfold cornerOk at h
  simp only [Bool.and_eq_true, Bool.not_eq_true', List.all_eq_true, decide_eq_true_eq] at h
  obtain ⟨⟨⟨h1, h2⟩, h3⟩, h4⟩ := h
  refine ⟨?_, h2, m, ?_, ?_⟩
  · rintro rfl
    simp at h1
  · intro e he
    exact h3 e he
  · intro e he
    exact h4 e he

theorem inner_found {G : Net} {S : DrawSet.St Edge} {sl : Nat} {t0 : String} {u0 : Nat} {e0s : List Edge} :
    ∀ (evs : List DrawEv) (n : Nat) {v0 : Nat} {e1s : List Edge} {s : Nat} {rest : List DrawEv},
      inner G S sl t0 u0 e0s n evs = .found v0 e1s s rest →
      (∃ m, cornerOk G v0 m e1s = true) ∧ suitable G u0 v0 e0s e1s = true
  | [], n, v0, e1s, s, rest, h => by
    rw [inner] at h
    split at h <;> cases h
  | ev :: evs, n, v0, e1s, s, rest, h => by
    rw [inner] at h
    split at h
    · split at h
      · split at h
        · cases h
        · rename_i a1 ha1
          split at h
          · exact inner_found evs n h
          · simp only at h
            split at h
            · rename_i hc
              split at h
              · rename_i hs
                cases h
                exact ⟨⟨_, hc⟩, hs⟩
              · exact inner_found evs (n + 1) h
            · cases h
      · cases h
    · cases h

/-- what the inner loop can stop with; a `KeyError` needs a member of the set that is not an edge of the graph -/
theorem inner_stop {G : Net} {S : DrawSet.St Edge} {sl : Nat} {t0 : String} {u0 : Nat} {e0s : List Edge} :
    ∀ (evs : List DrawEv) (n : Nat) {o : Outcome},
      inner G S sl t0 u0 e0s n evs = .stop o →
      o = .exhausted ∨ o = .notMember ∨ o = .badCorner ∨
        (o = .keyError ∧ ∃ e, DrawSet.contains S e = true ∧ attrOf G e.1 e.2 = none)
  | [], n, o, h => by
    rw [inner] at h
    split at h <;> cases h
    exact Or.inl rfl
  | ev :: evs, n, o, h => by
    rw [inner] at h
    split at h
    · split at h
      · rename_i hmem
        split at h
        · rename_i hnone
          cases h
          exact Or.inr (Or.inr (Or.inr ⟨rfl, ev.e, hmem, hnone⟩))
        · split at h
          · exact inner_stop evs n h
          · simp only at h
            split at h
            · split at h
              · cases h
              · exact inner_stop evs (n + 1) h
            · cases h
              exact Or.inr (Or.inr (Or.inl rfl))
      · cases h
        exact Or.inr (Or.inl rfl)
    · cases h

/-- under `Sync` on a well-formed graph a drawn member is an edge of the graph -/
theorem attr_of_member {st : St} (hWF : WF st.G) (hS : Sync st) {e : Edge} (h : DrawSet.contains st.S e = true) :
    ∃ a, attrOf st.G e.1 e.2 = some a := by
  have hk := (hS.2 e).1 h
  obtain ⟨p, hp, rfl⟩ := List.mem_map.1 hk
  refine ⟨p.2, attrOf_of_mem hWF ?_⟩
  have : normE (p.1.1, p.1.2) = p.1 := (hWF.2.1 p hp).symm
  rw [this]
  exact hp

theorem swapCondition_ne_raiseIndex {G : Net} {names : List String} {target : Target} {u0 v0 : Nat}
    {e0s e1s : List Edge} {r : Rat} (hok : Ok G u0 v0 e0s e1s) :
    swapCondition G names target u0 v0 e0s e1s r ≠ .raiseIndex := by
  obtain ⟨A, B, F⟩ := hok.facts
  obtain ⟨ps, hps⟩ := F.pairUp_some
  unfold swapCondition
  rw [hps]
  simp only
  split
  · simp
  · split
    · simp
    · split
      · simp
      · split <;> simp

/-! ### the outer loop -/

/-- the internal errors that cannot occur on a well-formed input -/
def bad : List Outcome := [.keyError, .raisedIndex, .raisedEdgePresent, .raisedRemove, .raisedCount]

/-- what is proved of every result -/
def Post (Q : Net → Prop) (R : Result) : Prop :=
  Q R.st.G ∧ Sync R.st ∧ R.outcome ∉ bad ∧ R.st.count = (R.trace.filter fun r => r.d = .accept).length

theorem post_fin {Q : Net → Prop} {st : St} (hQ : Q st.G) (hS : Sync st) {o : Outcome} (ho : o ∉ bad)
    {tr : List Rec} (hc : st.count = (tr.filter fun r => r.d = .accept).length) (n m : Nat) :
    Post Q ⟨st, tr.reverse, o, n, m⟩ := by
  refine ⟨hQ, hS, ho, ?_⟩
  simp only [List.filter_reverse, List.length_reverse]
  exact hc

theorem outer_main (cfg : Cfg) (Q : Net → Prop) (hQwf : ∀ G, Q G → WF G)
    (hQstep : ∀ G u0 v0 e0s e1s r G', Q G → Ok G u0 v0 e0s e1s →
      swapCondition G cfg.names cfg.target u0 v0 e0s e1s r = .accept →
      applyGraph cfg G u0 v0 e0s e1s = some G' → Q G') :
    ∀ (fuel : Nat) (st : St) (evs : List DrawEv) (rs : List (Option Rat)) (tr : List Rec),
      Q st.G → Sync st → st.count = (tr.filter fun r => r.d = .accept).length →
      Post Q (outer cfg fuel st evs rs tr) := by
  intro fuel
  induction fuel with
  | zero =>
    intro st evs rs tr hQ hS hc
    unfold outer
    exact post_fin hQ hS (by decide) hc _ _
  | succ fuel ih =>
    intro st evs rs tr hQ hS hc
    have hWF := hQwf _ hQ
    unfold outer
    simp only
    split
    · split
      · exact post_fin hQ hS (by decide) hc _ _
      · rename_i ev0 evs1
        split
        · rename_i hmem
          split
          · rename_i hnone
            obtain ⟨a, ha⟩ := attr_of_member hWF hS hmem
            rw [ha] at hnone
            cases hnone
          · rename_i a0 ha0
            split
            · rename_i hc0
              have hC0 := isCorner_of_cornerOk hc0
              split
              · rename_i o hin
                refine post_fin hQ hS ?_ hc _ _
                rcases inner_stop _ _ hin with rfl | rfl | rfl | ⟨rfl, e, he, hne⟩
                · decide
                · decide
                · decide
                · obtain ⟨a, ha⟩ := attr_of_member hWF hS he
                  rw [ha] at hne
                  cases hne
              · exact ih _ _ _ _ hQ hS hc
              · rename_i v0 e1s search evs2 hin
                obtain ⟨⟨m, hc1⟩, hsuit⟩ := inner_found _ _ hin
                have hok : Ok st.G ev0.e.1 v0 ev0.given e1s := ⟨hWF, hC0, isCorner_of_cornerOk hc1, hsuit⟩
                split
                · exact ih _ _ _ _ hQ hS hc
                · split
                  · exact post_fin hQ hS (by decide) hc _ _
                  · rename_i ro rs'
                    split
                    · exact post_fin hQ hS (by decide) hc _ _
                    generalize (ro.getD 0 : Rat) = r
                    split
                    · rename_i hd
                      refine ih _ _ _ _ hQ hS ?_
                      simp only [List.filter_cons, hd]
                      exact hc
                    · rename_i hd
                      exact absurd hd (swapCondition_ne_raiseIndex hok)
                    · rename_i hd
                      refine post_fin hQ hS (by decide) ?_ _ _
                      simp only [List.filter_cons, hd]
                      exact hc
                    · rename_i hd
                      obtain ⟨G', hG'⟩ := applyGraph_some cfg hok
                      obtain ⟨hlen, S', hS', hSync⟩ := accept_step cfg hok hS hG'
                      rw [hG']
                      simp only [hS', hlen, ne_eq, not_true_eq_false, if_false]
                      refine ih _ _ _ _ (hQstep _ _ _ _ _ r _ hQ hok hd hG') (hSync _) ?_
                      simp only [List.filter_cons, hd, decide_true, if_true, List.length_cons]
                      rw [hc]
            · exact post_fin hQ hS (by decide) hc _ _
        · exact post_fin hQ hS (by decide) hc _ _
    · exact post_fin hQ hS (by decide) hc _ _

/-! ### the statements of `Properties/C11Loop.lean` -/

/-- the four structural conclusions, relative to the input `G₀` -/
def Inv4 (G₀ G : Net) : Prop :=
  WF G ∧ G.jd = G₀.jd ∧ G.edges.length = G₀.edges.length ∧ ∀ v t, topDegree G v t = topDegree G₀ v t

theorem inv4_step (cfg : Cfg) (G₀ : Net) (G : Net) (u0 v0 : Nat) (e0s e1s : List Edge) (G' : Net)
    (h : Inv4 G₀ G) (hok : Ok G u0 v0 e0s e1s) (ha : applyGraph cfg G u0 v0 e0s e1s = some G') : Inv4 G₀ G' := by
  obtain ⟨_, h2, h3, h4⟩ := h
  unfold applyGraph at ha
  split at ha
  · obtain ⟨g1, g2, g3, g4⟩ := fixed_step_invariants hok ha
    exact ⟨g1, g2.trans h2, g3.trans h3, fun v t => (g4 v t).trans (h4 v t)⟩
  · exact ⟨wf_preserved hok ha, (nodes_preserved hok ha).trans h2, (edge_count_preserved hok ha).trans h3,
      fun v t => (topology_degrees_preserved hok ha v t).trans (h4 v t)⟩

theorem rewire_post (cfg : Cfg) (G : Net) (evs : List DrawEv) (rs : List (Option Rat)) (hWF : WF G) :
    Post (Inv4 G) (rewire cfg G evs rs) := by
  unfold rewire
  exact outer_main cfg (Inv4 G) (fun _ h => h.1)
    (fun G1 u0 v0 e0s e1s _ G' h hok _ ha => inv4_step cfg G G1 u0 v0 e0s e1s G' h hok ha)
    _ _ _ _ _ ⟨hWF, rfl, rfl, fun _ _ => rfl⟩ (init_sync G hWF) rfl

theorem rewire_steps (cfg : Cfg) (G : Net) (evs : List DrawEv) (rs : List (Option Rat)) (hf : cfg.fixed = false)
    (hWF : WF G) : Steps cfg.names cfg.target G (rewire cfg G evs rs).st.G := by
  unfold rewire
  refine (outer_main cfg (fun G' => Steps cfg.names cfg.target G G') (fun _ h => (steps_invariant hWF h).1)
    ?_ _ _ _ _ _ (Steps.refl G) (init_sync G hWF) rfl).1
  intro G1 u0 v0 e0s e1s r G' h hok hd ha
  refine Steps.step u0 v0 e0s e1s r h hok ?_
  unfold applyGraph at ha
  rw [hf] at ha
  unfold stepNet
  rw [hd]
  exact ha

theorem rewire_invariants (cfg : Cfg) (G : Net) (evs : List DrawEv) (rs : List (Option Rat)) (hWF : WF G) :
    WF (rewire cfg G evs rs).st.G ∧ (rewire cfg G evs rs).st.G.jd = G.jd ∧
    (rewire cfg G evs rs).st.G.edges.length = G.edges.length ∧
    ∀ v t, topDegree (rewire cfg G evs rs).st.G v t = topDegree G v t :=
  (rewire_post cfg G evs rs hWF).1

theorem rewire_sync (cfg : Cfg) (G : Net) (evs : List DrawEv) (rs : List (Option Rat)) (hWF : WF G) :
    Sync (rewire cfg G evs rs).st :=
  (rewire_post cfg G evs rs hWF).2.1

theorem rewire_no_internal_error (cfg : Cfg) (G : Net) (evs : List DrawEv) (rs : List (Option Rat)) (hWF : WF G) :
    (rewire cfg G evs rs).outcome ∉
      [Outcome.keyError, .raisedIndex, .raisedEdgePresent, .raisedRemove, .raisedCount] :=
  (rewire_post cfg G evs rs hWF).2.2.1

theorem rewire_count_accepts (cfg : Cfg) (G : Net) (evs : List DrawEv) (rs : List (Option Rat)) (hWF : WF G) :
    (rewire cfg G evs rs).st.count = ((rewire cfg G evs rs).trace.filter fun r => r.d = .accept).length :=
  (rewire_post cfg G evs rs hWF).2.2.2

/-- a normal end is the end of `while convergence_count <= limit`; no hypothesis on the input -/
theorem outer_done_count (cfg : Cfg) :
    ∀ (fuel : Nat) (st : St) (evs : List DrawEv) (rs : List (Option Rat)) (tr : List Rec),
      st.count ≤ cfg.climit + 1 → (outer cfg fuel st evs rs tr).outcome = .done →
      (outer cfg fuel st evs rs tr).st.count = cfg.climit + 1 := by
  intro fuel
  induction fuel with
  | zero =>
    intro st evs rs tr _ h
    unfold outer at h
    cases h
  | succ fuel ih =>
    intro st evs rs tr hle
    unfold outer
    simp only
    split
    · split
      · intro h; cases h
      · split
        · split
          · intro h; cases h
          · split
            · split
              · rename_i o hin
                intro h
                simp only at h
                subst h
                rcases inner_stop _ _ hin with h | h | h | ⟨h, _⟩ <;> cases h
              · exact ih _ _ _ _ hle
              · split
                · exact ih _ _ _ _ hle
                · split
                  · intro h; cases h
                  · split
                    · intro h; cases h
                    split
                    · exact ih _ _ _ _ hle
                    · intro h; cases h
                    · intro h; cases h
                    · split
                      · intro h; cases h
                      · split
                        · intro h; cases h
                        · split
                          · intro h; cases h
                          · exact ih _ _ _ _ (by simp only; omega)
            · intro h; cases h
        · intro h; cases h
    · intro _
      simp only
      omega

theorem rewire_done_count (cfg : Cfg) (G : Net) (evs : List DrawEv) (rs : List (Option Rat))
    (h : (rewire cfg G evs rs).outcome = .done) : (rewire cfg G evs rs).st.count = cfg.climit + 1 := by
  unfold rewire at h ⊢
  exact outer_done_count cfg _ _ _ _ _ (by simp [init]) h

end Lemmas
end Gcmpy.Rewire
