import Mathlib.Algebra.BigOperators.Ring.Finset
import Mathlib.Algebra.BigOperators.Group.List.Basic
import Mathlib.Algebra.BigOperators.Group.Finset.Powerset
import Mathlib.Data.Finset.Powerset
import Mathlib.Tactic.Ring
import Mathlib.Tactic.Tauto
import GcmpyModel.Lemmas.Reach
import GcmpyModel.Lemmas.ConnectedSubgraphs
import GcmpyModel.Lemmas.Percolation
/-
Glue between the executable model of the "automated equation" (`Model/Automated.lean`, lists and folds) and the
finset-level percolation identity `Perc.exactE_eq_autoE` (`Lemmas/Percolation.lean`).

* `Simple`, `exactE` : the vocabulary of property C15;
* `exactE_eq_percExactE` : the list-level specification is the finset-level exact expectation;
* `percAutoE_eq_automatedEquation` : the finset-level component decomposition is what the model computes.
-/
namespace Gcmpy.Automated
open Gcmpy Gcmpy.Graph

/-- a simple graph as an edge list: every undirected edge is listed once, no self-loops -/
def Simple (es : List Edge) : Prop := es.Nodup ∧ (∀ e ∈ es, e.1 ≠ e.2) ∧ ∀ e ∈ es, (e.2, e.1) ∉ es

/-- THE SPECIFICATION: expectation, over independent occupation of each motif edge with probability `p`, of the
    product of `u` over the other vertices of the root's open component — written with the model's own notions
    (`sublists` = all open-edge sets, `comp` = executable connected component). -/
def exactE {R : Type} [CommRing R] (G : Motif) (p : R) (u : Nat → R) (root : Nat) : R :=
  ((sublists G.edges).map fun A =>
      p ^ A.length * (1 - p) ^ (G.edges.length - A.length) *
        (((comp A G.nodes.length root).filter (· ≠ root)).map u).prod).sum

/-! ### folds, powers -/

theorem powN_eq_pow {M : Type} [Monoid M] (x : M) (n : Nat) : powN x n = x ^ n := by
  induction n with
  | zero => simp [powN]
  | succ n ih => simp [powN, ih, pow_succ]

theorem foldl_add_eq_sum {R α : Type} [AddCommMonoid R] (f : α → R) (l : List α) (a : R) :
    l.foldl (fun acc c => acc + f c) a = a + (l.map f).sum := by
  induction l generalizing a with
  | nil => simp
  | cons x xs ih => simp [ih, add_assoc]

theorem foldl_mul_eq_prod {R α : Type} [CommMonoid R] (f : α → R) (l : List α) (a : R) :
    l.foldl (fun acc c => acc * f c) a = a * (l.map f).prod := by
  induction l generalizing a with
  | nil => simp
  | cons x xs ih => simp [ih, mul_assoc]

/-! ### sums over `sublists` of a duplicate-free list are sums over the powerset -/

theorem sum_sublists_toFinset {α R : Type} [DecidableEq α] [AddCommMonoid R] (l : List α) (hl : l.Nodup)
    (f : Finset α → R) :
    ((sublists l).map fun A => f A.toFinset).sum = ∑ A ∈ l.toFinset.powerset, f A := by
  induction l generalizing f with
  | nil => simp [sublists]
  | cons x xs ih =>
    rw [List.nodup_cons] at hl
    have hx : x ∉ xs.toFinset := by simpa using hl.1
    rw [List.toFinset_cons, Finset.sum_powerset_insert hx, ← ih hl.2 f, ← ih hl.2 (fun A => f (insert x A))]
    simp [sublists, List.map_append, List.sum_append, List.map_map, Function.comp_def]

theorem sum_sublists_eq {α R : Type} [DecidableEq α] [AddCommMonoid R] (l : List α) (hl : l.Nodup)
    (f : List α → R) (f' : Finset α → R) (h : ∀ A, A.Sublist l → f A = f' A.toFinset) :
    ((sublists l).map f).sum = ∑ A ∈ l.toFinset.powerset, f' A := by
  rw [← sum_sublists_toFinset l hl f']
  congr 1
  apply List.map_congr_left
  intro A hA
  exact h A (mem_sublists_iff.1 hA)

theorem sum_filter_map {α R : Type} [AddCommMonoid R] (q : α → Bool) (f : α → R) (l : List α) :
    ((l.filter q).map f).sum = (l.map fun a => if q a = true then f a else 0).sum := by
  induction l with
  | nil => simp
  | cons a t ih =>
    by_cases hq : q a = true
    · simp [hq, ih]
    · simp [hq, ih]

/-! ### list graphs versus finset graphs -/

theorem percAdj_iff {A : List Edge} {a b : Nat} : Perc.Adj A.toFinset a b ↔ Adj A a b := by
  unfold Perc.Adj Adj
  simp only [List.mem_toFinset]

theorem percReach_iff {A : List Edge} {r v : Nat} : Perc.Reach A.toFinset r v ↔ Reach A r v := by
  unfold Perc.Reach Reach
  constructor
  · intro h
    induction h with
    | refl => exact Relation.ReflTransGen.refl
    | tail _ hbc ih => exact ih.tail (percAdj_iff.1 hbc)
  · intro h
    induction h with
    | refl => exact Relation.ReflTransGen.refl
    | tail _ hbc ih => exact ih.tail (percAdj_iff.2 hbc)

theorem wfGraph_sub {es es' : List Edge} {nodes : List Nat} (h : WFGraph es nodes) (hsub : es' ⊆ es) :
    WFGraph es' nodes :=
  ⟨h.1, fun e he => h.2 e (hsub he)⟩

/-- the executable component, as a finset, is the percolation component -/
theorem comp_toFinset {A : List Edge} {nodes : List Nat} (h : WFGraph A nodes) {r : Nat} (hr : r ∈ nodes) :
    (comp A nodes.length r).toFinset = Perc.comp nodes.toFinset A.toFinset r := by
  ext v
  rw [List.mem_toFinset, mem_comp_iff h hr, Perc.mem_comp, percReach_iff, List.mem_toFinset]
  exact ⟨fun hv => ⟨hv.mem_nodes h hr, hv⟩, fun hv => hv.2⟩

theorem prod_comp_filter {R : Type} [CommRing R] {A : List Edge} {nodes : List Nat} (h : WFGraph A nodes)
    {r : Nat} (hr : r ∈ nodes) (u : Nat → R) :
    (((comp A nodes.length r).filter (· ≠ r)).map u).prod
      = ∏ v ∈ (Perc.comp nodes.toFinset A.toFinset r).erase r, u v := by
  rw [← List.prod_toFinset u ((comp_nodup A nodes.length r).filter _)]
  congr 1
  rw [← comp_toFinset h hr]
  ext v
  simp only [List.mem_toFinset, List.mem_filter, decide_eq_true_eq, Finset.mem_erase]
  tauto

/-- steps (1)-(2): the list-level specification is the finset-level exact expectation -/
theorem exactE_eq_percExactE {R : Type} [CommRing R] (G : Motif) (hwf : WFGraph G.edges G.nodes)
    (hnd : G.edges.Nodup) {root : Nat} (hr : root ∈ G.nodes) (p : R) (u : Nat → R) :
    exactE G p u root = Perc.exactE G.nodes.toFinset G.edges.toFinset p u root := by
  unfold exactE Perc.exactE
  apply sum_sublists_eq G.edges hnd
  intro A hA
  have hAnd : A.Nodup := hA.nodup hnd
  have hsub : A.toFinset ⊆ G.edges.toFinset := fun e he =>
    List.mem_toFinset.2 (hA.subset (List.mem_toFinset.1 he))
  rw [Perc.wt_eq_pow p hsub, List.toFinset_card_of_nodup hAnd, List.toFinset_card_of_nodup hnd,
    prod_comp_filter (wfGraph_sub hwf hA.subset) hr]

theorem sum_filter_sublists_eq {α R : Type} [DecidableEq α] [AddCommMonoid R] (l : List α) (hl : l.Nodup)
    (q : List α → Bool) (q' : Finset α → Prop) [DecidablePred q'] (f : List α → R) (f' : Finset α → R)
    (hq : ∀ A, A.Sublist l → (q A = true ↔ q' A.toFinset)) (hf : ∀ A, A.Sublist l → f A = f' A.toFinset) :
    (((sublists l).filter q).map f).sum = ∑ A ∈ l.toFinset.powerset.filter q', f' A := by
  rw [sum_filter_map, Finset.sum_filter]
  apply sum_sublists_eq l hl
  intro A hA
  rw [hf A hA]
  exact if_congr (hq A hA) rfl rfl

/-! ### the pieces of one component term -/

theorem inner_toFinset (G : Motif) (c : List Nat) :
    (inner G c).edges.toFinset = Perc.inner G.edges.toFinset c.toFinset := by
  rw [inner_edges]
  ext e
  simp only [Perc.inner, List.mem_toFinset, List.mem_filter, Finset.mem_filter, decide_eq_true_eq]

theorem interfaceCount_eq (G : Motif) (hnd : G.edges.Nodup) (c : List Nat) :
    interfaceCount G c = (Perc.bdry G.edges.toFinset c.toFinset).card := by
  unfold interfaceCount
  rw [← List.toFinset_card_of_nodup (hnd.filter _)]
  congr 1
  ext e
  simp only [Perc.bdry, List.mem_toFinset, List.mem_filter, Finset.mem_filter, decide_eq_true_eq]
  tauto

theorem connIn_of_percReach {es : List Edge} {S : Finset Nat} {F : Finset Edge}
    (hF : F ⊆ Perc.inner es.toFinset S) {r v : Nat} (h : Perc.Reach F r v) : ConnIn es S r v := by
  have hin : ∀ e ∈ F, e ∈ es ∧ e.1 ∈ S ∧ e.2 ∈ S := fun e he => by
    have := hF he
    simpa only [Perc.inner, Finset.mem_filter, List.mem_toFinset] using this
  induction h with
  | refl => exact Relation.ReflTransGen.refl
  | tail _ hbc ih =>
    refine ih.tail ?_
    rcases hbc with h1 | h1
    · have := hin _ h1
      exact ⟨Or.inl this.1, this.2.1, this.2.2⟩
    · have := hin _ h1
      exact ⟨Or.inr this.1, this.2.2, this.2.1⟩

/-- a vertex set that is the root component of some configuration inside it is a connected set -/
theorem isConnSet_of_fiber {G : Motif} {root : Nat} {S : Finset Nat} (hSV : S ⊆ G.nodes.toFinset)
    (hrS : root ∈ S) {F : Finset Edge} (hF : F ⊆ Perc.inner G.edges.toFinset S)
    (hc : Perc.comp G.nodes.toFinset F root = S) : IsConnSet G root S := by
  refine ⟨hrS, fun v hv => List.mem_toFinset.1 (hSV hv), fun v hv => ?_⟩
  rw [← hc, Perc.mem_comp] at hv
  exact connIn_of_percReach hF hv.2

/-- the finset-level term of the decomposition attached to the vertex set `S` -/
noncomputable def term {R : Type} [CommRing R] (G : Motif) (p : R) (u : Nat → R) (root : Nat)
    (S : Finset Nat) : R :=
  (∏ _e ∈ Perc.bdry G.edges.toFinset S, (1 - p)) * (∏ v ∈ S.erase root, u v) *
    ∑ F ∈ (Perc.inner G.edges.toFinset S).powerset.filter
        (fun F => Perc.comp G.nodes.toFinset F root = S), Perc.wt p (Perc.inner G.edges.toFinset S) F

/-- summing over kept edges = summing over removed edges -/
theorem sum_fiber_compl {R : Type} [CommRing R] (p : R) (Vs : Finset Nat) (I : Finset Edge) (root : Nat)
    (S : Finset Nat) :
    ∑ F ∈ I.powerset.filter (fun F => Perc.comp Vs F root = S), Perc.wt p I F
      = ∑ D ∈ I.powerset.filter (fun D => Perc.comp Vs (I \ D) root = S),
          p ^ (I.card - D.card) * (1 - p) ^ D.card := by
  refine Finset.sum_nbij' (fun F => I \ F) (fun D => I \ D) ?_ ?_ ?_ ?_ ?_
  · intro F hF
    simp only [Finset.mem_filter, Finset.mem_powerset] at hF ⊢
    exact ⟨Finset.sdiff_subset, by rw [Finset.sdiff_sdiff_eq_self hF.1]; exact hF.2⟩
  · intro D hD
    simp only [Finset.mem_filter, Finset.mem_powerset] at hD ⊢
    exact ⟨Finset.sdiff_subset, hD.2⟩
  · intro F hF
    simp only [Finset.mem_filter, Finset.mem_powerset] at hF
    exact Finset.sdiff_sdiff_eq_self hF.1
  · intro D hD
    simp only [Finset.mem_filter, Finset.mem_powerset] at hD
    exact Finset.sdiff_sdiff_eq_self hD.1
  · intro F hF
    simp only [Finset.mem_filter, Finset.mem_powerset] at hF
    have hle : F.card ≤ I.card := Finset.card_le_card hF.1
    rw [Perc.wt_eq_pow p hF.1, Finset.card_sdiff_of_subset hF.1, Nat.sub_sub_self hle]

theorem us_eq {R : Type} [CommRing R] (g : Motif) (hnd : g.nodes.Nodup) (u : Nat → R) (root : Nat) :
    us g u root = ∏ v ∈ g.nodes.toFinset.erase root, u v := by
  unfold us
  rw [foldl_mul_eq_prod, one_mul, ← List.prod_toFinset u (hnd.filter _)]
  congr 1
  ext v
  simp only [List.mem_toFinset, List.mem_filter, decide_eq_true_eq, Finset.mem_erase]
  tauto

/-- the model's term for a component with at least two vertices -/
theorem componentTerm_big {R : Type} [CommRing R] (G : Motif) (hwf : WFGraph G.edges G.nodes)
    (hnd : G.edges.Nodup) {root : Nat} (p : R) (u : Nat → R) (c : List Nat) (hc : c.Nodup)
    (hS : IsConnSet G root c.toFinset) (hlen : c.length ≠ 1) :
    componentTerm G p u root c (if c.length = 1 then [] else edgeCombinations (inner G c))
      = term G p u root c.toFinset := by
  have hroot : root ∈ c := List.mem_toFinset.1 hS.1
  have hcard : 2 ≤ c.toFinset.card := by
    rw [List.toFinset_card_of_nodup hc]
    have := List.length_pos_of_mem hroot
    omega
  have hnodes : ∀ v, v ∈ (inner G c).nodes ↔ v ∈ c :=
    (inner_spec G c hwf).2.2 root hS hcard hS.subset_nodes
  have hgwf : WFGraph (inner G c).edges (inner G c).nodes := inner_wf G c hwf
  have hgnd : (inner G c).edges.Nodup := hnd.filter _
  have hSV : c.toFinset ⊆ G.nodes.toFinset := fun v hv => List.mem_toFinset.2 (hS.2.1 v hv)
  have hnt : (inner G c).nodes.toFinset = c.toFinset := by
    ext v; simp only [List.mem_toFinset, hnodes]
  have hne : (inner G c).nodes ≠ [] := List.ne_nil_of_mem ((hnodes root).2 hroot)
  -- the model side as a list sum
  simp only [componentTerm, hlen, if_false]
  rw [foldl_add_eq_sum (fun n => powN p ((inner G c).edges.length - n) * powN (1 - p) n *
      powN (1 - p) (interfaceCount G c) * us (inner G c) u root), zero_add,
    ((edgeCombinations_spec (inner G c)).map _).sum_eq, List.map_map]
  rw [sum_filter_sublists_eq (inner G c).edges hgnd _
    (fun D => Perc.comp G.nodes.toFinset ((inner G c).edges.toFinset \ D) root = c.toFinset) _
    (fun D => p ^ ((inner G c).edges.toFinset.card - D.card) * (1 - p) ^ D.card *
      (1 - p) ^ (Perc.bdry G.edges.toFinset c.toFinset).card * ∏ v ∈ c.toFinset.erase root, u v)]
  · unfold term
    rw [sum_fiber_compl, inner_toFinset, Finset.mul_sum, Finset.prod_const]
    refine Finset.sum_congr rfl fun D _ => ?_
    ring
  · -- the connectivity test
    intro es hes
    have hsub : (inner G c).edges.toFinset \ es.toFinset ⊆ Perc.inner G.edges.toFinset c.toFinset := by
      rw [← inner_toFinset]; exact Finset.sdiff_subset
    have hfil : ((inner G c).edges.filter fun e => e ∉ es).toFinset
        = (inner G c).edges.toFinset \ es.toFinset := by
      ext e
      simp only [List.mem_toFinset, List.mem_filter, decide_eq_true_eq, Finset.mem_sdiff]
    have hfs : ((inner G c).edges.filter fun e => e ∉ es) ⊆ (inner G c).edges := fun e he =>
      (List.mem_filter.1 he).1
    rw [connected_iff (wfGraph_sub hgwf hfs) hne,
      Perc.inner_fiber_eq_connected G.nodes.toFinset G.edges.toFinset c.toFinset hSV root hS.1 _ hsub,
      ← hfil]
    constructor
    · intro h v hv
      exact percReach_iff.2 (h root ((hnodes root).2 hroot) v ((hnodes v).2 (List.mem_toFinset.1 hv)))
    · intro h a ha b hb
      have h1 := percReach_iff.1 (h a (List.mem_toFinset.2 ((hnodes a).1 ha)))
      have h2 := percReach_iff.1 (h b (List.mem_toFinset.2 ((hnodes b).1 hb)))
      exact h1.symm.trans h2
  · -- the weight
    intro es hes
    simp only [Function.comp]
    rw [powN_eq_pow, powN_eq_pow, powN_eq_pow, us_eq _ hgwf.1, hnt, interfaceCount_eq G hnd,
      List.toFinset_card_of_nodup (hes.nodup hgnd), List.toFinset_card_of_nodup hgnd]

/-! ### the singleton component -/

theorem dedup_length (l : List Nat) : (dedup l).length = l.toFinset.card := by
  rw [← List.toFinset_card_of_nodup (nodup_dedup l)]
  congr 1
  ext v
  simp only [List.mem_toFinset, mem_dedup]

/-- in a simple graph the interface edges of `{r}` correspond to the distinct neighbours of `r` -/
theorem card_bdry_singleton {es : List Edge} (hs : Simple es) (r : Nat) :
    (Perc.bdry es.toFinset [r].toFinset).card = (dedup (nbrs es r)).length := by
  rw [dedup_length]
  have hmem : ∀ e : Edge, e ∈ Perc.bdry es.toFinset [r].toFinset ↔
      e ∈ es ∧ ((e.1 = r ∧ e.2 ≠ r) ∨ (e.1 ≠ r ∧ e.2 = r)) := by
    intro e
    simp only [Perc.bdry, Finset.mem_filter, List.mem_toFinset, List.mem_singleton]
    tauto
  apply Finset.card_bij (fun e _ => if e.1 = r then e.2 else e.1)
  · rintro ⟨a, b⟩ he
    rw [hmem] at he
    rw [List.mem_toFinset, mem_nbrs]
    rcases he with ⟨he, ⟨h1, h2⟩ | ⟨h1, h2⟩⟩
    · simp only at h1 h2
      subst h1
      simp only [if_true]
      exact Or.inl he
    · simp only at h1 h2
      subst h2
      simp only [h1, if_false]
      exact Or.inr he
  · rintro ⟨a, b⟩ he ⟨a', b'⟩ he' heq
    rw [hmem] at he he'
    simp only at he he' heq
    rcases he with ⟨he, ⟨h1, h2⟩ | ⟨h1, h2⟩⟩ <;> rcases he' with ⟨he', ⟨h1', h2'⟩ | ⟨h1', h2'⟩⟩
    · subst h1 h1'
      simp only [if_true] at heq
      rw [heq]
    · subst h1 h2'
      simp only [if_true, h1', if_false] at heq
      subst heq
      exact absurd he (hs.2.2 _ he')
    · subst h2 h1'
      simp only [if_true, h1, if_false] at heq
      subst heq
      exact absurd he' (hs.2.2 _ he)
    · subst h2 h2'
      simp only [h1, h1', if_false] at heq
      rw [heq]
  · intro b hb
    rw [List.mem_toFinset, mem_nbrs] at hb
    rcases hb with hb | hb
    · have hne : r ≠ b := hs.2.1 _ hb
      refine ⟨(r, b), (hmem _).2 ⟨hb, Or.inl ⟨rfl, fun h => hne h.symm⟩⟩, ?_⟩
      simp only [if_true]
    · have hne : b ≠ r := hs.2.1 _ hb
      refine ⟨(b, r), (hmem _).2 ⟨hb, Or.inr ⟨hne, rfl⟩⟩, ?_⟩
      simp only [hne, if_false]

/-- the model's term for the component `{root}` -/
theorem componentTerm_single {R : Type} [CommRing R] (G : Motif) (hs : Simple G.edges) {root : Nat}
    (hr : root ∈ G.nodes) (p : R) (u : Nat → R) :
    componentTerm G p u root [root] [] = term G p u root [root].toFinset := by
  have hI : Perc.inner G.edges.toFinset [root].toFinset = ∅ := by
    apply Finset.eq_empty_of_forall_notMem
    intro e he
    simp only [Perc.inner, Finset.mem_filter, List.mem_toFinset, List.mem_singleton] at he
    exact hs.2.1 e he.1 (he.2.1.trans he.2.2.symm)
  have hcomp : Perc.comp G.nodes.toFinset ∅ root = [root].toFinset := by
    rw [Perc.comp_eq_iff' G.nodes.toFinset ∅ (fun e he => absurd he (Finset.notMem_empty e)) root
      (List.mem_toFinset.2 hr)]
    refine ⟨?_, by simp, ?_, fun e he => absurd he (Finset.notMem_empty e)⟩
    · intro v hv
      simp only [List.mem_toFinset, List.mem_singleton] at hv
      subst hv; exact List.mem_toFinset.2 hr
    · intro v hv
      simp only [List.mem_toFinset, List.mem_singleton] at hv
      subst hv; exact Relation.ReflTransGen.refl
  have herase : ([root].toFinset).erase root = ∅ := by
    apply Finset.eq_empty_of_forall_notMem
    intro v hv
    simp only [Finset.mem_erase, List.mem_toFinset, List.mem_singleton] at hv
    exact hv.1 hv.2
  unfold term
  rw [hI, herase, Finset.powerset_empty, Finset.prod_empty, Finset.prod_const,
    card_bdry_singleton hs root, Finset.sum_filter, Finset.sum_singleton, if_pos hcomp]
  simp only [componentTerm, List.length_singleton, if_true, List.headD_cons, powN_eq_pow, Perc.wt,
    Finset.prod_empty, Finset.sdiff_self, mul_one]

/-- the model's term for any listed component -/
theorem componentTerm_eq {R : Type} [CommRing R] (G : Motif) (hwf : WFGraph G.edges G.nodes)
    (hs : Simple G.edges) {root : Nat} (hr : root ∈ G.nodes) (p : R) (u : Nat → R) (c : List Nat)
    (hc : c.Nodup) (hS : IsConnSet G root c.toFinset) :
    componentTerm G p u root c (if c.length = 1 then [] else edgeCombinations (inner G c))
      = term G p u root c.toFinset := by
  by_cases hlen : c.length = 1
  · obtain ⟨x, rfl⟩ := List.length_eq_one_iff.1 hlen
    have hx : root = x := by simpa using hS.1
    subst hx
    simp only [List.length_singleton, if_true]
    exact componentTerm_single G hs hr p u
  · exact componentTerm_big G hwf hs.1 p u c hc hS hlen

/-- step (4): the finset-level component decomposition is what the model computes -/
theorem percAutoE_eq_automatedEquation {R : Type} [CommRing R] (G : Motif)
    (hwf : WFGraph G.edges G.nodes) (hs : Simple G.edges) {root : Nat} (hr : root ∈ G.nodes) (p : R)
    (u : Nat → R) :
    Perc.autoE G.nodes.toFinset G.edges.toFinset p u root = automatedEquation G p u root := by
  obtain ⟨h1, h2, h3⟩ := connectedSubgraphs_spec G root hwf hr
  have hsubset : ((connectedSubgraphs G root).map List.toFinset).toFinset
      ⊆ G.nodes.toFinset.powerset.filter (fun S => root ∈ S) := by
    intro S hS
    rw [List.mem_toFinset, h3] at hS
    rw [Finset.mem_filter, Finset.mem_powerset]
    exact ⟨fun v hv => List.mem_toFinset.2 (hS.2.1 v hv), hS.1⟩
  have hzero : ∀ S ∈ G.nodes.toFinset.powerset.filter (fun S => root ∈ S),
      S ∉ ((connectedSubgraphs G root).map List.toFinset).toFinset → term G p u root S = 0 := by
    intro S hS hnot
    rw [Finset.mem_filter, Finset.mem_powerset] at hS
    rw [List.mem_toFinset, h3] at hnot
    unfold term
    rw [Finset.filter_false_of_mem, Finset.sum_empty, mul_zero]
    intro F hF hcF
    exact hnot (isConnSet_of_fiber hS.1 hS.2 (Finset.mem_powerset.1 hF) hcF)
  have hauto : Perc.autoE G.nodes.toFinset G.edges.toFinset p u root
      = ∑ S ∈ G.nodes.toFinset.powerset.filter (fun S => root ∈ S), term G p u root S := rfl
  rw [hauto, ← Finset.sum_subset hsubset hzero, List.sum_toFinset _ h2, List.map_map]
  unfold automatedEquation
  rw [foldl_add_eq_sum (fun c => componentTerm G p u root c
    (if c.length = 1 then [] else edgeCombinations (inner G c))), zero_add]
  congr 1
  apply List.map_congr_left
  intro c hc
  have := mem_connectedSubgraphs hwf hr hc
  exact (componentTerm_eq G hwf hs hr p u c this.1 this.2).symm

/-- steps (1)-(3) -/
theorem exactE_eq_percAutoE {R : Type} [CommRing R] (G : Motif) (hwf : WFGraph G.edges G.nodes)
    (hnd : G.edges.Nodup) {root : Nat} (hr : root ∈ G.nodes) (p : R) (u : Nat → R) :
    exactE G p u root = Perc.autoE G.nodes.toFinset G.edges.toFinset p u root := by
  rw [exactE_eq_percExactE G hwf hnd hr]
  exact Perc.exactE_eq_autoE _ _
    (fun e he => by
      have := hwf.2 e (List.mem_toFinset.1 he)
      exact ⟨List.mem_toFinset.2 this.1, List.mem_toFinset.2 this.2⟩)
    p u root (List.mem_toFinset.2 hr)

end Gcmpy.Automated
