import GcmpyModel.Lemmas.Generate
/-!
Lemmas about the custom-motif generator (`popOrbits`, `instances`, `drawAll`, `motifsCustom`).

The model concatenates the popped chunks of one motif instance into one flat `verts` list, which forgets
from which orbit column each vertex came.  We define a *tagged* refinement (`popOrbitsT`, `instancesT`,
`drawAllT`, `runCustomT`) which returns the popped chunks as `(column, chunk)` pairs and also the final
partitions, prove that forgetting the tags gives exactly the model's results, and prove the conservation
invariant `parts[i] = parts'[i] ++ (chunks popped from i).reverse`.
-/
namespace Gcmpy.Generate

/-- a list of popped chunks, each tagged with the orbit column it was popped from -/
abbrev Tagged := List (Nat × List Nat)

/-- forget the tags: the concatenation of the chunks, in pop order -/
def untag (tcs : Tagged) : List Nat := tcs.flatMap (·.2)

/-- the chunks popped from column `i`, in pop order -/
def popped (i : Nat) (tcs : Tagged) : List (List Nat) := (tcs.filter (fun t => t.1 = i)).map (·.2)

/-- tagged `popOrbits` -/
def popOrbitsT : List (List (List Nat)) → List Nat → Option (Tagged × List (List (List Nat)))
  | parts, [] => some ([], parts)
  | parts, i :: is =>
    match parts[i]? with
    | none => none
    | some p =>
      match p.getLast? with
      | none => none
      | some c =>
        match popOrbitsT (parts.set i p.dropLast) is with
        | none => none
        | some (tcs, parts') => some ((i, c) :: tcs, parts')

/-- tagged `instances` -/
def instancesT (orbits : List Nat) : Nat → List (List (List Nat)) →
    Option (List Tagged × List (List (List Nat)))
  | 0, parts => some ([], parts)
  | n+1, parts =>
    match popOrbitsT parts orbits with
    | none => none
    | some (tcs, parts') =>
      match instancesT orbits n parts' with
      | none => none
      | some (rest, parts'') => some (tcs :: rest, parts'')

/-- tagged `drawAll`, also returning the final partitions -/
def drawAllT (sizes : List Nat) (σ : List (List Nat)) :
    List (List Nat) → Nat → List (List (List Nat)) → Option (List (Nat × Tagged) × List (List (List Nat)))
  | [], _, parts => some ([], parts)
  | orbits :: rest, j, parts =>
    match orbits with
    | [] => none
    | kk :: _ =>
      match σ[kk]?, sizes[kk]? with
      | some l, some sz =>
        if sz = 0 then none else
        match instancesT orbits (l.length / sz) parts with
        | none => none
        | some (tcss, parts') =>
          match drawAllT sizes σ rest (j + 1) parts' with
          | none => none
          | some (more, parts'') => some (tcss.map (fun tcs => (j, tcs)) ++ more, parts'')
      | _, _ => none

/-- the whole tagged run: tagged groups in generation order and the final (leftover) partitions -/
def runCustomT (sizes : List Nat) (orbitLists : List (List Nat)) (σ : List (List Nat)) :
    Option (List (Nat × Tagged) × List (List (List Nat))) :=
  drawAllT sizes σ orbitLists 0 (partitions sizes σ)

/-- the motif records made from tagged groups (ids from the running counter, `verts` = untagged chunks) -/
def recordsOf {β : Type} (build : Nat → List Nat → β) (gs : List (Nat × Tagged)) : List (Motif β) :=
  gs.zipIdx.map fun ((j, tcs), id) => ⟨j, id, untag tcs, build j (untag tcs)⟩

/-- all tagged chunks of a run, in pop order -/
def allTagged (gs : List (Nat × Tagged)) : Tagged := gs.flatMap (·.2)

/-! ### forgetting the tags gives the model -/

theorem popOrbits_eq_T (parts : List (List (List Nat))) (is : List Nat) :
    popOrbits parts is = (popOrbitsT parts is).map fun r => (untag r.1, r.2) := by
  induction is generalizing parts with
  | nil => simp [popOrbits, popOrbitsT, untag]
  | cons i is ih =>
    simp only [popOrbits, popOrbitsT]
    cases parts[i]? with
    | none => rfl
    | some p =>
      simp only
      cases p.getLast? with
      | none => rfl
      | some c =>
        simp only [ih]
        cases popOrbitsT (parts.set i p.dropLast) is with
        | none => rfl
        | some r => simp [untag]

theorem instances_eq_T (orbits : List Nat) (n : Nat) (parts : List (List (List Nat))) :
    instances orbits n parts = (instancesT orbits n parts).map fun r => (r.1.map untag, r.2) := by
  induction n generalizing parts with
  | zero => simp [instances, instancesT]
  | succ n ih =>
    simp only [instances, instancesT, popOrbits_eq_T]
    cases popOrbitsT parts orbits with
    | none => rfl
    | some r =>
      simp only [Option.map_some, ih]
      cases instancesT orbits n r.2 with
      | none => rfl
      | some r' => simp

theorem drawAll_eq_T (sizes : List Nat) (σ : List (List Nat)) (rest : List (List Nat)) (j : Nat)
    (parts : List (List (List Nat))) :
    drawAll sizes σ rest j parts =
      (drawAllT sizes σ rest j parts).map fun r => r.1.map fun g => (g.1, untag g.2) := by
  induction rest generalizing j parts with
  | nil => simp [drawAll, drawAllT]
  | cons orbits rest ih =>
    cases orbits with
    | nil => simp [drawAll, drawAllT]
    | cons kk os =>
      simp only [drawAll, drawAllT]
      cases σ[kk]? with
      | none => rfl
      | some l =>
        cases sizes[kk]? with
        | none => rfl
        | some sz =>
          simp only
          by_cases hsz : sz = 0
          · simp [hsz]
          · simp only [hsz, if_false, instances_eq_T]
            cases instancesT (kk :: os) (l.length / sz) parts with
            | none => rfl
            | some r =>
              simp only [Option.map_some, ih]
              cases drawAllT sizes σ rest (j + 1) r.2 with
              | none => rfl
              | some r' => simp [Function.comp_def]

theorem motifsCustom_eq_T {β : Type} (sizes : List Nat) (orbitLists : List (List Nat))
    (build : Nat → List Nat → β) (σ : List (List Nat)) :
    motifsCustom sizes orbitLists build σ = (runCustomT sizes orbitLists σ).map fun r => recordsOf build r.1 := by
  unfold motifsCustom runCustomT recordsOf
  rw [drawAll_eq_T]
  cases drawAllT sizes σ orbitLists 0 (partitions sizes σ) with
  | none => rfl
  | some r =>
    simp only [Option.map_some, Option.some.injEq]
    rw [List.zipIdx_map, List.map_map]
    apply List.map_congr_left
    rintro ⟨⟨j, tcs⟩, id⟩ _
    rfl

/-! ### `popped` -/

@[simp] theorem popped_nil (i : Nat) : popped i [] = [] := rfl

theorem popped_cons (i : Nat) (t : Nat × List Nat) (tcs : Tagged) :
    popped i (t :: tcs) = if t.1 = i then t.2 :: popped i tcs else popped i tcs := by
  unfold popped
  by_cases h : t.1 = i <;> simp [h]

theorem popped_append (i : Nat) (a b : Tagged) : popped i (a ++ b) = popped i a ++ popped i b := by
  simp [popped]

theorem length_popped (i : Nat) (tcs : Tagged) : (popped i tcs).length = (tcs.map (·.1)).count i := by
  induction tcs with
  | nil => rfl
  | cons t tcs ih =>
    rw [popped_cons, List.map_cons, List.count_cons]
    by_cases h : t.1 = i <;> simp [h, ih]

theorem mem_popped {i : Nat} {tcs : Tagged} {c : List Nat} : c ∈ popped i tcs ↔ (i, c) ∈ tcs := by
  unfold popped
  constructor
  · intro h
    rcases List.mem_map.1 h with ⟨⟨i', c'⟩, h1, rfl⟩
    rcases List.mem_filter.1 h1 with ⟨h2, h3⟩
    simp at h3; subst h3; exact h2
  · intro h
    exact List.mem_map.2 ⟨(i, c), List.mem_filter.2 ⟨h, by simp⟩, rfl⟩

/-! ### the conservation invariant -/

/-- `parts` is `parts'` with the chunks in `tcs` popped (from the end of the tagged column) -/
def Conserved (parts parts' : List (List (List Nat))) (tcs : Tagged) : Prop :=
  parts'.length = parts.length ∧ ∀ i, parts.getD i [] = parts'.getD i [] ++ (popped i tcs).reverse

theorem Conserved.refl (parts : List (List (List Nat))) : Conserved parts parts [] :=
  ⟨rfl, fun i => by simp⟩

theorem Conserved.trans {p1 p2 p3 : List (List (List Nat))} {a b : Tagged}
    (h1 : Conserved p1 p2 a) (h2 : Conserved p2 p3 b) : Conserved p1 p3 (a ++ b) := by
  refine ⟨h2.1.trans h1.1, fun i => ?_⟩
  rw [h1.2 i, h2.2 i, popped_append, List.reverse_append, List.append_assoc]

theorem popOrbitsT_inv {parts : List (List (List Nat))} {is : List Nat} {tcs : Tagged}
    {parts' : List (List (List Nat))} (h : popOrbitsT parts is = some (tcs, parts')) :
    tcs.map (·.1) = is ∧ Conserved parts parts' tcs := by
  induction is generalizing parts tcs parts' with
  | nil =>
    simp only [popOrbitsT, Option.some.injEq, Prod.mk.injEq] at h
    rcases h with ⟨rfl, rfl⟩
    exact ⟨rfl, Conserved.refl _⟩
  | cons i0 is ih =>
    simp only [popOrbitsT] at h
    cases hp : parts[i0]? with
    | none => simp [hp] at h
    | some p =>
      simp only [hp] at h
      cases hc : p.getLast? with
      | none => simp [hc] at h
      | some c =>
        simp only [hc] at h
        cases hr : popOrbitsT (parts.set i0 p.dropLast) is with
        | none => simp [hr] at h
        | some r =>
          rcases r with ⟨tcs0, parts0⟩
          simp only [hr, Option.some.injEq, Prod.mk.injEq] at h
          rcases h with ⟨rfl, rfl⟩
          rcases ih hr with ⟨e1, e2, e3⟩
          have hpc : p = p.dropLast ++ [c] := by
            rcases List.getLast?_eq_some_iff.1 hc with ⟨ys, rfl⟩
            simp
          have hi0 : i0 < parts.length := by
            rcases Nat.lt_or_ge i0 parts.length with h | h
            · exact h
            · rw [List.getElem?_eq_none h] at hp; cases hp
          refine ⟨by simp [e1], by simpa using e2, fun i => ?_⟩
          have e3i := e3 i
          rw [popped_cons]
          by_cases hi : i0 = i
          · subst hi
            simp only [if_true, List.reverse_cons, ← List.append_assoc, ← e3i]
            rw [List.getD_eq_getElem?_getD, List.getD_eq_getElem?_getD, List.getElem?_set_self hi0, hp]
            simpa using hpc
          · simp only [hi, if_false, ← e3i]
            rw [List.getD_eq_getElem?_getD, List.getD_eq_getElem?_getD, List.getElem?_set_ne hi]

theorem instancesT_inv {orbits : List Nat} {n : Nat} {parts : List (List (List Nat))} {tcss : List Tagged}
    {parts' : List (List (List Nat))} (h : instancesT orbits n parts = some (tcss, parts')) :
    tcss.length = n ∧ (∀ tcs ∈ tcss, tcs.map (·.1) = orbits) ∧ Conserved parts parts' tcss.flatten := by
  induction n generalizing parts tcss parts' with
  | zero =>
    simp only [instancesT, Option.some.injEq, Prod.mk.injEq] at h
    rcases h with ⟨rfl, rfl⟩
    exact ⟨rfl, by simp, Conserved.refl _⟩
  | succ n ih =>
    simp only [instancesT] at h
    cases hp : popOrbitsT parts orbits with
    | none => simp [hp] at h
    | some r =>
      rcases r with ⟨tcs0, parts0⟩
      simp only [hp] at h
      cases hr : instancesT orbits n parts0 with
      | none => simp [hr] at h
      | some r =>
        rcases r with ⟨rest, parts1⟩
        simp only [hr, Option.some.injEq, Prod.mk.injEq] at h
        rcases h with ⟨rfl, rfl⟩
        rcases popOrbitsT_inv hp with ⟨a1, a2⟩
        rcases ih hr with ⟨b1, b2, b3⟩
        refine ⟨by simp [b1], ?_, ?_⟩
        · intro tcs ht
          rcases List.mem_cons.1 ht with rfl | ht
          · exact a1
          · exact b2 _ ht
        · rw [List.flatten_cons]; exact a2.trans b3

/-- number of instances of the motif type with orbit list `orbits` -/
def numMotifs (sizes : List Nat) (σ : List (List Nat)) (orbits : List Nat) : Nat :=
  (σ.getD (orbits.headD 0) []).length / sizes.getD (orbits.headD 0) 0

theorem drawAllT_inv {sizes : List Nat} {σ : List (List Nat)} {rest : List (List Nat)} {j : Nat}
    {parts : List (List (List Nat))} {gs : List (Nat × Tagged)} {parts' : List (List (List Nat))}
    (h : drawAllT sizes σ rest j parts = some (gs, parts')) :
    Conserved parts parts' (allTagged gs) ∧
    (∀ g ∈ gs, j ≤ g.1 ∧ g.1 < j + rest.length ∧ g.2.map (·.1) = rest.getD (g.1 - j) []) ∧
    (∀ j', (gs.filter (fun g => g.1 = j')).length =
      if j ≤ j' ∧ j' < j + rest.length then numMotifs sizes σ (rest.getD (j' - j) []) else 0) := by
  induction rest generalizing j parts gs parts' with
  | nil =>
    simp only [drawAllT, Option.some.injEq, Prod.mk.injEq] at h
    rcases h with ⟨rfl, rfl⟩
    refine ⟨Conserved.refl _, by simp, fun j' => ?_⟩
    have : ¬ (j ≤ j' ∧ j' < j + ([] : List (List Nat)).length) := by simp
    rw [if_neg this]; rfl
  | cons orbits rest ih =>
    cases orbits with
    | nil => simp [drawAllT] at h
    | cons kk os =>
      simp only [drawAllT] at h
      cases hl : σ[kk]? with
      | none => simp [hl] at h
      | some l =>
        cases hs : sizes[kk]? with
        | none => simp [hl, hs] at h
        | some sz =>
          simp only [hl, hs] at h
          by_cases hsz : sz = 0
          · simp [hsz] at h
          · simp only [hsz, if_false] at h
            cases hi : instancesT (kk :: os) (l.length / sz) parts with
            | none => simp [hi] at h
            | some r =>
              rcases r with ⟨tcss, parts0⟩
              simp only [hi] at h
              cases hr : drawAllT sizes σ rest (j + 1) parts0 with
              | none => simp [hr] at h
              | some r =>
                rcases r with ⟨more, parts1⟩
                simp only [hr, Option.some.injEq, Prod.mk.injEq] at h
                rcases h with ⟨rfl, rfl⟩
                rcases instancesT_inv hi with ⟨a1, a2, a3⟩
                rcases ih hr with ⟨b1, b2, b3⟩
                have hnum : numMotifs sizes σ (kk :: os) = l.length / sz := by
                  simp [numMotifs, List.getD_eq_getElem?_getD, hl, hs]
                refine ⟨?_, ?_, ?_⟩
                · have : allTagged (tcss.map (fun tcs => (j, tcs)) ++ more) = tcss.flatten ++ allTagged more := by
                    simp [allTagged, List.flatMap_def, Function.comp_def]
                  rw [this]; exact a3.trans b1
                · intro g hg
                  rcases List.mem_append.1 hg with hg | hg
                  · rcases List.mem_map.1 hg with ⟨tcs, ht, rfl⟩
                    simp [a2 tcs ht]
                  · rcases b2 g hg with ⟨c1, c2, c3⟩
                    refine ⟨by omega, by simp; omega, ?_⟩
                    have : g.1 - j = (g.1 - (j + 1)) + 1 := by omega
                    rw [c3, this]; simp
                · intro j'
                  rw [List.filter_append, List.length_append, b3 j', List.filter_map, List.length_map]
                  by_cases hj : j = j'
                  · subst hj
                    have : ¬ (j + 1 ≤ j ∧ j < j + 1 + rest.length) := by omega
                    have hf : (tcss.filter ((fun g : Nat × Tagged => decide (g.1 = j)) ∘ fun tcs => (j, tcs))) = tcss := by
                      simp [Function.comp_def]
                    rw [hf]
                    simp [this, a1, hnum]
                  · have hf : (tcss.filter ((fun g : Nat × Tagged => decide (g.1 = j')) ∘ fun tcs => (j, tcs))) = [] := by
                      simp [Function.comp_def, hj]
                    rw [hf]
                    by_cases h2 : j + 1 ≤ j' ∧ j' < j + 1 + rest.length
                    · have h3 : j ≤ j' ∧ j' < j + (rest.length + 1) := by omega
                      have : j' - j = (j' - (j + 1)) + 1 := by omega
                      simp [h2, h3, this]
                    · have h3 : ¬ (j ≤ j' ∧ j' < j + (rest.length + 1)) := by omega
                      simp [h2, h3]

/-! ### lengths -/

theorem Conserved.length {parts parts' : List (List (List Nat))} {tcs : Tagged} (h : Conserved parts parts' tcs)
    (i : Nat) : (parts.getD i []).length = (parts'.getD i []).length + (popped i tcs).length := by
  rw [h.2 i]; simp

theorem length_popped_flatten (i : Nat) (orbits : List Nat) (tcss : List Tagged)
    (h : ∀ tcs ∈ tcss, tcs.map (·.1) = orbits) :
    (popped i tcss.flatten).length = tcss.length * orbits.count i := by
  induction tcss with
  | nil => simp
  | cons t ts ih =>
    rw [List.flatten_cons, popped_append, List.length_append, ih (fun x hx => h x (List.mem_cons_of_mem _ hx)),
      length_popped, h t (List.mem_cons_self ..), List.length_cons, Nat.succ_mul, Nat.add_comm]

/-- total number of pops from column `i` requested by the motif types in `rest` -/
def demand (sizes : List Nat) (σ : List (List Nat)) (rest : List (List Nat)) (i : Nat) : Nat :=
  (rest.map fun orbits => numMotifs sizes σ orbits * orbits.count i).sum

theorem drawAllT_popped_length {sizes : List Nat} {σ : List (List Nat)} {rest : List (List Nat)} {j : Nat}
    {parts : List (List (List Nat))} {gs : List (Nat × Tagged)} {parts' : List (List (List Nat))}
    (h : drawAllT sizes σ rest j parts = some (gs, parts')) (i : Nat) :
    (popped i (allTagged gs)).length = demand sizes σ rest i := by
  induction rest generalizing j parts gs parts' with
  | nil =>
    simp only [drawAllT, Option.some.injEq, Prod.mk.injEq] at h
    rcases h with ⟨rfl, rfl⟩
    rfl
  | cons orbits rest ih =>
    cases orbits with
    | nil => simp [drawAllT] at h
    | cons kk os =>
      simp only [drawAllT] at h
      cases hl : σ[kk]? with
      | none => simp [hl] at h
      | some l =>
        cases hs : sizes[kk]? with
        | none => simp [hl, hs] at h
        | some sz =>
          simp only [hl, hs] at h
          by_cases hsz : sz = 0
          · simp [hsz] at h
          · simp only [hsz, if_false] at h
            cases hi : instancesT (kk :: os) (l.length / sz) parts with
            | none => simp [hi] at h
            | some r =>
              rcases r with ⟨tcss, parts0⟩
              simp only [hi] at h
              cases hr : drawAllT sizes σ rest (j + 1) parts0 with
              | none => simp [hr] at h
              | some r =>
                rcases r with ⟨more, parts1⟩
                simp only [hr, Option.some.injEq, Prod.mk.injEq] at h
                rcases h with ⟨rfl, rfl⟩
                rcases instancesT_inv hi with ⟨a1, a2, _⟩
                have hnum : numMotifs sizes σ (kk :: os) = l.length / sz := by
                  simp [numMotifs, List.getD_eq_getElem?_getD, hl, hs]
                have : allTagged (tcss.map (fun tcs => (j, tcs)) ++ more) = tcss.flatten ++ allTagged more := by
                  simp [allTagged, List.flatMap_def, Function.comp_def]
                rw [this, popped_append, List.length_append, ih hr, length_popped_flatten i _ _ a2, a1]
                simp [demand, hnum]

/-! ### success (no IndexError / ZeroDivisionError) when enough chunks are available -/

theorem popOrbitsT_ok (parts : List (List (List Nat))) (is : List Nat)
    (hlen : ∀ i, is.count i ≤ (parts.getD i []).length) : ∃ r, popOrbitsT parts is = some r := by
  induction is generalizing parts with
  | nil => exact ⟨_, rfl⟩
  | cons i0 is ih =>
    have h0 := hlen i0
    rw [List.count_cons_self] at h0
    have hi0 : i0 < parts.length := by
      rcases Nat.lt_or_ge i0 parts.length with h | h
      · exact h
      · rw [List.getD_eq_getElem?_getD, List.getElem?_eq_none h] at h0; simp at h0
    have hp : parts[i0]? = some parts[i0] := List.getElem?_eq_getElem hi0
    have hg : parts.getD i0 [] = parts[i0] := by rw [List.getD_eq_getElem?_getD, hp]; rfl
    rw [hg] at h0
    have hne : parts[i0] ≠ [] := by
      intro e; rw [e] at h0; simp at h0
    have hc : parts[i0].getLast? = some (parts[i0].getLast hne) := List.getLast?_eq_some_getLast hne
    have hrec : ∀ i, is.count i ≤ ((parts.set i0 parts[i0].dropLast).getD i []).length := by
      intro i
      by_cases hi : i0 = i
      · subst hi
        rw [List.getD_eq_getElem?_getD, List.getElem?_set_self hi0]
        simp only [Option.getD_some, List.length_dropLast]; omega
      · rw [List.getD_eq_getElem?_getD, List.getElem?_set_ne hi, ← List.getD_eq_getElem?_getD]
        have := hlen i
        rw [List.count_cons_of_ne (by omega)] at this
        exact this
    rcases ih _ hrec with ⟨⟨tcs, parts'⟩, hr⟩
    refine ⟨((i0, parts[i0].getLast hne) :: tcs, parts'), ?_⟩
    simp only [popOrbitsT, hp, hc, hr]

theorem instancesT_ok (orbits : List Nat) (n : Nat) (parts : List (List (List Nat)))
    (hlen : ∀ i, n * orbits.count i ≤ (parts.getD i []).length) : ∃ r, instancesT orbits n parts = some r := by
  induction n generalizing parts with
  | zero => exact ⟨_, rfl⟩
  | succ n ih =>
    have h1 : ∀ i, orbits.count i ≤ (parts.getD i []).length := by
      intro i; have := hlen i; rw [Nat.succ_mul] at this; omega
    rcases popOrbitsT_ok parts orbits h1 with ⟨⟨tcs, parts0⟩, hp⟩
    rcases popOrbitsT_inv hp with ⟨a1, a2⟩
    have h2 : ∀ i, n * orbits.count i ≤ (parts0.getD i []).length := by
      intro i
      have := hlen i
      have e := a2.length i
      rw [length_popped, a1] at e
      rw [Nat.succ_mul] at this; omega
    rcases ih parts0 h2 with ⟨⟨rest, parts1⟩, hr⟩
    refine ⟨(tcs :: rest, parts1), ?_⟩
    simp only [instancesT, hp, hr]

theorem drawAllT_ok (sizes : List Nat) (σ : List (List Nat)) (rest : List (List Nat)) (j : Nat)
    (parts : List (List (List Nat)))
    (hrest : ∀ orbits ∈ rest, orbits ≠ [] ∧ orbits.headD 0 < σ.length ∧ 0 < sizes.getD (orbits.headD 0) 0)
    (hlen : ∀ i, demand sizes σ rest i ≤ (parts.getD i []).length) :
    ∃ r, drawAllT sizes σ rest j parts = some r := by
  induction rest generalizing j parts with
  | nil => exact ⟨_, rfl⟩
  | cons orbits rest ih =>
    rcases hrest orbits (List.mem_cons_self ..) with ⟨hne, hσ, hs⟩
    cases orbits with
    | nil => exact absurd rfl hne
    | cons kk os =>
      simp only [List.headD_cons] at hσ hs
      have hl : σ[kk]? = some σ[kk] := List.getElem?_eq_getElem hσ
      have hks : kk < sizes.length := by
        rcases Nat.lt_or_ge kk sizes.length with h | h
        · exact h
        · rw [List.getD_eq_getElem?_getD, List.getElem?_eq_none h] at hs; simp at hs
      have hsz : sizes[kk]? = some sizes[kk] := List.getElem?_eq_getElem hks
      have hsz0 : sizes[kk] ≠ 0 := by
        rw [List.getD_eq_getElem?_getD, hsz] at hs; simp at hs; omega
      have hnum : numMotifs sizes σ (kk :: os) = σ[kk].length / sizes[kk] := by
        simp [numMotifs, List.getD_eq_getElem?_getD, hl, hsz]
      have hd : ∀ i, demand sizes σ ((kk :: os) :: rest) i =
          σ[kk].length / sizes[kk] * (kk :: os).count i + demand sizes σ rest i := by
        intro i; simp [demand, hnum]
      have h1 : ∀ i, σ[kk].length / sizes[kk] * (kk :: os).count i ≤ (parts.getD i []).length := by
        intro i; have := hlen i; rw [hd] at this; omega
      rcases instancesT_ok (kk :: os) _ parts h1 with ⟨⟨tcss, parts0⟩, hi⟩
      rcases instancesT_inv hi with ⟨a1, a2, a3⟩
      have h2 : ∀ i, demand sizes σ rest i ≤ (parts0.getD i []).length := by
        intro i
        have := hlen i
        have e := a3.length i
        rw [length_popped_flatten i _ _ a2, a1] at e
        rw [hd] at this; omega
      rcases ih (j + 1) parts0 (fun o ho => hrest o (List.mem_cons_of_mem _ ho)) h2 with ⟨⟨more, parts1⟩, hr⟩
      refine ⟨(tcss.map (fun tcs => (j, tcs)) ++ more, parts1), ?_⟩
      simp only [drawAllT, hl, hsz, hsz0, if_false, hi, hr]

/-! ### the initial partitions -/

theorem length_partitions (sizes : List Nat) (σ : List (List Nat)) : (partitions sizes σ).length = σ.length := by
  simp [partitions]

theorem partitions_getD (sizes : List Nat) (σ : List (List Nat)) (i : Nat) :
    (partitions sizes σ).getD i [] = chunks (sizes.getD i 0) (σ.getD i []) := by
  unfold partitions
  rw [List.getD_eq_getElem?_getD, List.getD_eq_getElem?_getD, List.getElem?_map, List.getElem?_zipIdx]
  cases h : σ[i]? with
  | none => simp [h, chunks_nil]
  | some l => simp [h]

theorem mem_partitions_getD {sizes : List Nat} {σ : List (List Nat)} {i : Nat} {c : List Nat}
    (h : c ∈ (partitions sizes σ).getD i []) :
    i < σ.length ∧ c ∈ chunks (sizes.getD i 0) (σ.getD i []) := by
  rw [partitions_getD] at h
  refine ⟨?_, h⟩
  rcases Nat.lt_or_ge i σ.length with h1 | h1
  · exact h1
  · have : σ.getD i [] = [] := by simp [List.getD_eq_getElem?_getD, List.getElem?_eq_none h1]
    rw [this, chunks_nil] at h; cases h

/-! ### records -/

theorem recordsOf_proj {β : Type} (build : Nat → List Nat → β) (gs : List (Nat × Tagged)) :
    (recordsOf build gs).map (fun m => (m.top, m.verts)) = gs.map (fun g => (g.1, untag g.2)) := by
  unfold recordsOf
  rw [List.map_map]
  have : ((fun m : Motif β => (m.top, m.verts)) ∘ fun (x : (Nat × Tagged) × Nat) =>
      match x with | ((j, tcs), id) => (⟨j, id, untag tcs, build j (untag tcs)⟩ : Motif β))
      = (fun g : Nat × Tagged => (g.1, untag g.2)) ∘ Prod.fst := by
    funext ⟨⟨j, tcs⟩, id⟩; rfl
  rw [this, ← List.map_map, List.zipIdx_map_fst]

theorem recordsOf_ids {β : Type} (build : Nat → List Nat → β) (gs : List (Nat × Tagged)) :
    (recordsOf build gs).map (·.id) = List.range gs.length := by
  unfold recordsOf
  rw [List.map_map]
  have : ((fun m : Motif β => m.id) ∘ fun (x : (Nat × Tagged) × Nat) =>
      match x with | ((j, tcs), id) => (⟨j, id, untag tcs, build j (untag tcs)⟩ : Motif β)) = Prod.snd := by
    funext ⟨⟨j, tcs⟩, id⟩; rfl
  rw [this, List.zipIdx_map_snd]; simp [List.range_eq_range']

theorem mem_recordsOf {β : Type} {build : Nat → List Nat → β} {gs : List (Nat × Tagged)} {m : Motif β}
    (hm : m ∈ recordsOf build gs) :
    ∃ g ∈ gs, m.top = g.1 ∧ m.verts = untag g.2 ∧ m.built = build g.1 (untag g.2) := by
  unfold recordsOf at hm
  rcases List.mem_map.1 hm with ⟨⟨⟨j, tcs⟩, id⟩, h1, rfl⟩
  exact ⟨(j, tcs), (List.mem_zipIdx h1).2.2 ▸ by simp, rfl, rfl, rfl⟩

theorem recordsOf_count_top {β : Type} (build : Nat → List Nat → β) (gs : List (Nat × Tagged)) (j : Nat) :
    ((recordsOf build gs).filter (fun m => m.top = j)).length = (gs.filter (fun g => g.1 = j)).length := by
  have h1 : (recordsOf build gs).map (·.top) = gs.map (·.1) := by
    have := congrArg (List.map Prod.fst) (recordsOf_proj build gs)
    simpa [List.map_map, Function.comp_def] using this
  rw [← List.countP_eq_length_filter, ← List.countP_eq_length_filter]
  have e1 : (recordsOf build gs).countP (fun m => m.top = j) = ((recordsOf build gs).map (·.top)).countP (· = j) := by
    rw [List.countP_map]; rfl
  have e2 : gs.countP (fun g => g.1 = j) = (gs.map (·.1)).countP (· = j) := by
    rw [List.countP_map]; rfl
  rw [e1, e2, h1]

theorem mem_untag {tcs : Tagged} {v : Nat} (h : v ∈ untag tcs) : ∃ i c, (i, c) ∈ tcs ∧ v ∈ c := by
  unfold untag at h
  rcases List.mem_flatMap.1 h with ⟨⟨i, c⟩, h1, h2⟩
  exact ⟨i, c, h1, h2⟩

theorem length_untag (tcs : Tagged) : (untag tcs).length = (tcs.map (fun t => t.2.length)).sum := by
  induction tcs with
  | nil => rfl
  | cons t ts ih => simp [untag, List.flatMap_cons] at ih ⊢

theorem mem_allTagged {gs : List (Nat × Tagged)} {g : Nat × Tagged} {t : Nat × List Nat}
    (hg : g ∈ gs) (ht : t ∈ g.2) : t ∈ allTagged gs :=
  List.mem_flatMap.2 ⟨g, hg, ht⟩

/-- every chunk ever popped from column `i` is one of the chunks of the initial partition of column `i` -/
theorem Conserved.mem {parts parts' : List (List (List Nat))} {tcs : Tagged} (h : Conserved parts parts' tcs)
    {i : Nat} {c : List Nat} (hc : (i, c) ∈ tcs) : c ∈ parts.getD i [] := by
  rw [h.2 i]
  exact List.mem_append_right _ (List.mem_reverse.2 (mem_popped.2 hc))

end Gcmpy.Generate
