import Mathlib.Data.List.Nodup
import Mathlib.Data.List.Perm.Basic
import Mathlib.Algebra.Order.Field.Rat
import Mathlib.Algebra.BigOperators.Group.List.Basic
import GcmpyModel.Model.MCMC
import GcmpyModel.Lemmas.Dict
import GcmpyModel.Lemmas.Reach
/-!
Helper lemmas for the model of the Markov-chain Monte-Carlo rewiring (`Model/MCMC.lean`), properties C11 / C12.

Vocabulary: `WF`, `IsCorner`, `topDegree`, `Ok` (the hypotheses of one step), `newE` (the entries a swap adds).
Main result: `applyProps_eq` / `applySwap_eq` — under the step hypotheses the application of a swap succeeds and
the new edge table is `G.edges.filter (key ∉ removed) ++ newE …`, from which every structural property follows.
-/
namespace Gcmpy.MCMC
open Gcmpy Gcmpy.Graph Gcmpy.Loaders

/-! ### vocabulary -/

/-- well-formed annotated graph: one entry per undirected edge, keys normalised, no self-loops -/
def WF (G : Net) : Prop :=
  (G.edges.map (·.1)).Nodup ∧ (∀ p ∈ G.edges, p.1 = normE p.1) ∧ ∀ p ∈ G.edges, p.1.1 ≠ p.1.2

/-- the corner list handed to a step is the real corner: a non-empty duplicate-free list of edges of `G`
    oriented away from the focal vertex `u`, all carrying one motif id `m`, containing every such edge -/
def IsCorner (G : Net) (u : Nat) (es : List Edge) : Prop :=
  es ≠ [] ∧ es.Nodup ∧ ∃ m, (∀ e ∈ es, e.1 = u ∧ (attrOf G e.1 e.2).map (·.mid) = some m) ∧
    ∀ e, e ∈ corner G u m → e ∈ es

/-- number of edges of topology `t` at vertex `v` -/
def topDegree (G : Net) (v : Nat) (t : String) : Nat :=
  (G.edges.filter fun p => (p.1.1 = v ∨ p.1.2 = v) ∧ p.2.top = t).length

/-- optional topology / motif id of an (oriented) edge -/
abbrev otop (G : Net) (e : Edge) : Option String := (attrOf G e.1 e.2).map (·.top)
abbrev omid (G : Net) (e : Edge) : Option Nat := (attrOf G e.1 e.2).map (·.mid)

/-! ### `normE` -/

theorem normE_normE (e : Edge) : normE (normE e) = normE e := by
  simp only [normE, Prod.mk.injEq]; omega

theorem normE_comm (a b : Nat) : normE (a, b) = normE (b, a) := by
  simp only [normE, Prod.mk.injEq]; omega

theorem normE_eq_iff {a b c d : Nat} :
    normE (a, b) = normE (c, d) ↔ (a = c ∧ b = d) ∨ (a = d ∧ b = c) := by
  simp only [normE, Prod.mk.injEq]; omega

theorem normE_inj_left {u a b : Nat} (h : normE (u, a) = normE (u, b)) : a = b := by
  rcases normE_eq_iff.1 h with h | h <;> omega

theorem touch_normE {a b v : Nat} : ((normE (a, b)).1 = v ∨ (normE (a, b)).2 = v) ↔ (a = v ∨ b = v) := by
  simp only [normE]; omega

theorem normE_loop_iff {a b : Nat} : (normE (a, b)).1 = (normE (a, b)).2 ↔ a = b := by
  simp only [normE]; omega

theorem eq_normE_cases {k : Edge} (h : k = normE k) (a b : Nat) (hk : k = normE (a, b)) :
    k = (a, b) ∨ k = (b, a) := by
  obtain ⟨x, y⟩ := k
  simp only [normE, Prod.mk.injEq] at *
  omega

/-! ### dictionary facts -/

theorem Dict_mem_of_get {κ ν : Type} [DecidableEq κ] (d : List (κ × ν)) (k : κ) (v : ν)
    (h : Dict.get d k = some v) : (k, v) ∈ d := by
  induction d with
  | nil => simp [Dict.get] at h
  | cons x r ih =>
    obtain ⟨a, w⟩ := x
    by_cases ha : a = k
    · subst ha
      simp only [Dict.get, if_true, Option.some.injEq] at h
      subst h
      exact List.mem_cons_self
    · simp only [Dict.get, if_neg ha] at h
      exact List.mem_cons_of_mem _ (ih h)

theorem hasE_iff (G : Net) (a b : Nat) : hasE G a b = true ↔ normE (a, b) ∈ G.edges.map (·.1) :=
  Dict.get_isSome_iff_mem_keys G.edges (normE (a, b))

theorem mem_of_attrOf {G : Net} {a b : Nat} {x : Attr} (h : attrOf G a b = some x) :
    (normE (a, b), x) ∈ G.edges := Dict_mem_of_get _ _ _ h

theorem attrOf_of_mem {G : Net} (hWF : WF G) {a b : Nat} {x : Attr} (h : (normE (a, b), x) ∈ G.edges) :
    attrOf G a b = some x := Dict.get_of_mem G.edges hWF.1 _ h

theorem attrOf_comm (G : Net) (a b : Nat) : attrOf G a b = attrOf G b a := by
  unfold attrOf; rw [normE_comm]

theorem key_mem_of_attrOf {G : Net} {a b : Nat} {x : Attr} (h : attrOf G a b = some x) :
    normE (a, b) ∈ G.edges.map (·.1) := List.mem_map.2 ⟨_, mem_of_attrOf h, rfl⟩

theorem ne_of_attrOf {G : Net} (hWF : WF G) {a b : Nat} {x : Attr} (h : attrOf G a b = some x) : a ≠ b := by
  intro hab
  exact hWF.2.2 _ (mem_of_attrOf h) (normE_loop_iff.2 hab)

/-! ### `motifVertices` -/

theorem self_mem_motifVertices (G : Net) (u m : Nat) : u ∈ motifVertices G u m :=
  self_mem_comp _ _ _

/-- the far end of an edge at `a` carrying motif id `m` is a vertex of the motif (one round of expansion) -/
theorem mem_motifVertices_of_attr {G : Net} {a b : Nat} {x : Attr} (h : attrOf G a b = some x) :
    b ∈ motifVertices G a x.mid := by
  unfold motifVertices comp
  apply closure_mono (Nat.le_add_left 1 G.edges.length)
  show b ∈ expand _ [a]
  rw [mem_expand]
  right
  refine ⟨a, List.mem_singleton.2 rfl, ?_⟩
  have hm : normE (a, b) ∈ (G.edges.filter fun p => p.2.mid = x.mid).map (·.1) :=
    List.mem_map.2 ⟨_, List.mem_filter.2 ⟨mem_of_attrOf h, by simp⟩, rfl⟩
  unfold Adj
  by_cases hab : a ≤ b
  · left
    have : normE (a, b) = (a, b) := by simp only [normE, Prod.mk.injEq]; omega
    rwa [this] at hm
  · right
    have : normE (a, b) = (b, a) := by simp only [normE, Prod.mk.injEq]; omega
    rwa [this] at hm

/-! ### topology counts -/

theorem countTop_eq_countP (G : Net) (es : List Edge) (t : String) :
    countTop G es t = es.countP (fun e => otop G e = some t) := by
  unfold countTop topsOf
  induction es with
  | nil => rfl
  | cons e rest ih =>
    cases h : attrOf G e.1 e.2 with
    | none => simp [h, otop, ih]
    | some a =>
      by_cases ht : a.top = t
      · simp [h, otop, ih, ht]
      · simp [h, otop, ih, ht]

theorem mem_topsOf {G : Net} {es : List Edge} {t : String} :
    t ∈ topsOf G es ↔ ∃ e ∈ es, otop G e = some t := by
  unfold topsOf
  simp only [List.mem_filterMap]

/-! ### `pairUp` -/

theorem pairUp_spec (G : Net) : ∀ (e0s e1s : List Edge) (ps : List (Edge × Edge)),
    pairUp G e0s e1s = some ps →
    ps.map Prod.fst = e0s ∧ (∃ rest, e1s.Perm (ps.map Prod.snd ++ rest)) ∧ ∀ p ∈ ps, otop G p.2 = otop G p.1
  | [], e1s, ps, h => by
    simp only [pairUp, Option.some.injEq] at h
    subst h
    exact ⟨rfl, ⟨e1s, by simp⟩, by simp⟩
  | e0 :: rest, e1s, ps, h => by
    unfold pairUp at h
    simp only at h
    split at h
    · exact absurd h (by simp)
    · rename_i e1 hfind
      split at h
      · exact absurd h (by simp)
      · rename_i ps' hrec
        simp only [Option.some.injEq] at h
        subst h
        obtain ⟨h1, ⟨r, h2⟩, h3⟩ := pairUp_spec G rest (e1s.erase e1) ps' hrec
        have hmem : e1 ∈ e1s := List.mem_reverse.1 (List.mem_of_find?_eq_some hfind)
        have hp := List.find?_some hfind
        simp only [decide_eq_true_eq] at hp
        refine ⟨by simp [h1], ⟨r, ?_⟩, ?_⟩
        · exact (List.perm_cons_erase hmem).trans (by simpa using h2)
        · intro p hp'
          rcases List.mem_cons.1 hp' with rfl | hp'
          · exact hp
          · exact h3 p hp'

theorem pairUp_succeeds (G : Net) : ∀ (e0s e1s : List Edge),
    (∀ e ∈ e0s, ∃ t, otop G e = some t) →
    (∀ t, e0s.countP (fun e => otop G e = some t) ≤ e1s.countP (fun e => otop G e = some t)) →
    ∃ ps, pairUp G e0s e1s = some ps
  | [], _, _, _ => ⟨[], rfl⟩
  | e0 :: rest, e1s, hsome, hcnt => by
    obtain ⟨t, ht⟩ := hsome e0 List.mem_cons_self
    have h1 : 0 < e1s.countP (fun e => otop G e = some t) := by
      have := hcnt t
      simp only [List.countP_cons, ht, decide_true, if_true] at this
      omega
    obtain ⟨e1', he1', hp'⟩ := List.countP_pos_iff.1 h1
    have hfs : (e1s.reverse.find? fun e1 => (attrOf G e1.1 e1.2).map (·.top) = (attrOf G e0.1 e0.2).map (·.top)).isSome := by
      rw [List.find?_isSome]
      refine ⟨e1', List.mem_reverse.2 he1', ?_⟩
      simp only [decide_eq_true_eq] at hp' ⊢
      exact hp'.trans ht.symm
    obtain ⟨e1, hfind⟩ := Option.isSome_iff_exists.1 hfs
    have hmem : e1 ∈ e1s := List.mem_reverse.1 (List.mem_of_find?_eq_some hfind)
    have hp := List.find?_some hfind
    simp only [decide_eq_true_eq] at hp
    have hperm := List.perm_cons_erase hmem
    obtain ⟨ps', hrec⟩ := pairUp_succeeds G rest (e1s.erase e1)
      (fun e he => hsome e (List.mem_cons_of_mem _ he))
      (by
        intro t'
        have h2 := hcnt t'
        rw [hperm.countP_eq] at h2
        simp only [List.countP_cons] at h2
        have : (otop G e1 = some t') ↔ (otop G e0 = some t') := by
          show ((attrOf G e1.1 e1.2).map (·.top) = some t') ↔ _
          rw [hp]
        simp only [this] at h2
        omega)
    refine ⟨(e0, e1) :: ps', ?_⟩
    unfold pairUp
    simp only [hfind, hrec]

/-! ### the application loop of `rewire`, factored -/

/-- one `G.add_edge` of the application loop (`none` = "already present" / missing attributes) -/
def addStep (acc : Option (List (Edge × Attr))) : Edge × Option Attr → Option (List (Edge × Attr))
  | (e, a) =>
    match acc, a with
    | some es, some a => if (Dict.get es (normE e)).isSome then none else some (es ++ [(normE e, a)])
    | _, _ => none

/-- `remove_edge` for every listed edge -/
def removeAll (rs : List Edge) (es : List (Edge × Attr)) : List (Edge × Attr) :=
  rs.foldl (fun es e => es.filter fun p => p.1 ≠ normE e) es

/-- add the proposals, then remove the old edges -/
def applyProps (G : Net) (props : List (Edge × Option Attr)) (rs : List Edge) : Option Net :=
  match props.foldl addStep (some G.edges) with
  | none => none
  | some es => some { G with edges := removeAll rs es }

theorem applySwap_eq_applyProps (G : Net) (u0 v0 : Nat) (e0s e1s : List Edge) :
    applySwap G u0 v0 e0s e1s =
      match pairUp G e0s e1s with
      | none => none
      | some ps => applyProps G (proposals G u0 v0 ps) (e0s ++ e1s) := rfl

theorem applySwapFixed_eq_applyProps (G : Net) (u0 v0 : Nat) (e0s e1s : List Edge) :
    applySwapFixed G u0 v0 e0s e1s =
      match pairUp G e0s e1s with
      | none => none
      | some ps => applyProps G (proposalsFixed G u0 v0 ps) (e0s ++ e1s) := rfl

theorem removeAll_eq_filter (rs : List Edge) (es : List (Edge × Attr)) :
    removeAll rs es = es.filter fun p => p.1 ∉ rs.map normE := by
  unfold removeAll
  induction rs generalizing es with
  | nil => simp
  | cons r rest ih =>
    rw [List.foldl_cons, ih, List.filter_filter]
    apply List.filter_congr
    intro p _
    by_cases h1 : p.1 = normE r <;> by_cases h2 : p.1 ∈ rest.map normE <;> simp [h1, h2]

theorem foldl_addStep_none (props : List (Edge × Option Attr)) : props.foldl addStep none = none := by
  induction props with
  | nil => rfl
  | cons x r ih => obtain ⟨e, a⟩ := x; simpa [addStep] using ih

/-- adding entries with fresh, pairwise distinct keys appends them -/
theorem foldl_addStep_some (news : List (Edge × Attr)) : ∀ (es : List (Edge × Attr)),
    (es.map (·.1) ++ news.map (fun p => normE p.1)).Nodup →
    (news.map fun p => (p.1, some p.2)).foldl addStep (some es) = some (es ++ news.map fun p => (normE p.1, p.2)) := by
  induction news with
  | nil => intro es _; simp
  | cons x r ih =>
    intro es hnd
    obtain ⟨e, a⟩ := x
    have hfresh : normE e ∉ es.map (·.1) := by
      intro hmem
      have := (List.nodup_append.1 hnd).2.2 _ hmem (normE e) (by simp)
      exact this rfl
    have hget : Dict.get es (normE e) = none := Dict.get_eq_none_of_not_mem es _ hfresh
    simp only [List.map_cons, List.foldl_cons, addStep, hget, Option.isSome_none, Bool.false_eq_true, if_false]
    rw [ih (es ++ [(normE e, a)])]
    · simp
    · simpa [List.map_append] using hnd

/-! ### the hypotheses of one step, decoded -/

/-- hypotheses of one step of the chain: well-formed graph, real corners, `is_edge_choice_suitable` -/
structure Ok (G : Net) (u0 v0 : Nat) (e0s e1s : List Edge) : Prop where
  wf : WF G
  c0 : IsCorner G u0 e0s
  c1 : IsCorner G v0 e1s
  suit : suitable G u0 v0 e0s e1s = true

/-- what `Ok` says, clause by clause (`A`, `B` the motif ids of the two corners) -/
structure Facts (G : Net) (u0 v0 : Nat) (e0s e1s : List Edge) (A B : Nat) : Prop where
  wf : WF G
  nd0 : e0s.Nodup
  nd1 : e1s.Nodup
  e0 : ∀ e ∈ e0s, e.1 = u0 ∧ ∃ a, attrOf G e.1 e.2 = some a ∧ a.mid = A
  e1 : ∀ e ∈ e1s, e.1 = v0 ∧ ∃ a, attrOf G e.1 e.2 = some a ∧ a.mid = B
  full0 : ∀ e, e ∈ corner G u0 A → e ∈ e0s
  full1 : ∀ e, e ∈ corner G v0 B → e ∈ e1s
  len : e0s.length = e1s.length
  cnt : ∀ t, e0s.countP (fun e => otop G e = some t) ≤ e1s.countP (fun e => otop G e = some t)
  ne : A ≠ B
  nv0 : v0 ∉ motifVertices G u0 A
  nu0 : u0 ∉ motifVertices G v0 B
  free : ∀ x ∈ e0s, ∀ y ∈ e1s, otop G y = otop G x →
    normE (u0, y.2) ∉ G.edges.map (·.1) ∧ normE (v0, x.2) ∉ G.edges.map (·.1)

theorem Ok.facts {G : Net} {u0 v0 : Nat} {e0s e1s : List Edge} (h : Ok G u0 v0 e0s e1s) :
    ∃ A B, Facts G u0 v0 e0s e1s A B := by
  obtain ⟨hWF, ⟨hne0, hnd0, A, hA, hfull0⟩, ⟨hne1, hnd1, B, hB, hfull1⟩, hs⟩ := h
  have hE0 : ∀ e ∈ e0s, e.1 = u0 ∧ ∃ a, attrOf G e.1 e.2 = some a ∧ a.mid = A := by
    intro e he
    obtain ⟨h1, h2⟩ := hA e he
    obtain ⟨a, ha, hm⟩ := Option.map_eq_some_iff.1 h2
    exact ⟨h1, a, ha, hm⟩
  have hE1 : ∀ e ∈ e1s, e.1 = v0 ∧ ∃ a, attrOf G e.1 e.2 = some a ∧ a.mid = B := by
    intro e he
    obtain ⟨h1, h2⟩ := hB e he
    obtain ⟨a, ha, hm⟩ := Option.map_eq_some_iff.1 h2
    exact ⟨h1, a, ha, hm⟩
  obtain ⟨x0, t0, rfl⟩ := List.exists_cons_of_ne_nil hne0
  obtain ⟨x1, t1, rfl⟩ := List.exists_cons_of_ne_nil hne1
  obtain ⟨_, a0, ha0, hm0⟩ := hE0 x0 List.mem_cons_self
  obtain ⟨_, a1, ha1, hm1⟩ := hE1 x1 List.mem_cons_self
  unfold suitable at hs
  simp only [List.head?_cons, ha0, ha1, Bool.and_eq_true, decide_eq_true_eq, List.all_eq_true, hm0, hm1] at hs
  obtain ⟨⟨⟨⟨⟨hlen, hc0⟩, _⟩, hzip⟩, hnv0, hnu0⟩, hfree⟩ := hs
  refine ⟨A, B, hWF, hnd0, hnd1, hE0, hE1, hfull0, hfull1, hlen, ?_, ?_, hnv0, hnu0, ?_⟩
  · intro t
    by_cases ht : t ∈ topsOf G (x0 :: t0)
    · have := hc0 t ht
      rw [countTop_eq_countP, countTop_eq_countP] at this
      omega
    · have : (x0 :: t0).countP (fun e => otop G e = some t) = 0 := by
        rw [List.countP_eq_zero]
        intro e he
        simp only [decide_eq_true_eq]
        intro h'
        exact ht (mem_topsOf.2 ⟨e, he, h'⟩)
      omega
  · intro hAB
    have := hzip (x0, x1) (by simp)
    apply this
    show (attrOf G x0.1 x0.2).map (·.mid) = (attrOf G x1.1 x1.2).map (·.mid)
    rw [ha0, ha1, Option.map_some, Option.map_some, hm0, hm1, hAB]
  · intro x hx y hy hxy
    have := hfree x hx y (List.mem_filter.2 ⟨hy, by simpa using hxy⟩)
    obtain ⟨h1, h2⟩ := this
    rw [hasE_iff] at h1 h2
    exact ⟨h1, h2⟩

namespace Facts
variable {G : Net} {u0 v0 : Nat} {e0s e1s : List Edge} {A B : Nat}

theorem u0_ne_v0 (F : Facts G u0 v0 e0s e1s A B) : u0 ≠ v0 := by
  intro h
  apply F.nv0
  rw [← h]
  exact self_mem_motifVertices G u0 A

theorem e0_ne_u0 (F : Facts G u0 v0 e0s e1s A B) {e : Edge} (he : e ∈ e0s) : e.2 ≠ u0 := by
  obtain ⟨h1, a, ha, _⟩ := F.e0 e he
  have := ne_of_attrOf F.wf ha
  rw [h1] at this
  exact this.symm

theorem e1_ne_v0 (F : Facts G u0 v0 e0s e1s A B) {e : Edge} (he : e ∈ e1s) : e.2 ≠ v0 := by
  obtain ⟨h1, a, ha, _⟩ := F.e1 e he
  have := ne_of_attrOf F.wf ha
  rw [h1] at this
  exact this.symm

/-- the vertex moved into the right-hand motif is not one of its vertices: no self-loop `(u0, v1)` -/
theorem e1_ne_u0 (F : Facts G u0 v0 e0s e1s A B) {e : Edge} (he : e ∈ e1s) : e.2 ≠ u0 := by
  obtain ⟨h1, a, ha, hm⟩ := F.e1 e he
  intro h
  apply F.nu0
  have := mem_motifVertices_of_attr ha
  rwa [h1, h, hm] at this

theorem e0_ne_v0 (F : Facts G u0 v0 e0s e1s A B) {e : Edge} (he : e ∈ e0s) : e.2 ≠ v0 := by
  obtain ⟨h1, a, ha, hm⟩ := F.e0 e he
  intro h
  apply F.nv0
  have := mem_motifVertices_of_attr ha
  rwa [h1, h, hm] at this

theorem otop_e0 (F : Facts G u0 v0 e0s e1s A B) {e : Edge} (he : e ∈ e0s) : ∃ t, otop G e = some t := by
  obtain ⟨_, a, ha, _⟩ := F.e0 e he
  exact ⟨a.top, by simp [otop, ha]⟩

end Facts

/-- what `pairUp` returns under the step hypotheses -/
structure Pairing (G : Net) (e0s e1s : List Edge) (ps : List (Edge × Edge)) : Prop where
  fst : ps.map Prod.fst = e0s
  snd : (ps.map Prod.snd).Perm e1s
  top : ∀ p ∈ ps, otop G p.2 = otop G p.1

namespace Pairing
variable {G : Net} {e0s e1s : List Edge} {ps : List (Edge × Edge)}

theorem mem_fst (P : Pairing G e0s e1s ps) {p : Edge × Edge} (hp : p ∈ ps) : p.1 ∈ e0s := by
  rw [← P.fst]; exact List.mem_map_of_mem hp

theorem mem_snd (P : Pairing G e0s e1s ps) {p : Edge × Edge} (hp : p ∈ ps) : p.2 ∈ e1s :=
  P.snd.subset (List.mem_map_of_mem hp)

theorem length0 (P : Pairing G e0s e1s ps) : ps.length = e0s.length := by
  rw [← P.fst, List.length_map]

theorem length1 (P : Pairing G e0s e1s ps) : ps.length = e1s.length := by
  rw [← P.snd.length_eq, List.length_map]

end Pairing

theorem Facts.pairing {G : Net} {u0 v0 : Nat} {e0s e1s : List Edge} {A B : Nat}
    (F : Facts G u0 v0 e0s e1s A B) {ps : List (Edge × Edge)} (h : pairUp G e0s e1s = some ps) :
    Pairing G e0s e1s ps := by
  obtain ⟨h1, ⟨rest, h2⟩, h3⟩ := pairUp_spec G e0s e1s ps h
  refine ⟨h1, ?_, h3⟩
  have hl := h2.length_eq
  have hl0 : ps.length = e0s.length := by rw [← h1, List.length_map]
  rw [List.length_append, List.length_map, hl0, F.len] at hl
  have : rest = [] := List.eq_nil_of_length_eq_zero (by omega)
  subst this
  simpa using h2.symm

theorem Facts.pairUp_some {G : Net} {u0 v0 : Nat} {e0s e1s : List Edge} {A B : Nat}
    (F : Facts G u0 v0 e0s e1s A B) : ∃ ps, pairUp G e0s e1s = some ps :=
  pairUp_succeeds G e0s e1s (fun _ he => F.otop_e0 he) F.cnt

/-! ### the entries a swap adds -/

/-- default-free access to the attributes of an existing edge -/
def attrD (G : Net) (e : Edge) : Attr := (attrOf G e.1 e.2).getD ⟨"", 0⟩

theorem attrD_eq {G : Net} {e : Edge} {a : Attr} (h : attrOf G e.1 e.2 = some a) : attrD G e = a := by
  simp [attrD, h]

/-- proposal edges (oriented, focal vertex first) with attributes `α`, `β` for the two sides -/
def rawE (u0 v0 : Nat) (α β : Edge × Edge → Attr) (ps : List (Edge × Edge)) : List (Edge × Attr) :=
  ps.flatMap fun p => [((u0, p.2.2), α p), ((v0, p.1.2), β p)]

/-- the new entries of the edge table -/
def newE (u0 v0 : Nat) (α β : Edge × Edge → Attr) (ps : List (Edge × Edge)) : List (Edge × Attr) :=
  ps.flatMap fun p => [(normE (u0, p.2.2), α p), (normE (v0, p.1.2), β p)]

theorem rawE_map (u0 v0 : Nat) (α β : Edge × Edge → Attr) (ps : List (Edge × Edge)) :
    (rawE u0 v0 α β ps).map (fun p => (normE p.1, p.2)) = newE u0 v0 α β ps := by
  unfold rawE newE
  induction ps with
  | nil => rfl
  | cons p r ih => simp only [List.flatMap_cons, List.map_append, ih]; rfl

theorem flatMap_pair_perm {α β : Type} (f g : α → β) (l : List α) :
    (l.flatMap fun x => [f x, g x]).Perm (l.map f ++ l.map g) := by
  induction l with
  | nil => simp
  | cons x r ih =>
    simp only [List.flatMap_cons, List.map_cons, List.cons_append, List.nil_append]
    refine List.Perm.cons _ ?_
    exact (List.Perm.cons _ ih).trans List.perm_middle.symm

theorem newE_perm (u0 v0 : Nat) (α β : Edge × Edge → Attr) (ps : List (Edge × Edge)) :
    (newE u0 v0 α β ps).Perm
      (ps.map (fun p => (normE (u0, p.2.2), α p)) ++ ps.map (fun p => (normE (v0, p.1.2), β p))) :=
  flatMap_pair_perm _ _ ps

theorem mem_newE {u0 v0 : Nat} {α β : Edge × Edge → Attr} {ps : List (Edge × Edge)} {x : Edge × Attr} :
    x ∈ newE u0 v0 α β ps ↔ ∃ p ∈ ps, x = (normE (u0, p.2.2), α p) ∨ x = (normE (v0, p.1.2), β p) := by
  unfold newE
  simp only [List.mem_flatMap, List.mem_cons, List.not_mem_nil, or_false]

theorem proposals_eq {G : Net} {u0 v0 : Nat} {ps : List (Edge × Edge)}
    (h : ∀ p ∈ ps, (∃ a, attrOf G p.1.1 p.1.2 = some a) ∧ ∃ a, attrOf G p.2.1 p.2.2 = some a) :
    proposals G u0 v0 ps =
      (rawE u0 v0 (fun p => attrD G p.1) (fun p => attrD G p.2) ps).map fun p => (p.1, some p.2) := by
  unfold proposals rawE
  induction ps with
  | nil => rfl
  | cons p r ih =>
    obtain ⟨⟨a, ha⟩, ⟨b, hb⟩⟩ := h p List.mem_cons_self
    simp only [List.flatMap_cons, List.map_append, ih (fun q hq => h q (List.mem_cons_of_mem _ hq))]
    simp [ha, hb, attrD]

theorem proposalsFixed_eq {G : Net} {u0 v0 : Nat} {ps : List (Edge × Edge)}
    (h : ∀ p ∈ ps, (∃ a, attrOf G p.1.1 p.1.2 = some a) ∧ ∃ a, attrOf G p.2.1 p.2.2 = some a) :
    proposalsFixed G u0 v0 ps =
      (rawE u0 v0 (fun p => attrD G p.2) (fun p => attrD G p.1) ps).map fun p => (p.1, some p.2) := by
  unfold proposalsFixed rawE
  induction ps with
  | nil => rfl
  | cons p r ih =>
    obtain ⟨⟨a, ha⟩, ⟨b, hb⟩⟩ := h p List.mem_cons_self
    simp only [List.flatMap_cons, List.map_append, ih (fun q hq => h q (List.mem_cons_of_mem _ hq))]
    simp [ha, hb, attrD]

/-! ### removed keys and new keys -/

theorem normE_inj_of_fst {u : Nat} {x y : Edge} (h1 : x.1 = u) (h2 : y.1 = u) (h : normE x = normE y) :
    x = y := by
  obtain ⟨a, b⟩ := x
  obtain ⟨c, d⟩ := y
  simp only at h1 h2
  subst h1 h2
  rw [normE_inj_left h]

section step
variable {G : Net} {u0 v0 : Nat} {e0s e1s : List Edge} {A B : Nat} {ps : List (Edge × Edge)}

theorem Facts.removed_nodup (F : Facts G u0 v0 e0s e1s A B) : ((e0s ++ e1s).map normE).Nodup := by
  rw [List.map_append, List.nodup_append]
  refine ⟨?_, ?_, ?_⟩
  · exact List.Nodup.map_on (fun x hx y hy h => normE_inj_of_fst (F.e0 x hx).1 (F.e0 y hy).1 h) F.nd0
  · exact List.Nodup.map_on (fun x hx y hy h => normE_inj_of_fst (F.e1 x hx).1 (F.e1 y hy).1 h) F.nd1
  · intro a ha b hb hab
    obtain ⟨x, hx, rfl⟩ := List.mem_map.1 ha
    obtain ⟨y, hy, rfl⟩ := List.mem_map.1 hb
    have hx1 := (F.e0 x hx).1
    have hy1 := (F.e1 y hy).1
    obtain ⟨x1, x2⟩ := x
    obtain ⟨y1, y2⟩ := y
    simp only at hx1 hy1
    subst hx1 hy1
    rcases normE_eq_iff.1 hab with ⟨h, _⟩ | ⟨h, _⟩
    · exact F.u0_ne_v0 h
    · exact F.e1_ne_u0 hy h.symm

theorem Facts.attr_of_mem (F : Facts G u0 v0 e0s e1s A B) {e : Edge} (he : e ∈ e0s ++ e1s) :
    ∃ a, attrOf G e.1 e.2 = some a := by
  rcases List.mem_append.1 he with he | he
  · obtain ⟨_, a, ha, _⟩ := F.e0 e he; exact ⟨a, ha⟩
  · obtain ⟨_, a, ha, _⟩ := F.e1 e he; exact ⟨a, ha⟩

theorem Facts.removed_mem_keys (F : Facts G u0 v0 e0s e1s A B) {k : Edge} (hk : k ∈ (e0s ++ e1s).map normE) :
    k ∈ G.edges.map (·.1) := by
  obtain ⟨e, he, rfl⟩ := List.mem_map.1 hk
  obtain ⟨a, ha⟩ := F.attr_of_mem he
  exact key_mem_of_attrOf ha

variable (α β : Edge × Edge → Attr)

theorem Facts.newKeys_fresh (F : Facts G u0 v0 e0s e1s A B) (P : Pairing G e0s e1s ps)
    {x : Edge × Attr} (hx : x ∈ newE u0 v0 α β ps) : x.1 ∉ G.edges.map (·.1) := by
  obtain ⟨p, hp, rfl | rfl⟩ := mem_newE.1 hx
  · exact (F.free p.1 (P.mem_fst hp) p.2 (P.mem_snd hp) (P.top p hp)).1
  · exact (F.free p.1 (P.mem_fst hp) p.2 (P.mem_snd hp) (P.top p hp)).2

theorem Facts.newKeys_norm {x : Edge × Attr} (hx : x ∈ newE u0 v0 α β ps) : x.1 = normE x.1 := by
  obtain ⟨p, _, rfl | rfl⟩ := mem_newE.1 hx <;> exact (normE_normE _).symm

/-- no self-loop is created -/
theorem Facts.newKeys_noloop (F : Facts G u0 v0 e0s e1s A B) (P : Pairing G e0s e1s ps)
    {x : Edge × Attr} (hx : x ∈ newE u0 v0 α β ps) : x.1.1 ≠ x.1.2 := by
  obtain ⟨p, hp, rfl | rfl⟩ := mem_newE.1 hx
  · rw [Ne, normE_loop_iff]
    exact (F.e1_ne_u0 (P.mem_snd hp)).symm
  · rw [Ne, normE_loop_iff]
    exact (F.e0_ne_v0 (P.mem_fst hp)).symm

/-- no two proposals coincide -/
theorem Facts.newKeys_nodup (F : Facts G u0 v0 e0s e1s A B) (P : Pairing G e0s e1s ps) :
    ((newE u0 v0 α β ps).map (·.1)).Nodup := by
  rw [((newE_perm u0 v0 α β ps).map _).nodup_iff, List.map_append, List.map_map, List.map_map,
    List.nodup_append]
  have hnd0 : (ps.map Prod.fst).Nodup := by rw [P.fst]; exact F.nd0
  have hnd1 : (ps.map Prod.snd).Nodup := P.snd.nodup_iff.2 F.nd1
  have hps : ps.Nodup := List.Nodup.of_map _ hnd0
  refine ⟨?_, ?_, ?_⟩
  · refine List.Nodup.map_on ?_ hps
    intro p hp q hq h
    have h2 : p.2.2 = q.2.2 := normE_inj_left h
    have : p.2 = q.2 := Prod.ext (((F.e1 _ (P.mem_snd hp)).1).trans ((F.e1 _ (P.mem_snd hq)).1).symm) h2
    exact List.inj_on_of_nodup_map hnd1 hp hq this
  · refine List.Nodup.map_on ?_ hps
    intro p hp q hq h
    have h2 : p.1.2 = q.1.2 := normE_inj_left h
    have : p.1 = q.1 := Prod.ext (((F.e0 _ (P.mem_fst hp)).1).trans ((F.e0 _ (P.mem_fst hq)).1).symm) h2
    exact List.inj_on_of_nodup_map hnd0 hp hq this
  · intro a ha b hb hab
    obtain ⟨p, hp, rfl⟩ := List.mem_map.1 ha
    obtain ⟨q, hq, rfl⟩ := List.mem_map.1 hb
    rcases normE_eq_iff.1 hab with ⟨h, _⟩ | ⟨h, _⟩
    · exact F.u0_ne_v0 h
    · exact F.e0_ne_u0 (P.mem_fst hq) h.symm

/-- THE STEP, explicitly: the swap is applied without error and the new edge table is the old one without the
    two corners, followed by the proposal entries -/
theorem Facts.applyProps_eq (F : Facts G u0 v0 e0s e1s A B) (P : Pairing G e0s e1s ps) :
    applyProps G ((rawE u0 v0 α β ps).map fun p => (p.1, some p.2)) (e0s ++ e1s) =
      some { G with edges := G.edges.filter (fun p => p.1 ∉ (e0s ++ e1s).map normE) ++ newE u0 v0 α β ps } := by
  unfold applyProps
  have hnd : (G.edges.map (·.1) ++ (rawE u0 v0 α β ps).map (fun p => normE p.1)).Nodup := by
    have h1 : (rawE u0 v0 α β ps).map (fun p => normE p.1) = (newE u0 v0 α β ps).map (·.1) := by
      rw [← rawE_map, List.map_map]; rfl
    rw [h1, List.nodup_append]
    refine ⟨F.wf.1, F.newKeys_nodup α β P, ?_⟩
    intro a ha b hb hab
    obtain ⟨x, hx, rfl⟩ := List.mem_map.1 hb
    exact F.newKeys_fresh α β P hx (hab ▸ ha)
  rw [foldl_addStep_some _ _ hnd, rawE_map]
  simp only [removeAll_eq_filter, List.filter_append]
  congr 3
  rw [List.filter_eq_self]
  intro x hx
  simp only [decide_eq_true_eq]
  intro hmem
  exact F.newKeys_fresh α β P hx (F.removed_mem_keys hmem)

end step

/-! ### the graph after a step -/

/-- the edge table after a step with proposal attributes `α`, `β` -/
def afterEdges (G : Net) (u0 v0 : Nat) (e0s e1s : List Edge) (α β : Edge × Edge → Attr)
    (ps : List (Edge × Edge)) : List (Edge × Attr) :=
  G.edges.filter (fun p => p.1 ∉ (e0s ++ e1s).map normE) ++ newE u0 v0 α β ps

/-- degree of `v` in topology `t` in an edge table -/
def degL (L : List (Edge × Attr)) (v : Nat) (t : String) : Nat :=
  (L.filter fun p => (p.1.1 = v ∨ p.1.2 = v) ∧ p.2.top = t).length

theorem topDegree_eq_degL (G : Net) (v : Nat) (t : String) : topDegree G v t = degL G.edges v t := rfl

theorem degL_append (L₁ L₂ : List (Edge × Attr)) (v : Nat) (t : String) :
    degL (L₁ ++ L₂) v t = degL L₁ v t + degL L₂ v t := by
  simp [degL, List.filter_append]

theorem degL_cons (x : Edge × Attr) (L : List (Edge × Attr)) (v : Nat) (t : String) :
    degL (x :: L) v t = degL [x] v t + degL L v t := degL_append [x] L v t

theorem degL_perm {L₁ L₂ : List (Edge × Attr)} (h : L₁.Perm L₂) (v : Nat) (t : String) :
    degL L₁ v t = degL L₂ v t := (h.filter _).length_eq

theorem filter_length_split {α : Type} (p q : α → Bool) (L : List α) :
    (L.filter p).length = ((L.filter q).filter p).length + ((L.filter fun x => !q x).filter p).length := by
  induction L with
  | nil => rfl
  | cons x r ih =>
    cases hq : q x <;> cases hp : p x <;> simp [hq, hp, ih] <;> omega

theorem degL_split (q : Edge × Attr → Bool) (L : List (Edge × Attr)) (v : Nat) (t : String) :
    degL L v t = degL (L.filter q) v t + degL (L.filter fun x => !q x) v t :=
  filter_length_split _ q L

theorem degL_pairs {ι : Type} (f1 f2 g1 g2 : ι → Edge × Attr) (v : Nat) (t : String) (l : List ι)
    (h : ∀ p ∈ l, degL [f1 p, f2 p] v t = degL [g1 p, g2 p] v t) :
    degL (l.map f1) v t + degL (l.map f2) v t = degL (l.map g1) v t + degL (l.map g2) v t := by
  induction l with
  | nil => rfl
  | cons x r ih =>
    have h1 := h x List.mem_cons_self
    have h2 := ih (fun p hp => h p (List.mem_cons_of_mem _ hp))
    simp only [List.map_cons]
    rw [degL_cons (f1 x), degL_cons (f2 x), degL_cons (g1 x), degL_cons (g2 x)]
    rw [degL_cons (f1 x) [f2 x], degL_cons (g1 x) [g2 x]] at h1
    omega

section after
variable {G : Net} {u0 v0 : Nat} {e0s e1s : List Edge} {A B : Nat} {ps : List (Edge × Edge)}

/-- the removed part of the table is, up to order, the two corners with their attributes -/
theorem Facts.removed_perm (F : Facts G u0 v0 e0s e1s A B) :
    (G.edges.filter fun p => p.1 ∈ (e0s ++ e1s).map normE).Perm
      ((e0s ++ e1s).map fun e => (normE e, attrD G e)) := by
  have hndG : G.edges.Nodup := List.Nodup.of_map _ F.wf.1
  rw [List.perm_ext_iff_of_nodup (hndG.filter _)]
  · intro x
    simp only [List.mem_filter, decide_eq_true_eq, List.mem_map]
    constructor
    · rintro ⟨hx, e, he, hk⟩
      refine ⟨e, he, ?_⟩
      obtain ⟨k, a⟩ := x
      simp only at hk
      subst hk
      have : attrOf G e.1 e.2 = some a := attrOf_of_mem F.wf hx
      rw [attrD_eq this]
    · rintro ⟨e, he, rfl⟩
      obtain ⟨a, ha⟩ := F.attr_of_mem he
      rw [attrD_eq ha]
      exact ⟨mem_of_attrOf ha, e, he, rfl⟩
  · apply List.Nodup.of_map (·.1)
    rw [List.map_map]
    exact F.removed_nodup

variable (α β : Edge × Edge → Attr)

theorem Facts.wf_after (F : Facts G u0 v0 e0s e1s A B) (P : Pairing G e0s e1s ps) :
    WF { G with edges := afterEdges G u0 v0 e0s e1s α β ps } := by
  unfold afterEdges
  refine ⟨?_, ?_, ?_⟩
  · simp only [List.map_append]
    rw [List.nodup_append]
    refine ⟨(F.wf.1.sublist ((List.filter_sublist).map _)), F.newKeys_nodup α β P, ?_⟩
    intro a ha b hb hab
    obtain ⟨x, hx, rfl⟩ := List.mem_map.1 hb
    obtain ⟨y, hy, rfl⟩ := List.mem_map.1 ha
    exact F.newKeys_fresh α β P hx (hab ▸ List.mem_map_of_mem (List.mem_filter.1 hy).1)
  · intro p hp
    rcases List.mem_append.1 hp with hp | hp
    · exact F.wf.2.1 p (List.mem_filter.1 hp).1
    · exact Facts.newKeys_norm α β hp
  · intro p hp
    rcases List.mem_append.1 hp with hp | hp
    · exact F.wf.2.2 p (List.mem_filter.1 hp).1
    · exact F.newKeys_noloop α β P hp

theorem length_newE (u0 v0 : Nat) (ps : List (Edge × Edge)) : (newE u0 v0 α β ps).length = 2 * ps.length := by
  rw [(newE_perm u0 v0 α β ps).length_eq]
  simp; omega

theorem Facts.length_after (F : Facts G u0 v0 e0s e1s A B) (P : Pairing G e0s e1s ps) :
    (afterEdges G u0 v0 e0s e1s α β ps).length = G.edges.length := by
  unfold afterEdges
  have h1 := filter_length_split (fun _ => true) (fun p : Edge × Attr => decide (p.1 ∈ (e0s ++ e1s).map normE)) G.edges
  simp only [List.filter_true] at h1
  have h2 := F.removed_perm.length_eq
  simp only [List.length_map, List.length_append] at h2
  rw [List.length_append, length_newE, h1, h2, ← P.length0, ← P.length1]
  have : (fun p : Edge × Attr => decide (p.1 ∉ (e0s ++ e1s).map normE)) =
      fun p => !decide (p.1 ∈ (e0s ++ e1s).map normE) := by
    funext p; simp
  rw [this]
  omega

theorem degL_single_normE (a b : Nat) (x : Attr) (v : Nat) (t : String) :
    degL [(normE (a, b), x)] v t = if (a = v ∨ b = v) ∧ x.top = t then 1 else 0 := by
  simp only [degL, List.filter_cons, touch_normE]
  split <;> simp_all

/-- every vertex keeps its number of edges of every topology -/
theorem Facts.degL_after (F : Facts G u0 v0 e0s e1s A B) (P : Pairing G e0s e1s ps)
    (hα : ∀ p ∈ ps, (α p).top = (attrD G p.1).top) (hβ : ∀ p ∈ ps, (β p).top = (attrD G p.1).top)
    (v : Nat) (t : String) :
    degL (afterEdges G u0 v0 e0s e1s α β ps) v t = degL G.edges v t := by
  unfold afterEdges
  have h1 := degL_split (fun p : Edge × Attr => decide (p.1 ∈ (e0s ++ e1s).map normE)) G.edges v t
  have hfun : (fun p : Edge × Attr => decide (p.1 ∉ (e0s ++ e1s).map normE)) =
      fun p => !decide (p.1 ∈ (e0s ++ e1s).map normE) := by
    funext p; simp
  have h4 : degL ((e0s ++ e1s).map fun e => (normE e, attrD G e)) v t =
      degL (e0s.map fun e => (normE e, attrD G e)) v t + degL (e1s.map fun e => (normE e, attrD G e)) v t := by
    rw [List.map_append, degL_append]
  rw [degL_append, hfun, h1, degL_perm F.removed_perm, degL_perm (newE_perm u0 v0 α β ps), degL_append, h4]
  have h2 : degL (e0s.map fun e => (normE e, attrD G e)) v t =
      degL (ps.map fun p => (normE p.1, attrD G p.1)) v t := by
    rw [← P.fst, List.map_map]; rfl
  have h3 : degL (e1s.map fun e => (normE e, attrD G e)) v t =
      degL (ps.map fun p => (normE p.2, attrD G p.2)) v t := by
    rw [← degL_perm (P.snd.map _), List.map_map]; rfl
  rw [h2, h3]
  have := degL_pairs (fun p => (normE (u0, p.2.2), α p)) (fun p => (normE (v0, p.1.2), β p))
    (fun p => (normE p.1, attrD G p.1)) (fun p => (normE p.2, attrD G p.2)) v t ps (by
      intro p hp
      obtain ⟨hu, a0, ha0, _⟩ := F.e0 p.1 (P.mem_fst hp)
      obtain ⟨hv, a1, ha1, _⟩ := F.e1 p.2 (P.mem_snd hp)
      have htop : (attrD G p.2).top = (attrD G p.1).top := by
        have := P.top p hp
        simp only [otop, ha0, ha1, Option.map_some, Option.some.injEq] at this
        rw [attrD_eq ha0, attrD_eq ha1, this]
      have n1 := F.e0_ne_u0 (P.mem_fst hp)
      have n2 := F.e0_ne_v0 (P.mem_fst hp)
      have n3 := F.e1_ne_u0 (P.mem_snd hp)
      have n4 := F.e1_ne_v0 (P.mem_snd hp)
      have n5 := F.u0_ne_v0
      obtain ⟨⟨p11, u1⟩, ⟨p21, v1⟩⟩ := p
      simp only at hu hv n1 n2 n3 n4 htop
      subst hu hv
      rw [degL_cons, degL_cons (normE (p11, u1), _)]
      simp only [degL_single_normE, hα _ hp, hβ _ hp, htop]
      by_cases ht : (attrD G (p11, u1)).top = t
      · simp only [ht, and_true]
        by_cases c1 : p11 = v <;> by_cases c2 : p21 = v <;> by_cases c3 : u1 = v <;> by_cases c4 : v1 = v <;>
          simp_all
      · simp [ht])
  omega

end after

/-! ### `applySwap` / `applySwapFixed`, explicitly -/

section explicit
variable {G : Net} {u0 v0 : Nat} {e0s e1s : List Edge} {A B : Nat} {ps : List (Edge × Edge)}

theorem Facts.attrs_of_pairing (F : Facts G u0 v0 e0s e1s A B) (P : Pairing G e0s e1s ps) :
    ∀ p ∈ ps, (∃ a, attrOf G p.1.1 p.1.2 = some a) ∧ ∃ a, attrOf G p.2.1 p.2.2 = some a := by
  intro p hp
  obtain ⟨_, a0, ha0, _⟩ := F.e0 p.1 (P.mem_fst hp)
  obtain ⟨_, a1, ha1, _⟩ := F.e1 p.2 (P.mem_snd hp)
  exact ⟨⟨a0, ha0⟩, ⟨a1, ha1⟩⟩

theorem Facts.applySwap_eq (F : Facts G u0 v0 e0s e1s A B) (hp : pairUp G e0s e1s = some ps) :
    applySwap G u0 v0 e0s e1s =
      some { G with edges := afterEdges G u0 v0 e0s e1s (fun p => attrD G p.1) (fun p => attrD G p.2) ps } := by
  have P := F.pairing hp
  rw [applySwap_eq_applyProps, hp]
  simp only
  rw [proposals_eq (F.attrs_of_pairing P), F.applyProps_eq _ _ P]
  rfl

theorem Facts.applySwapFixed_eq (F : Facts G u0 v0 e0s e1s A B) (hp : pairUp G e0s e1s = some ps) :
    applySwapFixed G u0 v0 e0s e1s =
      some { G with edges := afterEdges G u0 v0 e0s e1s (fun p => attrD G p.2) (fun p => attrD G p.1) ps } := by
  have P := F.pairing hp
  rw [applySwapFixed_eq_applyProps, hp]
  simp only
  rw [proposalsFixed_eq (F.attrs_of_pairing P), F.applyProps_eq _ _ P]
  rfl

theorem Facts.top_snd (F : Facts G u0 v0 e0s e1s A B) (P : Pairing G e0s e1s ps) :
    ∀ p ∈ ps, (attrD G p.2).top = (attrD G p.1).top := by
  intro p hp
  obtain ⟨_, a0, ha0, _⟩ := F.e0 p.1 (P.mem_fst hp)
  obtain ⟨_, a1, ha1, _⟩ := F.e1 p.2 (P.mem_snd hp)
  have := P.top p hp
  simp only [otop, ha0, ha1, Option.map_some, Option.some.injEq] at this
  rw [attrD_eq ha0, attrD_eq ha1, this]

end explicit

/-! ### the Metropolis ratio (C12) -/

section metropolis

/-- the two target entries looked up for the edges `(u0, v1)` and `(v0, u1)` created from the pair `p = (e0, e1)` -/
def createdWeights (G : Net) (names : List String) (target : Target) (u0 v0 : Nat) (p : Edge × Edge) :
    Option (Rat × Rat) :=
  match attrOf G p.1.1 p.1.2 with
  | none => none
  | some a0 =>
    match topIndex names a0.top, Dict.get target a0.top with
    | some i, some ejk =>
      match Dict.get ejk (excessOf G u0 i ++ excessOf G p.2.2 i), Dict.get ejk (excessOf G v0 i ++ excessOf G p.1.2 i) with
      | some a, some b => some (a, b)
      | _, _ => none
    | _, _ => none

/-- product of the two created-edge weights of a pair (`0` if a lookup fails) -/
def createdW (G : Net) (names : List String) (target : Target) (u0 v0 : Nat) (p : Edge × Edge) : Rat :=
  match createdWeights G names target u0 v0 p with
  | some (a, b) => a * b
  | none => 0

variable {G : Net} {names : List String} {target : Target} {u0 v0 : Nat}

theorem numerator_spec : ∀ (ps : List (Edge × Edge)) (acc top : Rat),
    numerator G names target u0 v0 ps acc = some top →
    (∀ p ∈ ps, ∃ a b, createdWeights G names target u0 v0 p = some (a, b) ∧ a ≠ 0 ∧ b ≠ 0) ∧
    top = acc * (ps.map (createdW G names target u0 v0)).prod
  | [], acc, top, h => by
    simp only [numerator, Option.some.injEq] at h
    simp [h]
  | (e0, e1) :: rest, acc, top, h => by
    rw [numerator] at h
    split at h
    · exact absurd h (by simp)
    · rename_i a0 h1
      split at h
      · rename_i i ejk h2 h3
        simp only at h
        split at h
        · exact absurd h (by simp)
        · split at h
          · rename_i a b h4 h5
            split at h
            · exact absurd h (by simp)
            · rename_i hne
              obtain ⟨ih1, ih2⟩ := numerator_spec rest _ top h
              have hcw : createdWeights G names target u0 v0 (e0, e1) = some (a, b) := by
                simp only [createdWeights, h1, h2, h3, h4, h5]
              have hab : a * b ≠ 0 := fun h0 => hne (by rw [h0, mul_zero])
              refine ⟨?_, ?_⟩
              · intro p hp
                rcases List.mem_cons.1 hp with rfl | hp
                · exact ⟨a, b, hcw, left_ne_zero_of_mul hab, right_ne_zero_of_mul hab⟩
                · exact ih1 p hp
              · rw [ih2, List.map_cons, List.prod_cons, createdW, hcw]
                simp only
                rw [mul_assoc]
          · exact absurd h (by simp)
      · exact absurd h (by simp)

/-- the target entry looked up for an existing (oriented) edge -/
def edgeWeight (G : Net) (names : List String) (target : Target) (e : Edge) : Option Rat :=
  match attrOf G e.1 e.2 with
  | none => none
  | some a =>
    match topIndex names a.top, Dict.get target a.top with
    | some i, some ejk => Dict.get ejk (excessOf G e.1 i ++ excessOf G e.2 i)
    | _, _ => none

/-- product of the two removed-edge weights of a pair (`0` if a lookup fails) -/
def removedW (G : Net) (names : List String) (target : Target) (p : Edge × Edge) : Rat :=
  (edgeWeight G names target p.1).getD 0 * (edgeWeight G names target p.2).getD 0

theorem denominator_spec : ∀ (l : List (Edge × Edge)) (acc bottom : Rat),
    denominator G names target l acc = some bottom →
    (∀ p ∈ l, ∃ a b, edgeWeight G names target p.1 = some a ∧ edgeWeight G names target p.2 = some b) ∧
    bottom = acc * (l.map (removedW G names target)).prod
  | [], acc, bottom, h => by
    simp only [denominator, Option.some.injEq] at h
    simp [h]
  | (e0, e1) :: rest, acc, bottom, h => by
    rw [denominator] at h
    split at h
    · rename_i a0 a1 h1 h2
      split at h
      · rename_i i0 i1 ejk0 ejk1 h3 h4 h5 h6
        split at h
        · rename_i a b h7 h8
          obtain ⟨ih1, ih2⟩ := denominator_spec rest _ bottom h
          have hw0 : edgeWeight G names target e0 = some a := by
            simp only [edgeWeight, h1, h3, h5, h7]
          have hw1 : edgeWeight G names target e1 = some b := by
            simp only [edgeWeight, h2, h4, h6, h8]
          refine ⟨?_, ?_⟩
          · intro p hp
            rcases List.mem_cons.1 hp with rfl | hp
            · exact ⟨a, b, hw0, hw1⟩
            · exact ih1 p hp
          · rw [ih2, List.map_cons, List.prod_cons, removedW, hw0, hw1]
            simp only [Option.getD_some]
            rw [mul_assoc]
        · exact absurd h (by simp)
      · exact absurd h (by simp)
    · exact absurd h (by simp)

theorem prod_ne_zero_of_forall (l : List Rat) (h : ∀ x ∈ l, x ≠ 0) : l.prod ≠ 0 := by
  induction l with
  | nil => simp
  | cons x r ih =>
    rw [List.prod_cons]
    exact mul_ne_zero (h x List.mem_cons_self) (ih fun y hy => h y (List.mem_cons_of_mem _ hy))

theorem swapCondition_accept {e0s e1s : List Edge} {r : Rat}
    (h : swapCondition G names target u0 v0 e0s e1s r = .accept) :
    ∃ ps top bottom, pairUp G e0s e1s = some ps ∧ numerator G names target u0 v0 ps 1 = some top ∧
      denominator G names target (e0s.zip e1s) 1 = some bottom ∧ bottom ≠ 0 ∧ top / bottom > r := by
  unfold swapCondition at h
  split at h
  · exact absurd h (by simp)
  · rename_i ps hps
    split at h
    · exact absurd h (by simp)
    · rename_i top htop
      split at h
      · exact absurd h (by simp)
      · rename_i bottom hbot
        split at h
        · exact absurd h (by simp)
        · rename_i hne
          split at h
          · rename_i hgt
            exact ⟨ps, top, bottom, hps, htop, hbot, hne, hgt⟩
          · exact absurd h (by simp)

end metropolis

/-! ### motif shape under the intended assignment (C11, 7b) -/

/-- the edge with key `k` carries motif id `m` -/
def carries (G : Net) (k : Edge) (m : Nat) : Prop := (Dict.get G.edges k).map (·.mid) = some m

/-- vertex substitution `u ↦ w`, identity elsewhere -/
def subst1 (u w : Nat) (x : Nat) : Nat := if x = u then w else x

theorem subst1_injOn (u w : Nat) {x y : Nat} (hx : x ≠ w) (hy : y ≠ w) (h : subst1 u w x = subst1 u w y) :
    x = y := by
  unfold subst1 at h
  split at h <;> split at h <;> simp_all

theorem carries_iff {G : Net} (hWF : WF G) {k : Edge} {m : Nat} :
    carries G k m ↔ ∃ x, (k, x) ∈ G.edges ∧ x.mid = m := by
  unfold carries
  rw [Option.map_eq_some_iff]
  constructor
  · rintro ⟨x, hx, hm⟩
    exact ⟨x, Dict_mem_of_get _ _ _ hx, hm⟩
  · rintro ⟨x, hx, hm⟩
    exact ⟨x, Dict.get_of_mem G.edges hWF.1 _ hx, hm⟩

theorem omid_iff_carries (G : Net) (a b m : Nat) : omid G (a, b) = some m ↔ carries G (normE (a, b)) m := Iff.rfl

theorem carries_unique {G : Net} {k : Edge} {m m' : Nat} (h : carries G k m) (h' : carries G k m') : m = m' := by
  unfold carries at h h'
  rw [h] at h'
  exact Option.some.inj h'

theorem key_of_carries {G : Net} (hWF : WF G) {k : Edge} {m : Nat} (h : carries G k m) : k = normE k := by
  obtain ⟨x, hx, _⟩ := (carries_iff hWF).1 h
  exact hWF.2.1 _ hx

theorem mem_corner_of_attr {G : Net} {u b : Nat} {x : Attr} {m : Nat} (h : attrOf G u b = some x)
    (hm : x.mid = m) : (u, b) ∈ corner G u m := by
  unfold corner
  rw [List.mem_filterMap]
  refine ⟨(normE (u, b), x), mem_of_attrOf h, ?_⟩
  by_cases hub : u ≤ b
  · have : normE (u, b) = (u, b) := by simp only [normE, Prod.mk.injEq]; omega
    simp [this, hm]
  · have : normE (u, b) = (b, u) := by simp only [normE, Prod.mk.injEq]; omega
    have hne : b ≠ u := by omega
    simp [this, hm, hne]

/-- one side of the shape statement: the keys carrying `m` after the swap are the images of the keys that
    carried `m` before, under the substitution `u ↦ w` of the focal vertex -/
theorem shape_side {G : Net} (hWF : WF G) {u w m : Nat} {es other : List Edge} {R : List Edge}
    (hE : ∀ e ∈ es, e.1 = u ∧ ∃ a, attrOf G e.1 e.2 = some a ∧ a.mid = m)
    (hfull : ∀ e, e ∈ corner G u m → e ∈ es)
    (hR : ∀ k, k ∈ R ↔ (∃ e ∈ es, k = normE e) ∨ (∃ e ∈ other, k = normE e))
    (hother : ∀ e ∈ other, ¬ carries G (normE e) m) (k : Edge) :
    ((carries G k m ∧ k ∉ R) ∨ ∃ e ∈ es, k = normE (w, e.2)) ↔
      ∃ a b, omid G (a, b) = some m ∧ k = normE (subst1 u w a, subst1 u w b) := by
  have hin : ∀ b x, attrOf G u b = some x → x.mid = m → (u, b) ∈ es :=
    fun b x h hm => hfull _ (mem_corner_of_attr h hm)
  constructor
  · rintro (⟨hc, hk⟩ | ⟨e, he, rfl⟩)
    · have hkn := key_of_carries hWF hc
      obtain ⟨a, b⟩ := k
      have hc' : omid G (a, b) = some m := by rw [omid_iff_carries, ← hkn]; exact hc
      obtain ⟨x, hx, hxm⟩ := Option.map_eq_some_iff.1 hc'
      have ha : a ≠ u := by
        rintro rfl
        apply hk
        rw [hR]
        exact Or.inl ⟨(a, b), hin b x hx hxm, hkn⟩
      have hb : b ≠ u := by
        rintro rfl
        apply hk
        rw [hR]
        refine Or.inl ⟨(b, a), hin a x (by rw [attrOf_comm]; exact hx) hxm, ?_⟩
        rw [hkn, normE_comm]
      refine ⟨a, b, hc', ?_⟩
      simp only [subst1, if_neg ha, if_neg hb]
      exact hkn
    · obtain ⟨h1, x, hx, hxm⟩ := hE e he
      have hne : e.2 ≠ u := by
        have := ne_of_attrOf hWF hx
        rw [h1] at this
        exact this.symm
      refine ⟨u, e.2, ?_, ?_⟩
      · show (attrOf G u e.2).map (·.mid) = some m
        rw [← h1, hx, Option.map_some, hxm]
      · simp only [subst1, if_true, if_neg hne]
  · rintro ⟨a, b, hc, rfl⟩
    obtain ⟨x, hx, hxm⟩ := Option.map_eq_some_iff.1 hc
    have hab : a ≠ b := ne_of_attrOf hWF hx
    by_cases ha : a = u
    · subst ha
      have hb : b ≠ a := Ne.symm hab
      right
      refine ⟨(a, b), hin b x hx hxm, ?_⟩
      simp only [subst1, if_true, if_neg hb]
    · by_cases hb : b = u
      · subst hb
        right
        refine ⟨(b, a), hin a x (by rw [attrOf_comm]; exact hx) hxm, ?_⟩
        simp only [subst1, if_true, if_neg ha]
        exact normE_comm _ _
      · left
        simp only [subst1, if_neg ha, if_neg hb]
        refine ⟨hc, ?_⟩
        rw [hR]
        rintro (⟨e, he, hk⟩ | ⟨e, he, hk⟩)
        · obtain ⟨e1, e2⟩ := e
          have h1 := (hE _ he).1
          simp only at h1
          subst h1
          rcases normE_eq_iff.1 hk with ⟨h, _⟩ | ⟨_, h⟩
          · exact ha h
          · exact hb h
        · apply hother e he
          rw [← hk]
          exact hc

section shape
variable {G : Net} {u0 v0 : Nat} {e0s e1s : List Edge} {A B : Nat} {ps : List (Edge × Edge)}

/-- which keys carry which id after a step with the intended assignment -/
theorem Facts.carries_afterFixed (F : Facts G u0 v0 e0s e1s A B) (P : Pairing G e0s e1s ps) (k : Edge) (m : Nat) :
    carries { G with edges := afterEdges G u0 v0 e0s e1s (fun p => attrD G p.2) (fun p => attrD G p.1) ps } k m ↔
      (carries G k m ∧ k ∉ (e0s ++ e1s).map normE) ∨ (m = B ∧ ∃ e ∈ e1s, k = normE (u0, e.2)) ∨
        (m = A ∧ ∃ e ∈ e0s, k = normE (v0, e.2)) := by
  rw [carries_iff (F.wf_after _ _ P), carries_iff F.wf]
  simp only [afterEdges, List.mem_append, List.mem_filter, decide_eq_true_eq, mem_newE]
  constructor
  · rintro ⟨x, (⟨hx, hk⟩ | ⟨p, hp, h | h⟩), hm⟩
    · exact Or.inl ⟨⟨x, hx, hm⟩, hk⟩
    · obtain ⟨_, a1, ha1, hm1⟩ := F.e1 p.2 (P.mem_snd hp)
      simp only [Prod.mk.injEq] at h
      obtain ⟨rfl, rfl⟩ := h
      rw [attrD_eq ha1, hm1] at hm
      exact Or.inr (Or.inl ⟨hm.symm, p.2, P.mem_snd hp, rfl⟩)
    · obtain ⟨_, a0, ha0, hm0⟩ := F.e0 p.1 (P.mem_fst hp)
      simp only [Prod.mk.injEq] at h
      obtain ⟨rfl, rfl⟩ := h
      rw [attrD_eq ha0, hm0] at hm
      exact Or.inr (Or.inr ⟨hm.symm, p.1, P.mem_fst hp, rfl⟩)
  · rintro (⟨⟨x, hx, hm⟩, hk⟩ | ⟨rfl, e, he, rfl⟩ | ⟨rfl, e, he, rfl⟩)
    · exact ⟨x, Or.inl ⟨hx, hk⟩, hm⟩
    · have : e ∈ ps.map Prod.snd := P.snd.symm.subset he
      obtain ⟨p, hp, rfl⟩ := List.mem_map.1 this
      obtain ⟨_, a1, ha1, hm1⟩ := F.e1 p.2 he
      exact ⟨attrD G p.2, Or.inr ⟨p, hp, Or.inl rfl⟩, by rw [attrD_eq ha1, hm1]⟩
    · have : e ∈ ps.map Prod.fst := by rw [P.fst]; exact he
      obtain ⟨p, hp, rfl⟩ := List.mem_map.1 this
      obtain ⟨_, a0, ha0, hm0⟩ := F.e0 p.1 he
      exact ⟨attrD G p.1, Or.inr ⟨p, hp, Or.inr rfl⟩, by rw [attrD_eq ha0, hm0]⟩

theorem Facts.carries_e0 (F : Facts G u0 v0 e0s e1s A B) {e : Edge} (he : e ∈ e0s) : carries G (normE e) A := by
  obtain ⟨_, a, ha, hm⟩ := F.e0 e he
  show (attrOf G e.1 e.2).map (·.mid) = some A
  rw [ha, Option.map_some, hm]

theorem Facts.carries_e1 (F : Facts G u0 v0 e0s e1s A B) {e : Edge} (he : e ∈ e1s) : carries G (normE e) B := by
  obtain ⟨_, a, ha, hm⟩ := F.e1 e he
  show (attrOf G e.1 e.2).map (·.mid) = some B
  rw [ha, Option.map_some, hm]

end shape

/-! ### interface lemmas for the property files -/

section interface
variable {G G' : Net} {u0 v0 : Nat} {e0s e1s : List Edge}

/-- the shape of the result: old table minus the two corners, plus one entry per proposal -/
theorem applySwap_shape (h : Ok G u0 v0 e0s e1s) (ha : applySwap G u0 v0 e0s e1s = some G') :
    ∃ A B ps, Facts G u0 v0 e0s e1s A B ∧ Pairing G e0s e1s ps ∧ pairUp G e0s e1s = some ps ∧
      G' = { G with edges := afterEdges G u0 v0 e0s e1s (fun p => attrD G p.1) (fun p => attrD G p.2) ps } := by
  obtain ⟨A, B, F⟩ := h.facts
  obtain ⟨ps, hps⟩ := F.pairUp_some
  rw [F.applySwap_eq hps, Option.some.injEq] at ha
  exact ⟨A, B, ps, F, F.pairing hps, hps, ha.symm⟩

theorem applySwapFixed_shape (h : Ok G u0 v0 e0s e1s) (ha : applySwapFixed G u0 v0 e0s e1s = some G') :
    ∃ A B ps, Facts G u0 v0 e0s e1s A B ∧ Pairing G e0s e1s ps ∧ pairUp G e0s e1s = some ps ∧
      G' = { G with edges := afterEdges G u0 v0 e0s e1s (fun p => attrD G p.2) (fun p => attrD G p.1) ps } := by
  obtain ⟨A, B, F⟩ := h.facts
  obtain ⟨ps, hps⟩ := F.pairUp_some
  rw [F.applySwapFixed_eq hps, Option.some.injEq] at ha
  exact ⟨A, B, ps, F, F.pairing hps, hps, ha.symm⟩

theorem mem_removed_iff {k : Edge} :
    k ∈ (e0s ++ e1s).map normE ↔ (∃ e ∈ e0s, k = normE e) ∨ (∃ e ∈ e1s, k = normE e) := by
  simp only [List.mem_map, List.mem_append, or_and_right, exists_or, eq_comm]

theorem stepNet_cases {names : List String} {target : Target} {r : Rat} {G'' : Net}
    (h : (stepNet G names target u0 v0 e0s e1s r).2 = some G'') :
    G'' = G ∨ applySwap G u0 v0 e0s e1s = some G'' := by
  unfold stepNet at h
  split at h
  · exact Or.inr h
  · simp only [Option.some.injEq] at h
    exact Or.inl h.symm

end interface

/-! ### vocabulary of the (unproved) convergence statement `approaches_target_full` -/

/-- the network as the mixing-matrix extractor sees it -/
def toANet (G : Net) : Mixing.ANet := { jd := G.jd, edges := G.edges.map fun p => (p.1.1, p.1.2, p.2.top) }

/-- L1 distance between two tables (over the union of their keys) -/
def tableL1 (a b : Table) : Rat :=
  (((a.map (·.1)) ++ (b.map (·.1))).eraseDups.map fun k => |(Dict.get a k).getD 0 - (Dict.get b k).getD 0|).sum

/-- L1 distance between the empirical joint-excess matrices of `G` and the target, summed over the topologies -/
def distToTarget (G : Net) (names : List String) (target : Target) : Rat :=
  ((Mixing.getEjks (toANet G) names ⟨[]⟩).2.map fun (name, emp) =>
    tableL1 emp ((Dict.get target name).getD [])).sum

/-- probability (over the uniform draw) that the proposal is accepted -/
def acceptProb (G : Net) (names : List String) (target : Target) (u0 v0 : Nat) (e0s e1s : List Edge) : Rat :=
  match pairUp G e0s e1s with
  | none => 0
  | some ps =>
    match numerator G names target u0 v0 ps 1, denominator G names target (e0s.zip e1s) 1 with
    | some top, some bottom => if bottom = 0 then 0 else min 1 (max 0 (top / bottom))
    | _, _ => 0


end Gcmpy.MCMC
