import Mathlib.Data.Nat.Choose.Sum
import Mathlib.Algebra.BigOperators.Group.Finset.Powerset
import Mathlib.Tactic.Linarith
import Mathlib.Tactic.Ring
import GcmpyModel.Lemmas.HararyPalmer
/-
Cayley's formula for the project's counter of connected graphs: `ccN n (n-1) = n^(n-2)`.

Route: rooted forests, counted by edge sets.  For `R ⊆ S`, `fc S R` is the number of edge sets `A ⊆ pairs S` with
`|S| - |R|` edges in which every vertex of `S` reaches some vertex of `R` (such an `A` is a spanning forest whose
components contain exactly one vertex of `R` each — but acyclicity is never needed explicitly: all that is used is the
lower bound `|S| ≤ |A| + |R|`, `card_ge_of_rconn`).

* `fc_rec`     deleting a root `r ∈ R` and classifying by the set `J` of its neighbours:
               `fc S R = ∑ J ⊆ S \ R, fc (S \ {r}) (R \ {r} ∪ J)`;
* `fc_formula` `fc S R * |S| = |R| * |S|^(|S| - |R|)`, by induction on `|S|` with the binomial theorem;
* `ccN_cayley` `ccN n (n-1) = n^(n-2)` (`R = {r}`: every vertex reaches `r` iff the graph is connected).
-/

open Finset BigOperators

namespace Gcmpy.Cayley
open Gcmpy.Perc Gcmpy.HP

section defs
variable {V : Type} [LinearOrder V]

/-- the edge `{a, b}` in the encoding of `pairs` (smaller endpoint first) -/
def mkE (a b : V) : V × V := if a < b then (a, b) else (b, a)

theorem mkE_cases (a b : V) : (mkE a b = (a, b) ∧ a < b) ∨ (mkE a b = (b, a) ∧ ¬ a < b) := by
  unfold mkE
  by_cases h : a < b
  · left; simp [h]
  · right; simp [h]

theorem mkE_inj (r : V) : Function.Injective (mkE r) := by
  intro a b h
  rcases mkE_cases r a with ⟨h1, h1'⟩ | ⟨h1, h1'⟩ <;> rcases mkE_cases r b with ⟨h2, h2'⟩ | ⟨h2, h2'⟩
  · rw [h1, h2] at h; exact (Prod.mk.inj h).2
  · rw [h1, h2] at h
    obtain ⟨e1, e2⟩ := Prod.mk.inj h
    rw [e2] at h1'; exact absurd h1' (lt_irrefl _)
  · rw [h1, h2] at h
    obtain ⟨e1, e2⟩ := Prod.mk.inj h
    rw [← e2] at h2'; exact absurd h2' (lt_irrefl _)
  · rw [h1, h2] at h; exact (Prod.mk.inj h).1

/-- every vertex of `S` reaches some vertex of `R` -/
def RConn (S R : Finset V) (A : Finset (V × V)) : Prop := ∀ v ∈ S, ∃ r ∈ R, Reach A v r

open Classical in
/-- number of edge sets on `S` with `|S| - |R|` edges in which every vertex reaches `R`
(= spanning forests rooted at `R`) -/
noncomputable def fc (S R : Finset V) : ℕ :=
  (((pairs S).powersetCard (S.card - R.card)).filter (RConn S R)).card

/-- the edges not incident to `r` -/
def del (A : Finset (V × V)) (r : V) : Finset (V × V) := A.filter (fun e => ¬ (e.1 = r ∨ e.2 = r))
/-- the edges incident to `r` -/
def star (A : Finset (V × V)) (r : V) : Finset (V × V) := A.filter (fun e => e.1 = r ∨ e.2 = r)
/-- the neighbours of `r` -/
def nbrs (A : Finset (V × V)) (r : V) : Finset V := (star A r).image (fun e => if e.1 = r then e.2 else e.1)
/-- the edges from `r` to the vertices of `J` -/
def starOf (r : V) (J : Finset V) : Finset (V × V) := J.image (mkE r)

theorem mem_nbrs {A : Finset (V × V)} {r v : V} : v ∈ nbrs A r ↔ Adj A r v := by
  unfold nbrs star Adj
  simp only [mem_image, mem_filter, Prod.exists]
  constructor
  · rintro ⟨a, b, ⟨hab, h⟩, rfl⟩
    by_cases ha : a = r
    · subst ha; simp only [if_true]; exact Or.inl hab
    · rcases h with h | h
      · exact absurd h ha
      · subst h; simp only [ha, if_false]; exact Or.inr hab
  · rintro (h | h)
    · exact ⟨r, v, ⟨h, Or.inl rfl⟩, by simp⟩
    · by_cases hv : v = r
      · subst hv; exact ⟨v, v, ⟨h, Or.inl rfl⟩, by simp⟩
      · exact ⟨v, r, ⟨h, Or.inr rfl⟩, by simp [hv]⟩

omit [LinearOrder V] in
theorem adj_symm {A : Finset (V × V)} {a b : V} (h : Adj A a b) : Adj A b a := Or.symm h

theorem nbrs_subset {S : Finset V} {A : Finset (V × V)} (hA : A ⊆ pairs S) (r : V) : nbrs A r ⊆ S := by
  intro v hv
  rcases mem_nbrs.1 hv with h | h
  · exact (mem_pairs.1 (hA h)).2.1
  · exact (mem_pairs.1 (hA h)).1

theorem self_notMem_nbrs {S : Finset V} {A : Finset (V × V)} (hA : A ⊆ pairs S) (r : V) : r ∉ nbrs A r := by
  intro hv
  rcases mem_nbrs.1 hv with h | h <;> exact lt_irrefl _ (mem_pairs.1 (hA h)).2.2

theorem card_starOf (r : V) (J : Finset V) : (starOf r J).card = J.card :=
  card_image_of_injective _ (mkE_inj r)

theorem star_eq_starOf {S : Finset V} {A : Finset (V × V)} (hA : A ⊆ pairs S) (r : V) :
    star A r = starOf r (nbrs A r) := by
  ext ⟨a, b⟩
  simp only [star, starOf, mem_filter, mem_image]
  constructor
  · rintro ⟨hab, h⟩
    have hlt : a < b := (mem_pairs.1 (hA hab)).2.2
    rcases h with h | h
    · subst h
      refine ⟨b, mem_nbrs.2 (Or.inl hab), ?_⟩
      rcases mkE_cases a b with ⟨h1, _⟩ | ⟨_, h1⟩
      · exact h1
      · exact absurd hlt h1
    · subst h
      refine ⟨a, mem_nbrs.2 (Or.inr hab), ?_⟩
      rcases mkE_cases b a with ⟨_, h1⟩ | ⟨h1, _⟩
      · exact absurd h1 (lt_asymm hlt)
      · exact h1
  · rintro ⟨v, hv, he⟩
    rcases mem_nbrs.1 hv with h | h
    · have hlt : r < v := (mem_pairs.1 (hA h)).2.2
      rcases mkE_cases r v with ⟨h1, _⟩ | ⟨_, h1⟩
      · rw [h1] at he; obtain ⟨rfl, rfl⟩ := Prod.mk.inj he; exact ⟨h, Or.inl rfl⟩
      · exact absurd hlt h1
    · have hlt : v < r := (mem_pairs.1 (hA h)).2.2
      rcases mkE_cases r v with ⟨_, h1⟩ | ⟨h1, _⟩
      · exact absurd h1 (lt_asymm hlt)
      · rw [h1] at he; obtain ⟨rfl, rfl⟩ := Prod.mk.inj he; exact ⟨h, Or.inr rfl⟩

theorem card_star {S : Finset V} {A : Finset (V × V)} (hA : A ⊆ pairs S) (r : V) :
    (star A r).card = (nbrs A r).card := by
  rw [star_eq_starOf hA, card_starOf]

theorem del_union_star (A : Finset (V × V)) (r : V) : del A r ∪ star A r = A := by
  unfold del star
  rw [union_comm]; exact filter_union_filter_not_eq _ A

theorem disjoint_del_star (A : Finset (V × V)) (r : V) : Disjoint (del A r) (star A r) := by
  unfold del star
  exact (disjoint_filter_filter_not A A _).symm

theorem card_del_add (A : Finset (V × V)) (r : V) : (del A r).card + (star A r).card = A.card := by
  rw [← card_union_of_disjoint (disjoint_del_star A r), del_union_star]

theorem del_subset_pairs {S : Finset V} {A : Finset (V × V)} (hA : A ⊆ pairs S) (r : V) :
    del A r ⊆ pairs (S.erase r) := by
  intro e he
  simp only [del, mem_filter, not_or] at he
  have := mem_pairs.1 (hA he.1)
  exact mem_pairs.2 ⟨mem_erase.2 ⟨he.2.1, this.1⟩, mem_erase.2 ⟨he.2.2, this.2.1⟩, this.2.2⟩

omit [LinearOrder V] in
/-- a walk from outside `P` to `P` has a first edge entering `P`; before it only edges outside `P` are used -/
theorem first_hit {A B : Finset (V × V)} (P : V → Prop)
    (hB : ∀ e ∈ A, ¬ P e.1 → ¬ P e.2 → e ∈ B) {v x : V} (h : Reach A v x) (hv : ¬ P v) (hx : P x) :
    ∃ y z, Reach B v y ∧ ¬ P y ∧ Adj A y z ∧ P z := by
  have key : ∀ x, Reach A v x → (Reach B v x ∧ ¬ P x) ∨ ∃ y z, Reach B v y ∧ ¬ P y ∧ Adj A y z ∧ P z := by
    intro x h
    induction h with
    | refl => exact Or.inl ⟨Relation.ReflTransGen.refl, hv⟩
    | @tail b c _ hbc ih =>
      rcases ih with ⟨h1, h2⟩ | h
      · by_cases hc : P c
        · exact Or.inr ⟨b, c, h1, h2, hbc, hc⟩
        · left
          refine ⟨h1.tail ?_, hc⟩
          rcases hbc with h' | h'
          · exact Or.inl (hB _ h' h2 hc)
          · exact Or.inr (hB _ h' hc h2)
      · exact Or.inr h
  rcases key x h with ⟨_, h2⟩ | h
  · exact absurd hx h2
  · exact h

/-- deleting a root `r`: the remaining vertices reach the other roots or the neighbours of `r` -/
theorem rconn_del {S R : Finset V} {A : Finset (V × V)} {r : V} (hr : r ∈ R) (h : RConn S R A) :
    RConn (S.erase r) (R.erase r ∪ (nbrs A r \ R)) (del A r) := by
  intro v hv
  obtain ⟨hvr, hvS⟩ := mem_erase.1 hv
  by_cases hvR : v ∈ R
  · exact ⟨v, mem_union_left _ (mem_erase.2 ⟨hvr, hvR⟩), Relation.ReflTransGen.refl⟩
  obtain ⟨x, hxR, hvx⟩ := h v hvS
  obtain ⟨y, z, hvy, hyR, hyz, hzR⟩ := first_hit (B := del A r) (fun w => w ∈ R)
    (by
      intro e he h1 h2
      simp only [del, mem_filter, not_or]
      exact ⟨he, fun h' => h1 (h' ▸ hr), fun h' => h2 (h' ▸ hr)⟩) hvx hvR hxR
  by_cases hz : z = r
  · subst hz
    exact ⟨y, mem_union_right _ (mem_sdiff.2 ⟨mem_nbrs.2 (adj_symm hyz), hyR⟩), hvy⟩
  · refine ⟨z, mem_union_left _ (mem_erase.2 ⟨hz, hzR⟩), hvy.tail ?_⟩
    have hy : y ≠ r := fun h' => hyR (h' ▸ hr)
    rcases hyz with h' | h'
    · exact Or.inl (by simp only [del, mem_filter, not_or]; exact ⟨h', hy, hz⟩)
    · exact Or.inr (by simp only [del, mem_filter, not_or]; exact ⟨h', hz, hy⟩)

/-- **lower bound**: if every vertex of `S` reaches `R` then there are at least `|S| - |R|` edges -/
theorem card_ge_of_rconn : ∀ (n : ℕ) (S R : Finset V) (A : Finset (V × V)), S.card = n → R ⊆ S → A ⊆ pairs S →
    RConn S R A → S.card ≤ A.card + R.card := by
  intro n
  induction n with
  | zero => intro S R A hS _ _ _; omega
  | succ n ih =>
    intro S R A hS hRS hA h
    rcases R.eq_empty_or_nonempty with hR | ⟨r, hr⟩
    · subst hR
      obtain ⟨v, hv⟩ : S.Nonempty := card_pos.1 (by omega)
      obtain ⟨r, hr, _⟩ := h v hv
      exact absurd hr (notMem_empty _)
    have hrS := hRS hr
    have h1 := ih (S.erase r) (R.erase r ∪ (nbrs A r \ R)) (del A r) (by rw [card_erase_of_mem hrS]; omega)
      (by
        intro x hx
        rcases mem_union.1 hx with hx | hx
        · exact mem_erase.2 ⟨(mem_erase.1 hx).1, hRS (mem_erase.1 hx).2⟩
        · obtain ⟨hx1, hx2⟩ := mem_sdiff.1 hx
          exact mem_erase.2 ⟨fun h' => hx2 (h' ▸ hr), nbrs_subset hA r hx1⟩)
      (del_subset_pairs hA r) (rconn_del hr h)
    have h2 : (R.erase r ∪ (nbrs A r \ R)).card ≤ (R.card - 1) + (nbrs A r \ R).card := by
      rw [← card_erase_of_mem hr]; exact card_union_le _ _
    have h3 : (nbrs A r \ R).card ≤ (nbrs A r).card := card_le_card sdiff_subset
    have h4 := card_del_add A r
    rw [card_star hA] at h4
    rw [card_erase_of_mem hrS] at h1
    have : 0 < R.card := card_pos.2 ⟨r, hr⟩
    omega

/-- in the extremal case no root is adjacent to another root -/
theorem nbrs_disjoint_of_card {S R : Finset V} {A : Finset (V × V)} {r : V} (hr : r ∈ R) (hRS : R ⊆ S)
    (hA : A ⊆ pairs S) (h : RConn S R A) (hc : A.card = S.card - R.card) : nbrs A r ⊆ S \ R := by
  have hrS := hRS hr
  have h1 := card_ge_of_rconn _ (S.erase r) (R.erase r ∪ (nbrs A r \ R)) (del A r) rfl
      (by
        intro x hx
        rcases mem_union.1 hx with hx | hx
        · exact mem_erase.2 ⟨(mem_erase.1 hx).1, hRS (mem_erase.1 hx).2⟩
        · obtain ⟨hx1, hx2⟩ := mem_sdiff.1 hx
          exact mem_erase.2 ⟨fun h' => hx2 (h' ▸ hr), nbrs_subset hA r hx1⟩)
      (del_subset_pairs hA r) (rconn_del hr h)
  have h2 : (R.erase r ∪ (nbrs A r \ R)).card ≤ (R.card - 1) + (nbrs A r \ R).card := by
    rw [← card_erase_of_mem hr]; exact card_union_le _ _
  have h4 := card_del_add A r
  rw [card_star hA] at h4
  rw [card_erase_of_mem hrS] at h1
  have hpos : 0 < R.card := card_pos.2 ⟨r, hr⟩
  have hle : R.card ≤ S.card := card_le_card hRS
  have h5 : (nbrs A r).card ≤ (nbrs A r \ R).card := by omega
  have h6 : nbrs A r \ R = nbrs A r := eq_of_subset_of_card_le sdiff_subset h5
  intro v hv
  rw [← h6] at hv
  exact mem_sdiff.2 ⟨nbrs_subset hA r (mem_sdiff.1 hv).1, (mem_sdiff.1 hv).2⟩

end defs

section recursion
variable {V : Type} [LinearOrder V]

theorem starOf_subset_pairs {S : Finset V} {r : V} (hr : r ∈ S) {J : Finset V} (hJ : J ⊆ S) (hrJ : r ∉ J) :
    starOf r J ⊆ pairs S := by
  intro e he
  obtain ⟨j, hj, rfl⟩ := mem_image.1 he
  have hne : r ≠ j := fun h => hrJ (h ▸ hj)
  rcases mkE_cases r j with ⟨h1, h2⟩ | ⟨h1, h2⟩
  · rw [h1]; exact mem_pairs.2 ⟨hr, hJ hj, h2⟩
  · rw [h1]; exact mem_pairs.2 ⟨hJ hj, hr, lt_of_le_of_ne (not_lt.1 h2) (Ne.symm hne)⟩

theorem avoids_of_subset {S : Finset V} {A' : Finset (V × V)} {r : V} (hA' : A' ⊆ pairs (S.erase r)) :
    ∀ e ∈ A', e.1 ≠ r ∧ e.2 ≠ r := by
  intro e he
  have := mem_pairs.1 (hA' he)
  exact ⟨(mem_erase.1 this.1).1, (mem_erase.1 this.2.1).1⟩

theorem starOf_touch {r : V} {J : Finset V} {e : V × V} (he : e ∈ starOf r J) : e.1 = r ∨ e.2 = r := by
  obtain ⟨j, _, rfl⟩ := mem_image.1 he
  rcases mkE_cases r j with ⟨h1, _⟩ | ⟨h1, _⟩
  · rw [h1]; exact Or.inl rfl
  · rw [h1]; exact Or.inr rfl

theorem del_union_starOf {A' : Finset (V × V)} {r : V} {J : Finset V} (hav : ∀ e ∈ A', e.1 ≠ r ∧ e.2 ≠ r) :
    del (A' ∪ starOf r J) r = A' := by
  ext e
  simp only [del, mem_filter, mem_union, not_or]
  constructor
  · rintro ⟨h | h, h1, h2⟩
    · exact h
    · rcases starOf_touch h with h' | h'
      · exact absurd h' h1
      · exact absurd h' h2
  · intro h; exact ⟨Or.inl h, hav e h⟩

theorem disjoint_starOf {A' : Finset (V × V)} {r : V} {J : Finset V} (hav : ∀ e ∈ A', e.1 ≠ r ∧ e.2 ≠ r) :
    Disjoint A' (starOf r J) := by
  rw [Finset.disjoint_left]
  intro e h1 h2
  rcases starOf_touch h2 with h' | h'
  · exact (hav e h1).1 h'
  · exact (hav e h1).2 h'

theorem adj_starOf {r v : V} {J : Finset V} (hv : v ∈ J) (A' : Finset (V × V)) : Adj (A' ∪ starOf r J) r v := by
  have hm : mkE r v ∈ starOf r J := mem_image_of_mem _ hv
  rcases mkE_cases r v with ⟨h1, _⟩ | ⟨h1, _⟩
  · rw [h1] at hm; exact Or.inl (mem_union_right _ hm)
  · rw [h1] at hm; exact Or.inr (mem_union_right _ hm)

theorem nbrs_union_starOf {A' : Finset (V × V)} {r : V} {J : Finset V} (hav : ∀ e ∈ A', e.1 ≠ r ∧ e.2 ≠ r)
    (hrJ : r ∉ J) : nbrs (A' ∪ starOf r J) r = J := by
  ext v
  rw [mem_nbrs]
  constructor
  · rintro (h | h)
    · rcases mem_union.1 h with h | h
      · exact absurd rfl (hav _ h).1
      · obtain ⟨j, hj, he⟩ := mem_image.1 h
        rcases mkE_cases r j with ⟨h1, _⟩ | ⟨h1, _⟩
        · rw [h1] at he; rw [← (Prod.mk.inj he).2]; exact hj
        · rw [h1] at he; exact absurd ((Prod.mk.inj he).1 ▸ hj) hrJ
    · rcases mem_union.1 h with h | h
      · exact absurd rfl (hav _ h).2
      · obtain ⟨j, hj, he⟩ := mem_image.1 h
        rcases mkE_cases r j with ⟨h1, _⟩ | ⟨h1, _⟩
        · rw [h1] at he; exact absurd ((Prod.mk.inj he).2 ▸ hj) hrJ
        · rw [h1] at he; rw [← (Prod.mk.inj he).1]; exact hj
  · intro hv; exact adj_starOf hv A'

/-- adding a root `r` joined to the roots in `J` -/
theorem rconn_add {S R J : Finset V} {A' : Finset (V × V)} {r : V} (hr : r ∈ R)
    (h : RConn (S.erase r) (R.erase r ∪ J) A') : RConn S R (A' ∪ starOf r J) := by
  intro v hv
  by_cases hvr : v = r
  · subst hvr; exact ⟨v, hr, Relation.ReflTransGen.refl⟩
  obtain ⟨x, hx, hvx⟩ := h v (mem_erase.2 ⟨hvr, hv⟩)
  have hvx' : Reach (A' ∪ starOf r J) v x := hvx.mono subset_union_left
  rcases mem_union.1 hx with hx | hx
  · exact ⟨x, (mem_erase.1 hx).2, hvx'⟩
  · exact ⟨r, hr, hvx'.tail (adj_symm (adj_starOf hx A'))⟩

theorem card_roots {S R J : Finset V} {r : V} (hr : r ∈ R) (hJ : J ⊆ S \ R) :
    (R.erase r ∪ J).card = R.card - 1 + J.card := by
  rw [card_union_of_disjoint, card_erase_of_mem hr]
  rw [Finset.disjoint_left]
  intro x hx hxJ
  exact (mem_sdiff.1 (hJ hxJ)).2 (mem_erase.1 hx).2

theorem roots_subset {S R J : Finset V} {r : V} (hr : r ∈ R) (hRS : R ⊆ S) (hJ : J ⊆ S \ R) :
    R.erase r ∪ J ⊆ S.erase r := by
  intro x hx
  rcases mem_union.1 hx with hx | hx
  · exact mem_erase.2 ⟨(mem_erase.1 hx).1, hRS (mem_erase.1 hx).2⟩
  · obtain ⟨hx1, hx2⟩ := mem_sdiff.1 (hJ hx)
    exact mem_erase.2 ⟨fun h' => hx2 (h' ▸ hr), hx1⟩

/-- **the recursion**: delete the root `r`, classify by the set `J` of its neighbours -/
theorem fc_rec {S R : Finset V} {r : V} (hr : r ∈ R) (hRS : R ⊆ S) :
    fc S R = ∑ J ∈ (S \ R).powerset, fc (S.erase r) (R.erase r ∪ J) := by
  classical
  have hrS := hRS hr
  have hpos : 0 < R.card := card_pos.2 ⟨r, hr⟩
  have hle : R.card ≤ S.card := card_le_card hRS
  unfold fc
  rw [card_eq_sum_card_fiberwise (f := fun A => nbrs A r) (t := (S \ R).powerset) (by
    intro A hA
    simp only [mem_coe, mem_filter, mem_powersetCard] at hA
    simp only [mem_coe, mem_powerset]
    exact nbrs_disjoint_of_card hr hRS hA.1.1 hA.2 hA.1.2)]
  apply sum_congr rfl
  intro J hJ
  rw [mem_powerset] at hJ
  have hrJ : r ∉ J := fun h => (mem_sdiff.1 (hJ h)).2 hr
  have hJS : J ⊆ S := fun x hx => (mem_sdiff.1 (hJ hx)).1
  have hcr := card_roots hr hJ
  have hrs : (R.erase r ∪ J).card ≤ (S.erase r).card := card_le_card (roots_subset hr hRS hJ)
  rw [card_erase_of_mem hrS] at hrs
  refine card_nbij' (fun A => del A r) (fun A' => A' ∪ starOf r J) ?_ ?_ ?_ ?_
  · intro A hA
    simp only [mem_coe, mem_filter, mem_powersetCard] at hA ⊢
    obtain ⟨⟨⟨hA1, hA2⟩, hA3⟩, hA4⟩ := hA
    have h4 := card_del_add A r
    rw [card_star hA1, hA4] at h4
    refine ⟨⟨del_subset_pairs hA1 r, ?_⟩, ?_⟩
    · rw [card_erase_of_mem hrS]; omega
    · have := rconn_del hr hA3
      rw [hA4, sdiff_eq_self_of_disjoint] at this
      · exact this
      · rw [Finset.disjoint_left]; intro x hx; exact (mem_sdiff.1 (hJ hx)).2
  · intro A' hA'
    simp only [mem_coe, mem_filter, mem_powersetCard] at hA' ⊢
    obtain ⟨⟨hA1, hA2⟩, hA3⟩ := hA'
    have hav := avoids_of_subset hA1
    rw [card_erase_of_mem hrS] at hA2
    refine ⟨⟨⟨union_subset (hA1.trans (pairs_mono (erase_subset _ _))) (starOf_subset_pairs hrS hJS hrJ), ?_⟩,
      rconn_add hr hA3⟩, nbrs_union_starOf hav hrJ⟩
    rw [card_union_of_disjoint (disjoint_starOf hav), card_starOf]; omega
  · intro A hA
    simp only [mem_coe, mem_filter, mem_powersetCard] at hA
    obtain ⟨⟨⟨hA1, hA2⟩, hA3⟩, hA4⟩ := hA
    show del A r ∪ starOf r J = A
    rw [← hA4, ← star_eq_starOf hA1, del_union_star]
  · intro A' hA'
    simp only [mem_coe, mem_filter, mem_powersetCard] at hA'
    exact del_union_starOf (avoids_of_subset hA'.1.1)

theorem fc_empty : fc (∅ : Finset V) ∅ = 1 := by
  classical
  unfold fc
  have : pairs (∅ : Finset V) = ∅ := by
    apply Finset.eq_empty_of_forall_notMem; intro e he; exact absurd (mem_pairs.1 he).1 (notMem_empty _)
  rw [this]
  simp only [card_empty, Nat.sub_self, powersetCard_zero]
  rw [filter_true_of_mem, card_singleton]
  intro A _ v hv
  exact absurd hv (notMem_empty _)

theorem fc_no_roots {S : Finset V} (hS : S.Nonempty) : fc S ∅ = 0 := by
  classical
  unfold fc
  rw [card_eq_zero, filter_eq_empty_iff]
  intro A _ h
  obtain ⟨v, hv⟩ := hS
  obtain ⟨r, hr, _⟩ := h v hv
  exact absurd hr (notMem_empty _)

end recursion

/-! ## the arithmetic -/

theorem sum_choose_pow (m x : ℕ) : ∑ j ∈ range (m + 1), m.choose j * x ^ (m - j) = (x + 1) ^ m := by
  rw [add_comm x 1, add_pow]
  apply sum_congr rfl
  intro j _
  rw [one_pow, one_mul, Nat.cast_id, mul_comm]

theorem sum_choose_mul_pow (m x : ℕ) :
    ∑ j ∈ range (m + 1), m.choose j * (j * x ^ (m - j)) = m * (x + 1) ^ (m - 1) := by
  cases m with
  | zero => simp
  | succ m =>
    rw [sum_range_succ', Nat.add_sub_cancel, ← sum_choose_pow, mul_sum]
    simp only [zero_mul, mul_zero, add_zero]
    apply sum_congr rfl
    intro j _
    rw [Nat.add_sub_add_right, ← mul_assoc, ← mul_assoc, Nat.add_one_mul_choose_eq]

theorem binom_shift (m c x : ℕ) :
    ∑ j ∈ range (m + 1), m.choose j * ((c + j) * x ^ (m - j)) = c * (x + 1) ^ m + m * (x + 1) ^ (m - 1) := by
  rw [← sum_choose_pow, ← sum_choose_mul_pow, mul_sum, ← sum_add_distrib]
  apply sum_congr rfl
  intro j _
  ring

section formula
variable {V : Type} [LinearOrder V]

/-- **number of forests rooted at `R`** : `fc S R = |R| * |S|^(|S| - |R| - 1)`, in division-free form -/
theorem fc_formula : ∀ (n : ℕ) (S R : Finset V), S.card = n → R ⊆ S →
    fc S R * n = R.card * n ^ (n - R.card) := by
  intro n
  induction n with
  | zero =>
    intro S R hS hRS
    have : R.card = 0 := Nat.le_zero.1 (hS ▸ card_le_card hRS)
    rw [this]; simp
  | succ n ih =>
    intro S R hS hRS
    rcases R.eq_empty_or_nonempty with hR | ⟨r, hr⟩
    · subst hR
      rw [fc_no_roots (card_pos.1 (by omega))]; simp
    have hrS := hRS hr
    have hpos : 0 < R.card := card_pos.2 ⟨r, hr⟩
    have hle : R.card ≤ S.card := card_le_card hRS
    have hS' : (S.erase r).card = n := by rw [card_erase_of_mem hrS]; omega
    rw [fc_rec hr hRS]
    rcases Nat.eq_zero_or_pos n with hn | hn
    · -- `S = {r}`
      subst hn
      have hRc : R.card = 1 := by omega
      have hSe : S.erase r = ∅ := card_eq_zero.1 hS'
      have hSR : S \ R = ∅ := by
        rw [← card_eq_zero, card_sdiff_of_subset hRS]; omega
      rw [hSR, powerset_empty, sum_singleton, hSe, union_empty]
      have hRe : R.erase r = ∅ := by
        rw [← card_eq_zero, card_erase_of_mem hr]; omega
      rw [hRe, fc_empty, hRc]; simp
    · -- `n ≥ 1`
      set k := R.card with hk
      set m := n + 1 - k with hm
      have hcard : (S \ R).card = m := by rw [card_sdiff_of_subset hRS, hS]
      have key : n * ∑ J ∈ (S \ R).powerset, fc (S.erase r) (R.erase r ∪ J)
          = (k - 1) * (n + 1) ^ m + m * (n + 1) ^ (m - 1) := by
        rw [← binom_shift, mul_sum, sum_powerset, hcard]
        apply sum_congr rfl
        intro j hj
        rw [mem_range] at hj
        have hch : m.choose j = (powersetCard j (S \ R)).card := by rw [card_powersetCard, hcard]
        rw [hch, ← smul_eq_mul, ← sum_const]
        apply sum_congr rfl
        intro J hJ
        rw [mem_powersetCard] at hJ
        have h1 := ih (S.erase r) (R.erase r ∪ J) hS' (roots_subset hr hRS hJ.1)
        rw [card_roots hr hJ.1, hJ.2] at h1
        rw [mul_comm, h1]
        congr 2
        omega
      obtain ⟨k', hk'⟩ : ∃ k', k = k' + 1 := ⟨k - 1, by omega⟩
      rcases Nat.eq_zero_or_pos m with hm0 | hm0
      · rw [hm0] at key ⊢
        have hkn : k' = n := by omega
        rw [hk', Nat.add_sub_cancel, hkn] at key
        simp only [pow_zero, mul_one, zero_mul, add_zero] at key
        have hF : ∑ J ∈ (S \ R).powerset, fc (S.erase r) (R.erase r ∪ J) = 1 :=
          Nat.eq_of_mul_eq_mul_left hn (by rw [key, mul_one])
        rw [hF, hk', hkn]; simp
      · obtain ⟨m', hm'⟩ : ∃ m', m = m' + 1 := ⟨m - 1, by omega⟩
        rw [hm', hk', Nat.add_sub_cancel, Nat.add_sub_cancel] at key
        rw [hm', hk']
        have hn' : n = m' + 1 + k' := by omega
        apply Nat.eq_of_mul_eq_mul_left hn
        rw [← mul_assoc, key, hn']
        ring

end formula

/-! ## Cayley's formula -/

section cayley
variable {V : Type} [LinearOrder V]

omit [LinearOrder V] in
theorem rconn_singleton {S : Finset V} {r : V} (hr : r ∈ S) (A : Finset (V × V)) : RConn S {r} A ↔ Conn S A := by
  rw [conn_iff_root hr]
  unfold RConn
  simp only [mem_singleton, exists_eq_left]
  exact ⟨fun h v hv => Gcmpy.HP.Reach.symm (h v hv), fun h v hv => Gcmpy.HP.Reach.symm (h v hv)⟩

theorem cc_eq_fc {S : Finset V} {r : V} (hr : r ∈ S) : cc S (S.card - 1) = fc S {r} := by
  classical
  unfold cc fc
  rw [card_singleton]
  congr 1
  apply filter_congr
  intro A _
  exact (rconn_singleton hr A).symm

/-- **Cayley's formula** on an arbitrary finite vertex set -/
theorem cc_cayley (S : Finset V) (hS : S.Nonempty) : cc S (S.card - 1) = S.card ^ (S.card - 2) := by
  obtain ⟨r, hr⟩ := hS
  have h := fc_formula S.card S {r} rfl (singleton_subset_iff.2 hr)
  rw [card_singleton, one_mul, ← cc_eq_fc hr] at h
  have hpos : 0 < S.card := card_pos.2 ⟨r, hr⟩
  rcases Nat.lt_or_ge S.card 2 with h2 | h2
  · have h1 : S.card = 1 := by omega
    rw [h1] at h ⊢; simpa using h
  · apply Nat.eq_of_mul_eq_mul_right hpos
    rw [h, ← pow_succ]
    congr 1; omega

end cayley

/-- **Cayley's formula**: the number of connected graphs on `n` labelled vertices with `n - 1` edges is `n^(n-2)` -/
theorem ccN_cayley (n : ℕ) (hn : 1 ≤ n) : ccN n (n - 1) = n ^ (n - 2) := by
  have : (univ : Finset (Fin n)).Nonempty := ⟨⟨0, by omega⟩, mem_univ _⟩
  have h := cc_cayley (univ : Finset (Fin n)) this
  simp only [card_univ, Fintype.card_fin] at h
  exact h

end Gcmpy.Cayley
