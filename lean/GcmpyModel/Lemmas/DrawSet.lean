import GcmpyModel.Model.DrawSet
/-! Invariant of the DrawSet and its refinement to a plain set (membership predicate). -/
namespace Gcmpy.DrawSet
set_option linter.unusedSectionVars false
variable {α : Type} [DecidableEq α]

/-- the index map and the member list describe each other -/
def Inv (s : St α) : Prop := ∀ x i, s.map x = some i ↔ s.edges[i]? = some x

theorem inv_empty : Inv (empty : St α) := by
  intro x i; simp [empty]

theorem Inv.mem_iff {s : St α} (h : Inv s) (x : α) : x ∈ s.edges ↔ contains s x = true := by
  unfold contains
  constructor
  · intro hx
    rcases List.getElem?_of_mem hx with ⟨i, hi⟩
    rw [(h x i).2 hi]; rfl
  · intro hx
    cases hm : s.map x with
    | none => simp [hm] at hx
    | some i => exact List.mem_of_getElem? ((h x i).1 hm)

theorem Inv.nodup {s : St α} (h : Inv s) : s.edges.Nodup := by
  rw [List.nodup_iff_pairwise_ne, List.pairwise_iff_getElem]
  intro i j hi hj hij heq
  have e1 : s.edges[i]? = some s.edges[i] := by simp [hi]
  have e2 : s.edges[j]? = some s.edges[i] := by simp [hj, heq]
  have m1 := (h _ _).2 e1
  have m2 := (h _ _).2 e2
  rw [m1] at m2
  cases m2; omega

theorem inv_add {s : St α} (h : Inv s) (x : α) : Inv (add s x) := by
  unfold add
  split
  · exact h
  · rename_i hc
    have hn : s.map x = none := by
      unfold contains at hc; cases hm : s.map x <;> simp_all
    intro y i
    simp only [assign, List.getElem?_append]
    have := h y i
    have hx := h x
    grind

theorem inv_remove {s s' : St α} (h : Inv s) (x : α) (hr : remove s x = some s') : Inv s' := by
  unfold remove at hr
  split at hr
  · cases hr
  · rename_i position hpos
    split at hr
    · cases hr
    · rename_i last hlast
      have hnd := h.nodup
      have hlen : s.edges ≠ [] := by intro h0; simp [h0] at hlast
      have hl : s.edges[s.edges.length - 1]? = some last := by
        rw [List.getLast?_eq_getElem?] at hlast; exact hlast
      have hp := (h x position).1 hpos
      have hplt : position < s.edges.length := by
        rcases List.getElem?_eq_some_iff.1 hp with ⟨hh, _⟩; exact hh
      simp only at hr
      split at hr
      · cases hr
        intro y i
        simp only [assign, erase, List.getElem?_set, List.length_dropLast, List.getElem?_dropLast]
        have hy := h y
        have hlast' := h last
        grind
      · cases hr
        intro y i
        simp only [erase, List.getElem?_dropLast]
        have hy := h y
        grind

theorem mem_add {s : St α} (h : Inv s) (x y : α) :
    y ∈ (add s x).edges ↔ y = x ∨ y ∈ s.edges := by
  unfold add
  split
  · rename_i hc
    have hx : x ∈ s.edges := (h.mem_iff x).2 hc
    constructor
    · exact Or.inr
    · rintro (rfl | h')
      · exact hx
      · exact h'
  · simp [or_comm]

theorem add_present_noop {s : St α} (h : Inv s) (x : α) (hx : x ∈ s.edges) : add s x = s := by
  unfold add; rw [if_pos ((h.mem_iff x).1 hx)]

theorem len_add_absent {s : St α} (h : Inv s) (x : α) (hx : x ∉ s.edges) :
    len (add s x) = len s + 1 := by
  unfold add len
  have : contains s x = false := by
    cases hc : contains s x
    · rfl
    · exact absurd ((h.mem_iff x).2 hc) hx
  simp [this]

theorem remove_absent {s : St α} (h : Inv s) (x : α) (hx : x ∉ s.edges) : remove s x = none := by
  unfold remove
  cases hm : s.map x with
  | none => rfl
  | some i => exact absurd (List.mem_of_getElem? ((h x i).1 hm)) hx

theorem remove_present {s : St α} (h : Inv s) (x : α) (hx : x ∈ s.edges) :
    ∃ s', remove s x = some s' := by
  unfold remove
  rcases List.getElem?_of_mem hx with ⟨i, hi⟩
  rw [(h x i).2 hi]
  cases hl : s.edges.getLast? with
  | none => simp [List.getLast?_eq_none_iff] at hl; simp [hl] at hx
  | some last => simp only; split <;> exact ⟨_, rfl⟩

theorem mem_remove {s s' : St α} (h : Inv s) (x : α) (hr : remove s x = some s') (y : α) :
    y ∈ s'.edges ↔ y ∈ s.edges ∧ y ≠ x := by
  have h' := inv_remove h x hr
  have hnd := h.nodup
  unfold remove at hr
  split at hr
  · cases hr
  · rename_i position hpos
    split at hr
    · cases hr
    · rename_i last hlast
      have hl : s.edges[s.edges.length - 1]? = some last := by
        rw [List.getLast?_eq_getElem?] at hlast; exact hlast
      have hp := (h x position).1 hpos
      have hplt : position < s.edges.length := by
        rcases List.getElem?_eq_some_iff.1 hp with ⟨hh, _⟩; exact hh
      simp only at hr
      simp only [List.mem_iff_getElem?]
      split at hr
      · cases hr
        simp only [List.getElem?_set, List.length_dropLast, List.getElem?_dropLast]
        have hy := h y
        have hx := h x
        have hlast' := h last
        constructor
        · rintro ⟨i, hi⟩
          grind
        · rintro ⟨⟨i, hi⟩, hne⟩
          by_cases hil : i = s.edges.length - 1
          · exact ⟨position, by grind⟩
          · exact ⟨i, by grind⟩
      · cases hr
        simp only [List.getElem?_dropLast]
        have hy := h y
        have hx := h x
        constructor
        · rintro ⟨i, hi⟩
          grind
        · rintro ⟨⟨i, hi⟩, hne⟩
          exact ⟨i, by grind⟩

theorem len_remove {s s' : St α} (x : α) (hr : remove s x = some s') : len s' + 1 = len s := by
  unfold remove at hr
  split at hr
  · cases hr
  · split at hr
    · cases hr
    · rename_i last hlast
      have hlen : s.edges ≠ [] := by intro h0; simp [h0] at hlast
      have : 0 < s.edges.length := List.length_pos_iff.2 hlen
      simp only at hr
      split at hr <;> cases hr <;> simp [len] <;> omega

theorem draw_mem (s : St α) (i : Nat) (x : α) (h : draw s i = some x) : x ∈ s.edges :=
  List.mem_of_getElem? h

theorem draw_lt (s : St α) (i : Nat) (hi : i < len s) : ∃ x, draw s i = some x :=
  ⟨s.edges[i]'hi, by unfold draw; exact List.getElem?_eq_getElem hi⟩

theorem draw_surj (s : St α) (x : α) (h : x ∈ s.edges) : ∃ i, i < len s ∧ draw s i = some x := by
  rcases List.getElem?_of_mem h with ⟨i, hi⟩
  exact ⟨i, (List.getElem?_eq_some_iff.1 hi).1, hi⟩

end Gcmpy.DrawSet
