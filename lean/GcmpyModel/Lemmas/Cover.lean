import GcmpyModel.Model.Cover
/-!
Helper lemmas for property C08 (`JointDegreeCover`): definitions used by the property statements,
facts about `eraseDups`, `insertSorted`, the counting loops, the column deletion and the column sums.
Core Lean only.
-/
namespace Gcmpy.Cover
open Gcmpy Gcmpy.Loaders

/-- vertex ids are exactly z, z+1, …, z+n-1 for z ∈ {0,1} (contiguous from 0 or 1) and every clique is
non-empty -/
def Contiguous (cover : List (List Nat)) (z n : Nat) : Prop :=
  (z = 0 ∨ z = 1) ∧ 0 < n ∧ (∀ c ∈ cover, c ≠ []) ∧ cover ≠ [] ∧
    ∀ v, (∃ c ∈ cover, v ∈ c) ↔ (z ≤ v ∧ v < z + n)

/-- number of cover cliques of size s containing v, counted with multiplicity of v inside a clique
(a proper clique lists a vertex once) -/
def cliqueCount (cover : List (List Nat)) (s v : Nat) : Nat :=
  ((cover.filter (fun c => c.length = s)).map (fun c => c.count v)).sum

/-- entry of a table of rows, with Python-free defaults -/
abbrev entry (jds : List (List Nat)) (r c : Nat) : Nat := (jds.getD r []).getD c 0

/-! ### `eraseDups`, vertex ids -/

theorem nodup_eraseDups (l : List Nat) : l.eraseDups.Nodup := by
  generalize hk : l.length = k
  induction k using Nat.strongRecOn generalizing l with
  | _ k ih =>
    cases l with
    | nil => simp
    | cons a as =>
      rw [List.eraseDups_cons, List.nodup_cons]
      refine ⟨?_, ?_⟩
      · simp [List.mem_eraseDups, List.mem_filter]
      · have : (as.filter fun b => !b == a).length < k := by
          have := List.length_filter_le (fun b => !b == a) as
          simp only [List.length_cons] at hk
          omega
        exact ih _ this _ rfl

theorem mem_vertexIds {cover : List (List Nat)} {v : Nat} :
    v ∈ vertexIds cover ↔ ∃ c ∈ cover, v ∈ c := by
  simp [vertexIds, List.mem_eraseDups, List.mem_flatten]

theorem vertexIds_perm {cover : List (List Nat)} {z n : Nat} (h : Contiguous cover z n) :
    (vertexIds cover).Perm (List.range' z n) := by
  refine (List.perm_ext_iff_of_nodup (nodup_eraseDups _) (List.nodup_range' 1)).2 ?_
  intro a
  show a ∈ vertexIds cover ↔ _
  rw [mem_vertexIds, h.2.2.2.2 a, List.mem_range'_1]

theorem vertexIds_length' {cover : List (List Nat)} {z n : Nat} (h : Contiguous cover z n) :
    (vertexIds cover).length = n := by
  rw [(vertexIds_perm h).length_eq, List.length_range']

theorem zeroIndex_eq' {cover : List (List Nat)} {z n : Nat} (h : Contiguous cover z n) :
    zeroIndex cover = some z := by
  have hmin : (vertexIds cover).min? = some z := by
    rw [List.min?_eq_some_iff]
    refine ⟨?_, ?_⟩
    · rw [mem_vertexIds, h.2.2.2.2 z]; have := h.2.1; omega
    · intro b hb
      rw [mem_vertexIds, h.2.2.2.2 b] at hb; exact hb.1
  unfold zeroIndex
  rw [hmin]
  rcases h.1 with h0 | h1
  · subst h0; simp
  · subst h1; simp

/-! ### `insertSorted`, `motifSizes`, `largest` -/

theorem mem_insertSorted {x y : Nat} {l : List Nat} : y ∈ insertSorted x l ↔ y = x ∨ y ∈ l := by
  induction l with
  | nil => simp [insertSorted]
  | cons a as ih =>
    unfold insertSorted
    split
    · simp
    · split
      · next h => subst h; simp
      · simp only [List.mem_cons, ih]; grind

theorem pairwise_insertSorted {x : Nat} {l : List Nat} (hl : l.Pairwise (· < ·)) :
    (insertSorted x l).Pairwise (· < ·) := by
  induction l with
  | nil => simp [insertSorted]
  | cons a as ih =>
    unfold insertSorted
    split
    · next h =>
      rw [List.pairwise_cons]
      refine ⟨?_, hl⟩
      intro b hb
      rw [List.pairwise_cons] at hl
      rcases List.mem_cons.1 hb with rfl | hb
      · exact h
      · exact Nat.lt_trans h (hl.1 b hb)
    · split
      · exact hl
      · next h1 h2 =>
        rw [List.pairwise_cons] at hl ⊢
        refine ⟨?_, ih hl.2⟩
        intro b hb
        rcases mem_insertSorted.1 hb with rfl | hb
        · omega
        · exact hl.1 b hb

theorem motifSizes_pairwise (cover : List (List Nat)) : (motifSizes cover).Pairwise (· < ·) := by
  unfold motifSizes
  induction cover with
  | nil => simp
  | cons c cs ih => simpa using pairwise_insertSorted ih

theorem mem_motifSizes {cover : List (List Nat)} {s : Nat} :
    s ∈ motifSizes cover ↔ ∃ c ∈ cover, c.length = s := by
  unfold motifSizes
  induction cover with
  | nil => simp
  | cons c cs ih =>
    simp only [List.map_cons, List.foldr_cons, mem_insertSorted, ih, List.mem_cons]
    grind

theorem foldl_max_ge (l : List Nat) (a : Nat) : a ≤ l.foldl max a ∧ ∀ x ∈ l, x ≤ l.foldl max a := by
  induction l generalizing a with
  | nil => simp
  | cons y ys ih =>
    simp only [List.foldl_cons, List.mem_cons]
    have := ih (max a y)
    refine ⟨by omega, ?_⟩
    intro x hx
    rcases hx with rfl | hx
    · omega
    · exact this.2 x hx

theorem length_le_largest {cover : List (List Nat)} {c : List Nat} (hc : c ∈ cover) :
    c.length ≤ largest cover :=
  (foldl_max_ge _ 0).2 _ (List.mem_map.2 ⟨c, hc, rfl⟩)

/-! ### the counting loops -/

/-- all rows present and of the same length -/
def Shape (jds : List (List Nat)) (n L : Nat) : Prop :=
  jds.length = n ∧ ∀ (i : Nat) (r : List Nat), jds[i]? = some r → r.length = L

theorem bumpAt_spec {jds : List (List Nat)} {n L row col : Nat} (hs : Shape jds n L)
    (hr : row < n) (hc : col < L) :
    ∃ jds', bumpAt jds row col = some jds' ∧ Shape jds' n L ∧
      ∀ r c, entry jds' r c = entry jds r c + if r = row ∧ c = col then 1 else 0 := by
  obtain ⟨hn, hL⟩ := hs
  have hlt : row < jds.length := by omega
  have hrow : jds[row]? = some jds[row] := List.getElem?_eq_getElem hlt
  have hlen := hL _ _ hrow
  refine ⟨jds.set row (jds[row].modify col (· + 1)), ?_, ⟨?_, ?_⟩, ?_⟩
  · simp only [bumpAt, hrow]
    rw [if_pos (by omega)]
  · simp [hn]
  · intro i r hi
    rw [List.getElem?_set] at hi
    by_cases h1 : row = i
    · subst h1
      simp only [if_true] at hi
      rw [if_pos (by omega)] at hi
      cases hi
      simp [hlen]
    · rw [if_neg h1] at hi
      exact hL _ _ hi
  · intro r c
    simp only [entry, List.getD_eq_getElem?_getD, List.getElem?_set]
    by_cases h1 : row = r
    · subst h1
      simp only [if_true, if_pos hlt, Option.getD_some, hrow, List.getElem?_modify]
      by_cases h2 : col = c
      · subst h2
        simp [List.getElem?_eq_getElem (show col < jds[row].length by omega)]
      · have : ¬ c = col := fun e => h2 e.symm
        simp [h2, this]
    · have : ¬ r = row := fun e => h1 e.symm
      simp [h1, this]


theorem countClique_spec {z n L size : Nat} (h1 : 1 ≤ size) (h2 : size ≤ L) (vs : List Nat)
    (jds : List (List Nat)) (hs : Shape jds n L) (hv : ∀ v ∈ vs, z ≤ v ∧ v < z + n) :
    ∃ jds', countClique z size vs jds = some jds' ∧ Shape jds' n L ∧
      ∀ r c, entry jds' r c =
        entry jds r c + if c = size - 1 then vs.countP (fun w => w - z == r) else 0 := by
  induction vs generalizing jds with
  | nil => exact ⟨jds, rfl, hs, by simp⟩
  | cons v vs ih =>
    have hvr := hv v (List.mem_cons_self)
    obtain ⟨j1, e1, s1, f1⟩ := bumpAt_spec (row := v - z) (col := size - 1) hs (by omega) (by omega)
    obtain ⟨j2, e2, s2, f2⟩ := ih j1 s1 (fun w hw => hv w (List.mem_cons_of_mem _ hw))
    refine ⟨j2, ?_, s2, ?_⟩
    · simp only [countClique, e1, e2]
    · intro r c
      rw [f2, f1, List.countP_cons]
      by_cases hc : c = size - 1 <;> by_cases hr : r = v - z <;> simp [hc, hr] <;> omega

/-- number of cliques with `length - 1 = c`, weighted by the number of their entries `w` with `w - z = r` -/
def rawCount (z : Nat) (cover : List (List Nat)) (r c : Nat) : Nat :=
  ((cover.filter (fun q => q.length - 1 = c)).map (fun q => q.countP (fun w => w - z == r))).sum

theorem countAll_spec {z n L : Nat} (cover : List (List Nat)) (jds : List (List Nat))
    (hs : Shape jds n L)
    (hc : ∀ q ∈ cover, 1 ≤ q.length ∧ q.length ≤ L ∧ ∀ v ∈ q, z ≤ v ∧ v < z + n) :
    ∃ jds', countAll z cover jds = some jds' ∧ Shape jds' n L ∧
      ∀ r c, entry jds' r c = entry jds r c + rawCount z cover r c := by
  induction cover generalizing jds with
  | nil => exact ⟨jds, rfl, hs, by simp [rawCount]⟩
  | cons q qs ih =>
    obtain ⟨hq1, hq2, hq3⟩ := hc q (List.mem_cons_self)
    obtain ⟨j1, e1, s1, f1⟩ := countClique_spec hq1 hq2 q jds hs hq3
    obtain ⟨j2, e2, s2, f2⟩ := ih j1 s1 (fun w hw => hc w (List.mem_cons_of_mem _ hw))
    refine ⟨j2, ?_, s2, ?_⟩
    · simp only [countAll, e1, e2]
    · intro r c
      rw [f2, f1]
      simp only [rawCount, List.filter_cons]
      by_cases h : c = q.length - 1
      · subst h; simp; omega
      · have : ¬ q.length - 1 = c := fun e => h e.symm
        simp [h, this]

theorem countP_sub_eq_count {z v : Nat} (hv : z ≤ v) (q : List Nat) (hq : ∀ w ∈ q, z ≤ w) :
    q.countP (fun w => w - z == v - z) = q.count v := by
  induction q with
  | nil => rfl
  | cons a as ih =>
    have ha := hq a (List.mem_cons_self)
    rw [List.countP_cons, List.count_cons, ih (fun w hw => hq w (List.mem_cons_of_mem _ hw))]
    congr 1
    by_cases h : a = v
    · subst h; simp
    · have : ¬ a - z = v - z := by omega
      simp [h, this]

theorem rawCount_eq_cliqueCount {z v s : Nat} (hv : z ≤ v) (hs : 1 ≤ s) (cover : List (List Nat))
    (hc : ∀ q ∈ cover, q ≠ [] ∧ ∀ w ∈ q, z ≤ w) :
    rawCount z cover (v - z) (s - 1) = cliqueCount cover s v := by
  induction cover with
  | nil => rfl
  | cons q qs ih =>
    obtain ⟨hq1, hq2⟩ := hc q (List.mem_cons_self)
    have ih' := ih (fun w hw => hc w (List.mem_cons_of_mem _ hw))
    have hlen : 0 < q.length := List.length_pos_iff.2 hq1
    unfold rawCount cliqueCount at *
    simp only [List.filter_cons]
    by_cases h : q.length = s
    · simp only [h, decide_true, if_true, List.map_cons, List.sum_cons, ih',
        countP_sub_eq_count hv q hq2]
    · have h' : ¬ q.length - 1 = s - 1 := by omega
      simp only [h, h', decide_false, Bool.false_eq_true, if_false, ih']


/-! ### the counters before the deletion -/

theorem shape_replicate (n L : Nat) : Shape (List.replicate n (List.replicate L 0)) n L := by
  refine ⟨by simp, ?_⟩
  intro i r h
  rw [List.getElem?_replicate] at h
  split at h
  · cases h; simp
  · cases h

theorem entry_replicate (n L r c : Nat) : entry (List.replicate n (List.replicate L 0)) r c = 0 := by
  simp only [entry, List.getD_eq_getElem?_getD, List.getElem?_replicate]
  split
  · simp only [Option.getD_some, List.getElem?_replicate]
    split <;> rfl
  · rfl

theorem Contiguous.clique_ok {cover : List (List Nat)} {z n : Nat} (h : Contiguous cover z n) :
    ∀ q ∈ cover, 1 ≤ q.length ∧ q.length ≤ largest cover ∧ ∀ v ∈ q, z ≤ v ∧ v < z + n := by
  intro q hq
  refine ⟨List.length_pos_iff.2 (h.2.2.1 q hq), length_le_largest hq, ?_⟩
  intro v hv
  exact (h.2.2.2.2 v).1 ⟨q, hq, hv⟩

/-- the counters before the column deletion -/
theorem counts_spec {cover : List (List Nat)} {z n : Nat} (h : Contiguous cover z n) :
    ∃ jds0, countAll z cover (List.replicate n (List.replicate (largest cover) 0)) = some jds0 ∧
      Shape jds0 n (largest cover) ∧
      ∀ v s, z ≤ v → 1 ≤ s → entry jds0 (v - z) (s - 1) = cliqueCount cover s v := by
  obtain ⟨j, e, s, f⟩ := countAll_spec cover _ (shape_replicate n (largest cover)) h.clique_ok
  refine ⟨j, e, s, ?_⟩
  intro v s hv hs
  rw [f, entry_replicate, Nat.zero_add]
  exact rawCount_eq_cliqueCount hv hs cover
    (fun q hq => ⟨h.2.2.1 q hq, fun w hw => ((h.clique_ok q hq).2.2 w hw).1⟩)

theorem Shape.mem_length {jds : List (List Nat)} {n L : Nat} (hs : Shape jds n L) :
    ∀ r ∈ jds, r.length = L := by
  intro r hr
  obtain ⟨i, hi⟩ := List.mem_iff_getElem?.1 hr
  exact hs.2 i r hi


/-! ### column deletion -/

/-- entries of `r` (whose first entry has index `k`) at the indices not in `cols` -/
def keepFrom (k : Nat) : List Nat → List Nat → List Nat
  | [], _ => []
  | x :: xs, cols => if k ∈ cols then keepFrom (k + 1) xs cols else x :: keepFrom (k + 1) xs cols

theorem keepFrom_congr {cols cols' : List Nat} (r : List Nat) (k : Nat)
    (h : ∀ i, k ≤ i → (i ∈ cols ↔ i ∈ cols')) : keepFrom k r cols = keepFrom k r cols' := by
  induction r generalizing k with
  | nil => rfl
  | cons x xs ih =>
    have ih' := ih (k + 1) (fun i hi => h i (by omega))
    have hk := h k (Nat.le_refl k)
    simp only [keepFrom, ih']
    by_cases hc : k ∈ cols
    · rw [if_pos hc, if_pos (hk.1 hc)]
    · rw [if_neg hc, if_neg (fun e => hc (hk.2 e))]

theorem keepFrom_eraseIdx {c : Nat} {cs : List Nat} (hcs : ∀ x ∈ cs, c < x) (r : List Nat) (k : Nat)
    (hk : k ≤ c) : (keepFrom k r cs).eraseIdx (c - k) = keepFrom k r (c :: cs) := by
  induction r generalizing k with
  | nil => simp [keepFrom]
  | cons x xs ih =>
    have hkcs : k ∉ cs := fun e => by have := hcs k e; omega
    by_cases hkc : k = c
    · subst hkc
      simp only [keepFrom, if_neg hkcs, List.mem_cons, true_or, if_true, Nat.sub_self,
        List.eraseIdx_cons_zero]
      apply keepFrom_congr
      intro i hi
      simp only [List.mem_cons]
      constructor
      · exact fun h => Or.inr h
      · rintro (h | h)
        · omega
        · exact h
    · have hne : k ∉ c :: cs := by
        simp only [List.mem_cons, not_or]; exact ⟨hkc, hkcs⟩
      have : c - k = (c - (k + 1)) + 1 := by omega
      simp only [keepFrom, if_neg hkcs, if_neg hne]
      rw [this, List.eraseIdx_cons_succ, ih (k + 1) (by omega)]

/-- deleting the columns `cols` from one row, highest index first -/
def dropRow (r : List Nat) (cols : List Nat) : List Nat := cols.foldr (fun i r => r.eraseIdx i) r

theorem dropCols_eq_map (rows : List (List Nat)) (cols : List Nat) :
    dropCols rows cols = rows.map (fun r => dropRow r cols) := by
  unfold dropCols dropRow
  rw [List.foldl_reverse]
  induction cols with
  | nil => simp
  | cons c cs ih => simp only [List.foldr_cons, ih, List.map_map]; rfl

theorem dropRow_eq_keepFrom (r : List Nat) {cols : List Nat} (hp : cols.Pairwise (· < ·)) :
    dropRow r cols = keepFrom 0 r cols := by
  induction cols with
  | nil =>
    simp only [dropRow, List.foldr_nil]
    generalize 0 = k
    induction r generalizing k with
    | nil => rfl
    | cons x xs ih => simp [keepFrom, ← ih]
  | cons c cs ih =>
    rw [List.pairwise_cons] at hp
    have := keepFrom_eraseIdx hp.1 r 0 (Nat.zero_le c)
    rw [← this, ← ih hp.2]
    rfl

/-- for ascending duplicate-free `m` (1-based sizes): if the deleted columns among indices `k … k+|r|-1` are
exactly those `i` with `i+1 ∉ m`, what remains are the entries at the positions `s-1`, `s ∈ m`, in order -/
theorem keepFrom_eq_map (r : List Nat) (k : Nat) (cols m : List Nat) (hm : m.Pairwise (· < ·))
    (hr : ∀ s ∈ m, k + 1 ≤ s ∧ s ≤ k + r.length)
    (hc : ∀ i, k ≤ i → i < k + r.length → (i ∈ cols ↔ i + 1 ∉ m)) :
    keepFrom k r cols = m.map (fun s => r.getD (s - 1 - k) 0) := by
  induction r generalizing k m with
  | nil =>
    cases m with
    | nil => rfl
    | cons a as => have := hr a (List.mem_cons_self); simp at this; omega
  | cons x xs ih =>
    simp only [List.length_cons] at hr hc
    by_cases hk : k ∈ cols
    · have hnm : k + 1 ∉ m := (hc k (Nat.le_refl k) (by omega)).1 hk
      have hr' : ∀ s ∈ m, k + 1 + 1 ≤ s ∧ s ≤ k + 1 + xs.length := by
        intro s hs
        have := hr s hs
        have : s ≠ k + 1 := fun e => hnm (e ▸ hs)
        omega
      simp only [keepFrom, if_pos hk]
      rw [ih (k + 1) m hm hr' (fun i h1 h2 => hc i (by omega) (by omega))]
      apply List.map_congr_left
      intro s hs
      have := hr' s hs
      have e : s - 1 - k = (s - 1 - (k + 1)) + 1 := by omega
      rw [e, List.getD_cons_succ]
    · have hmem : k + 1 ∈ m := by
        have := (hc k (Nat.le_refl k) (by omega))
        exact Classical.byContradiction (fun e => hk (this.2 e))
      cases m with
      | nil => cases hmem
      | cons a as =>
        rw [List.pairwise_cons] at hm
        have ha : a = k + 1 := by
          rcases List.mem_cons.1 hmem with e | e
          · exact e.symm
          · have := hm.1 _ e
            have := (hr a (List.mem_cons_self)).1
            omega
        subst ha
        have hr' : ∀ s ∈ as, k + 1 + 1 ≤ s ∧ s ≤ k + 1 + xs.length := by
          intro s hs
          have := hr s (List.mem_cons_of_mem _ hs)
          have := hm.1 s hs
          omega
        simp only [keepFrom, if_neg hk, List.map_cons]
        rw [ih (k + 1) as hm.2 hr' ?_]
        · congr 1
          · simp
          · apply List.map_congr_left
            intro s hs
            have := hr' s hs
            have e : s - 1 - k = (s - 1 - (k + 1)) + 1 := by omega
            rw [e, List.getD_cons_succ]
        · intro i h1 h2
          rw [hc i (by omega) (by omega)]
          simp only [List.mem_cons, not_or]
          constructor
          · exact fun h => h.2
          · exact fun h => ⟨by omega, h⟩


/-! ### zero columns and the closed form of `coverJds` -/

/-- the counters before the deletion, row/column form -/
theorem counts_spec_rc {cover : List (List Nat)} {z n : Nat} (h : Contiguous cover z n) :
    ∃ jds0, countAll z cover (List.replicate n (List.replicate (largest cover) 0)) = some jds0 ∧
      Shape jds0 n (largest cover) ∧
      ∀ r c, entry jds0 r c = cliqueCount cover (c + 1) (r + z) := by
  obtain ⟨j, e, s, f⟩ := counts_spec h
  refine ⟨j, e, s, ?_⟩
  intro r c
  have := f (r + z) (c + 1) (by omega) (by omega)
  simpa using this

theorem cliqueCount_pos {cover : List (List Nat)} {q : List Nat} {s v : Nat} (hq : q ∈ cover)
    (hs : q.length = s) (hv : v ∈ q) : 0 < cliqueCount cover s v := by
  induction cover with
  | nil => cases hq
  | cons a as ih =>
    unfold cliqueCount at *
    simp only [List.filter_cons]
    rcases List.mem_cons.1 hq with rfl | hq
    · have : 0 < List.count v q := List.count_pos_iff.2 hv
      simp only [hs, decide_true, if_true, List.map_cons, List.sum_cons]
      omega
    · have := ih hq
      split
      · simp only [List.map_cons, List.sum_cons]; omega
      · exact this

theorem cliqueCount_eq_zero {cover : List (List Nat)} {s : Nat} (hs : ∀ q ∈ cover, q.length ≠ s)
    (v : Nat) : cliqueCount cover s v = 0 := by
  have : cover.filter (fun c => c.length = s) = [] := by
    rw [List.filter_eq_nil_iff]
    intro q hq
    simpa using hs q hq
  simp [cliqueCount, this]

theorem zeroCol_iff {cover : List (List Nat)} {z n : Nat} (h : Contiguous cover z n)
    {jds0 : List (List Nat)} (hs : Shape jds0 n (largest cover))
    (hf : ∀ r c, entry jds0 r c = cliqueCount cover (c + 1) (r + z)) (i : Nat) :
    (jds0.all fun r => r.getD i 0 = 0) = true ↔ i + 1 ∉ motifSizes cover := by
  rw [List.all_eq_true, mem_motifSizes]
  constructor
  · rintro hall ⟨q, hq, hlen⟩
    obtain ⟨h1, _, h3⟩ := h.clique_ok q hq
    obtain ⟨v, hv⟩ := List.exists_mem_of_length_pos h1
    obtain ⟨hv1, hv2⟩ := h3 v hv
    have hlt : v - z < jds0.length := by rw [hs.1]; omega
    have hrow : jds0[v - z]? = some jds0[v - z] := List.getElem?_eq_getElem hlt
    have h0 := hall jds0[v - z] (List.getElem_mem hlt)
    have he := hf (v - z) i
    simp only [entry, List.getD_eq_getElem?_getD, hrow, Option.getD_some] at he
    have hp := cliqueCount_pos hq hlen hv
    rw [show v - z + z = v by omega] at he
    simp only [List.getD_eq_getElem?_getD, decide_eq_true_eq] at h0
    omega
  · intro hno r hr
    obtain ⟨k, hk⟩ := List.mem_iff_getElem?.1 hr
    have he := hf k i
    simp only [entry, List.getD_eq_getElem?_getD, hk, Option.getD_some] at he
    simp only [List.getD_eq_getElem?_getD, decide_eq_true_eq]
    rw [he]
    exact cliqueCount_eq_zero (fun q hq e => hno ⟨q, hq, e⟩) _

/-- `coverJds` in closed form: every counter row restricted to the columns `s-1`, `s ∈ motifSizes` -/
theorem coverJds_eq {cover : List (List Nat)} {z n : Nat} (h : Contiguous cover z n) :
    ∃ jds0, countAll z cover (List.replicate n (List.replicate (largest cover) 0)) = some jds0 ∧
      Shape jds0 n (largest cover) ∧
      (∀ r c, entry jds0 r c = cliqueCount cover (c + 1) (r + z)) ∧
      coverJds cover =
        some (jds0.map fun r => (motifSizes cover).map fun s => r.getD (s - 1) 0) := by
  obtain ⟨jds0, e, s, f⟩ := counts_spec_rc h
  refine ⟨jds0, e, s, f, ?_⟩
  simp only [coverJds, zeroIndex_eq' h, vertexIds_length' h, e]
  rw [dropCols_eq_map]
  congr 1
  apply List.map_congr_left
  intro r hr
  have hlen : r.length = largest cover := s.mem_length r hr
  have hp : (zeroCols jds0 (largest cover)).Pairwise (· < ·) :=
    List.Pairwise.filter _ List.pairwise_lt_range
  rw [dropRow_eq_keepFrom r hp]
  rw [keepFrom_eq_map r 0 _ (motifSizes cover) (motifSizes_pairwise cover)]
  · rfl
  · intro s hs
    obtain ⟨q, hq, rfl⟩ := mem_motifSizes.1 hs
    have := h.clique_ok q hq
    omega
  · intro i _ hi
    simp only [zeroCols, List.mem_filter, List.mem_range]
    rw [zeroCol_iff h s f i]
    constructor
    · exact fun h => h.2
    · exact fun h => ⟨by omega, h⟩


/-! ### column sums -/

theorem sum_map_add {α : Type} (l : List α) (f g : α → Nat) :
    (l.map fun k => f k + g k).sum = (l.map f).sum + (l.map g).sum := by
  induction l with
  | nil => rfl
  | cons a as ih => simp only [List.map_cons, List.sum_cons, ih]; omega

theorem sum_map_zero {α : Type} (l : List α) : (l.map fun _ => 0).sum = 0 := by
  induction l with
  | nil => rfl
  | cons a as ih => simp only [List.map_cons, List.sum_cons, ih]

theorem sum_indicator (a z n : Nat) :
    ((List.range n).map fun k => if a = k + z then 1 else 0).sum =
      if z ≤ a ∧ a < z + n then 1 else 0 := by
  induction n with
  | zero => simp
  | succ m ih =>
    rw [List.range_succ, List.map_append, List.sum_append, ih]
    simp only [List.map_cons, List.map_nil, List.sum_cons, List.sum_nil]
    by_cases h1 : a = m + z
    · subst h1
      rw [if_neg (by omega), if_pos rfl, if_pos (by omega)]; omega
    · rw [if_neg h1]
      by_cases h2 : z ≤ a ∧ a < z + m
      · rw [if_pos h2, if_pos (by omega)]; omega
      · rw [if_neg h2, if_neg (by omega)]; omega

/-- a clique whose entries lie in `z … z+n-1` contributes its length to a column in total -/
theorem sum_count_eq_length {z n : Nat} (q : List Nat) (hq : ∀ v ∈ q, z ≤ v ∧ v < z + n) :
    ((List.range n).map fun k => q.count (k + z)).sum = q.length := by
  induction q with
  | nil => simp [sum_map_zero]
  | cons a as ih =>
    have ha := hq a (List.mem_cons_self)
    have ih' := ih (fun w hw => hq w (List.mem_cons_of_mem _ hw))
    simp only [List.count_cons, beq_iff_eq]
    rw [sum_map_add, ih', sum_indicator, if_pos ha, List.length_cons]

theorem cliqueCount_cons (q : List Nat) (qs : List (List Nat)) (s v : Nat) :
    cliqueCount (q :: qs) s v = (if q.length = s then q.count v else 0) + cliqueCount qs s v := by
  unfold cliqueCount
  simp only [List.filter_cons]
  by_cases h : q.length = s
  · simp [h]
  · simp [h]

theorem sum_cliqueCount {z n : Nat} (cover : List (List Nat)) (s : Nat)
    (hc : ∀ q ∈ cover, ∀ v ∈ q, z ≤ v ∧ v < z + n) :
    ((List.range n).map fun k => cliqueCount cover s (k + z)).sum =
      s * (cover.filter fun c => c.length = s).length := by
  induction cover with
  | nil => simp [cliqueCount, sum_map_zero]
  | cons q qs ih =>
    have ih' := ih (fun w hw => hc w (List.mem_cons_of_mem _ hw))
    simp only [cliqueCount_cons]
    rw [sum_map_add, ih', List.filter_cons]
    by_cases h : q.length = s
    · simp only [h, if_true, decide_true, List.length_cons]
      rw [sum_count_eq_length q (hc q List.mem_cons_self), h, Nat.mul_succ]; omega
    · simp [h, sum_map_zero]

theorem map_eq_map_range {β : Type} (l : List (List Nat)) (f : List Nat → β) :
    l.map f = (List.range l.length).map fun k => f (l.getD k []) := by
  apply List.ext_getElem
  · simp
  · intro i h1 h2
    simp only [List.length_map] at h1
    simp [List.getD_eq_getElem?_getD, List.getElem?_eq_getElem h1]

theorem entry_map_sizes (jds0 : List (List Nat)) (m : List Nat) {k j : Nat} (hk : k < jds0.length)
    (hj : j < m.length) :
    entry (jds0.map fun r => m.map fun s => r.getD (s - 1) 0) k j =
      entry jds0 k (m.getD j 0 - 1) := by
  simp [entry, List.getD_eq_getElem?_getD, List.getElem?_map, List.getElem?_eq_getElem hk,
    List.getElem?_eq_getElem hj]

theorem colsum_map_sizes (jds0 : List (List Nat)) (m : List Nat) {j : Nat} (hj : j < m.length) :
    ((jds0.map fun r => m.map fun s => r.getD (s - 1) 0).map (·.getD j 0)).sum =
      ((List.range jds0.length).map fun k => entry jds0 k (m.getD j 0 - 1)).sum := by
  rw [List.map_map, map_eq_map_range]
  congr 1
  apply List.map_congr_left
  intro k _
  simp [entry, List.getD_eq_getElem?_getD, List.getElem?_map, List.getElem?_eq_getElem hj]


end Gcmpy.Cover
