import GcmpyModel.Model.Dict
/-! Basic facts about the association-list model of Python's `dict`. -/
namespace Gcmpy.Dict
set_option linter.unusedSectionVars false
variable {κ ν : Type} [DecidableEq κ]

theorem get_set (d : List (κ × ν)) (k k' : κ) (v : ν) :
    get (set d k v) k' = if k = k' then some v else get d k' := by
  induction d with
  | nil => simp [set, get]
  | cons x r ih =>
    obtain ⟨a, w⟩ := x
    by_cases h : a = k
    · subst h; simp only [set, if_true, get]; split <;> rfl
    · simp only [set, if_neg h, get, ih]
      by_cases h2 : a = k'
      · subst h2; simp [Ne.symm h]
      · simp [h2]

theorem get_set_self (d : List (κ × ν)) (k : κ) (v : ν) : get (set d k v) k = some v := by
  simp [get_set]

theorem get_set_ne (d : List (κ × ν)) {k k' : κ} (v : ν) (h : k ≠ k') :
    get (set d k v) k' = get d k' := by
  simp [get_set, h]

theorem contains_iff_mem_keys (d : List (κ × ν)) (k : κ) : contains d k = true ↔ k ∈ keys d := by
  induction d with
  | nil => simp [contains, get, keys]
  | cons x r ih =>
    obtain ⟨a, w⟩ := x
    by_cases h : a = k
    · subst h; simp [contains, get, keys]
    · have : ¬ k = a := fun e => h e.symm
      simp only [contains, get, if_neg h, keys, List.map_cons, List.mem_cons, this, false_or]
      exact ih

theorem get_isSome_iff_mem_keys (d : List (κ × ν)) (k : κ) : (get d k).isSome = true ↔ k ∈ keys d :=
  contains_iff_mem_keys d k

theorem get_eq_none_of_not_mem (d : List (κ × ν)) (k : κ) (h : k ∉ keys d) : get d k = none := by
  have := mt (contains_iff_mem_keys d k).1 h
  simpa [contains] using this

theorem keys_set_of_mem (d : List (κ × ν)) (k : κ) (v : ν) (h : k ∈ keys d) :
    keys (set d k v) = keys d := by
  induction d with
  | nil => simp [keys] at h
  | cons x r ih =>
    obtain ⟨a, w⟩ := x
    by_cases h1 : a = k
    · subst h1; simp [set, keys]
    · have : k ∈ keys r := by
        simp only [keys, List.map_cons, List.mem_cons] at h
        rcases h with h | h
        · exact absurd h.symm h1
        · exact h
      simp only [set, if_neg h1, keys, List.map_cons]
      congr 1
      exact ih this

theorem keys_set_of_not_mem (d : List (κ × ν)) (k : κ) (v : ν) (h : k ∉ keys d) :
    keys (set d k v) = keys d ++ [k] := by
  induction d with
  | nil => simp [keys, set]
  | cons x r ih =>
    obtain ⟨a, w⟩ := x
    simp only [keys, List.map_cons, List.mem_cons, not_or] at h
    have h1 : ¬ a = k := fun e => h.1 e.symm
    simp only [set, if_neg h1, keys, List.map_cons, List.cons_append]
    congr 1
    exact ih h.2

theorem mem_keys_set (d : List (κ × ν)) (k k' : κ) (v : ν) :
    k' ∈ keys (set d k v) ↔ k' = k ∨ k' ∈ keys d := by
  by_cases h : k ∈ keys d
  · rw [keys_set_of_mem d k v h]
    constructor
    · exact Or.inr
    · rintro (rfl | h') <;> assumption
  · rw [keys_set_of_not_mem d k v h]
    simp [or_comm]

theorem mem_set (d : List (κ × ν)) (k : κ) (v : ν) (x : κ × ν) (hx : x ∈ set d k v) :
    x ∈ d ∨ x = (k, v) := by
  induction d with
  | nil => simp [set] at hx; exact Or.inr hx
  | cons y r ih =>
    obtain ⟨a, w⟩ := y
    by_cases h1 : a = k
    · subst h1
      simp only [set, if_true, List.mem_cons] at hx
      rcases hx with hx | hx
      · exact Or.inr hx
      · exact Or.inl (List.mem_cons_of_mem _ hx)
    · simp only [set, if_neg h1, List.mem_cons] at hx
      rcases hx with hx | hx
      · exact Or.inl (hx ▸ List.mem_cons_self)
      · rcases ih hx with h | h
        · exact Or.inl (List.mem_cons_of_mem _ h)
        · exact Or.inr h

theorem length_set_of_mem (d : List (κ × ν)) (k : κ) (v : ν) (h : k ∈ keys d) :
    (set d k v).length = d.length := by
  have := congrArg List.length (keys_set_of_mem d k v h)
  simpa [keys] using this

/-- with distinct keys, an entry is found by `get` -/
theorem get_of_mem (d : List (κ × ν)) (hn : (keys d).Nodup) (x : κ × ν) (hx : x ∈ d) :
    get d x.1 = some x.2 := by
  induction d with
  | nil => simp at hx
  | cons y r ih =>
    obtain ⟨a, w⟩ := y
    simp only [keys, List.map_cons, List.nodup_cons] at hn
    rcases List.mem_cons.1 hx with rfl | hx'
    · simp [get]
    · have : a ≠ x.1 := by
        intro e
        apply hn.1
        rw [e]
        exact List.mem_map_of_mem hx'
      simp only [get, if_neg this]
      exact ih hn.2 hx'

theorem get_getElem (d : List (κ × ν)) (hn : (keys d).Nodup) (i : Nat) (hi : i < d.length) :
    get d d[i].1 = some d[i].2 :=
  get_of_mem d hn d[i] (List.getElem_mem hi)

end Gcmpy.Dict
