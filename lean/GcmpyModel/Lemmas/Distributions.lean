import Mathlib.Analysis.SpecificLimits.Basic
import Mathlib.Analysis.SpecialFunctions.Exponential
import Mathlib.Analysis.SpecialFunctions.Pow.Real
import Mathlib.Analysis.SpecialFunctions.Pow.Asymptotics
import Mathlib.Analysis.PSeries
import GcmpyModel.Model.Distributions
/-!
Real-number model of `gcmpy/distributions/{exponential,poisson,power_law,scale_free_cut_off}.py`
and the helper lemmas used by `Properties/C19.lean`.
-/
open Finset Filter Topology

namespace Gcmpy.Distributions

/-- `exponential(a)(k) = (1 - exp(-a)) * exp(-a*k)` -/
noncomputable def expo (a : ℝ) (k : ℕ) : ℝ := (1 - Real.exp (-a)) * Real.exp (-a * k)
/-- `poisson(m)(k) = exp(-m) * m^k / k!` -/
noncomputable def pois (m : ℝ) (k : ℕ) : ℝ := Real.exp (-m) * m ^ k / (Nat.factorial k)
/-- the `k`-th term `1 / k**s` of the zeta loop (real exponent) -/
noncomputable def zterm (α : ℝ) (k : ℕ) : ℝ := 1 / (k : ℝ) ^ α
/-- the `k`-th term `z**k / k**s` of the polylogarithm loop (real exponent) -/
noncomputable def lterm (α z : ℝ) (k : ℕ) : ℝ := z ^ k / (k : ℝ) ^ α
/-- the loop stops at the first index `K ≥ 1` whose term is below the tolerance and returns the
partial sum up to and including `K` -/
def StopsAt (term : ℕ → ℝ) (tol : ℝ) (K : ℕ) : Prop :=
  1 ≤ K ∧ term K < tol ∧ ∀ k, 1 ≤ k → k < K → ¬ term k < tol
noncomputable def partialSum (term : ℕ → ℝ) (K : ℕ) : ℝ := ∑ k ∈ Finset.Icc 1 K, term k

/-! ### generic facts about `StopsAt` / `partialSum` -/

theorem stopsAt_of_exists {term : ℕ → ℝ} {tol : ℝ} (h : ∃ k, 1 ≤ k ∧ term k < tol) :
    ∃ K, StopsAt term tol K := by
  classical
  refine ⟨Nat.find h, (Nat.find_spec h).1, (Nat.find_spec h).2, ?_⟩
  intro k hk1 hkK hlt
  exact Nat.find_min h hkK ⟨hk1, hlt⟩

theorem StopsAt.unique {term : ℕ → ℝ} {tol : ℝ} {K K' : ℕ} (h : StopsAt term tol K)
    (h' : StopsAt term tol K') : K = K' := by
  rcases lt_trichotomy K K' with hlt | heq | hgt
  · exact absurd h.2.1 (h'.2.2 K h.1 hlt)
  · exact heq
  · exact absurd h'.2.1 (h.2.2 K' h'.1 hgt)

theorem partialSum_zero (term : ℕ → ℝ) : partialSum term 0 = 0 := by
  simp [partialSum]

theorem partialSum_succ (term : ℕ → ℝ) (K : ℕ) :
    partialSum term (K + 1) = partialSum term K + term (K + 1) := by
  unfold partialSum
  rw [Finset.sum_Icc_succ_top (by omega)]

theorem partialSum_eq_range (term : ℕ → ℝ) (K : ℕ) :
    partialSum term K = ∑ i ∈ Finset.range K, term (i + 1) := by
  induction K with
  | zero => simp [partialSum_zero]
  | succ K ih => rw [partialSum_succ, Finset.sum_range_succ, ih]

/-- the truncation error is the tail of the series -/
theorem tail_eq {term : ℕ → ℝ} (hs : Summable (fun i : ℕ => term (i + 1))) (K : ℕ) :
    (∑' i : ℕ, term (i + 1)) - partialSum term K = ∑' i : ℕ, term (i + K + 1) := by
  have h := hs.sum_add_tsum_nat_add K
  rw [partialSum_eq_range]
  linarith

theorem partialSum_ge_first {term : ℕ → ℝ} (h0 : ∀ k, 0 ≤ term k) {K : ℕ} (hK : 1 ≤ K) :
    term 1 ≤ partialSum term K := by
  unfold partialSum
  exact Finset.single_le_sum (f := term) (fun i _ => h0 i) (Finset.mem_Icc.2 ⟨le_refl 1, hK⟩)

/-! ### exponential -/

theorem expo_eq (a : ℝ) (k : ℕ) : expo a k = (1 - Real.exp (-a)) * Real.exp (-a) ^ k := by
  unfold expo
  rw [← Real.exp_nat_mul, mul_comm (k : ℝ)]

/-! ### terms of the two loops -/

theorem zterm_nonneg (α : ℝ) (k : ℕ) : 0 ≤ zterm α k := by
  unfold zterm; positivity

theorem zterm_pos (α : ℝ) {k : ℕ} (hk : 1 ≤ k) : 0 < zterm α k := by
  unfold zterm
  have : (0 : ℝ) < k := by exact_mod_cast hk
  positivity

theorem zterm_one (α : ℝ) : zterm α 1 = 1 := by
  simp [zterm]

theorem lterm_nonneg (α : ℝ) {z : ℝ} (hz : 0 ≤ z) (k : ℕ) : 0 ≤ lterm α z k := by
  unfold lterm; positivity

theorem lterm_pos (α : ℝ) {z : ℝ} (hz : 0 < z) {k : ℕ} (hk : 1 ≤ k) : 0 < lterm α z k := by
  unfold lterm
  have : (0 : ℝ) < k := by exact_mod_cast hk
  positivity

theorem lterm_one (α z : ℝ) : lterm α z 1 = z := by
  simp [lterm]

theorem one_le_natCast_rpow {α : ℝ} (hα : 0 ≤ α) {k : ℕ} (hk : 1 ≤ k) : (1 : ℝ) ≤ (k : ℝ) ^ α :=
  Real.one_le_rpow (by exact_mod_cast hk) hα

theorem lterm_le_pow {α z : ℝ} (hα : 0 ≤ α) (hz : 0 ≤ z) {k : ℕ} (hk : 1 ≤ k) :
    lterm α z k ≤ z ^ k := by
  unfold lterm
  exact div_le_self (pow_nonneg hz k) (one_le_natCast_rpow hα hk)

theorem exists_zterm_lt {α tol : ℝ} (hα : 0 < α) (htol : 0 < tol) :
    ∃ k : ℕ, 1 ≤ k ∧ zterm α k < tol := by
  have h1 : Tendsto (fun k : ℕ => (k : ℝ) ^ α) atTop atTop :=
    (tendsto_rpow_atTop hα).comp tendsto_natCast_atTop_atTop
  have h2 := (h1.eventually_gt_atTop (1 / tol)).and (eventually_ge_atTop 1)
  obtain ⟨k, hk, hk1⟩ := h2.exists
  refine ⟨k, hk1, ?_⟩
  unfold zterm
  have hpos : (0 : ℝ) < (k : ℝ) ^ α := lt_trans (by positivity) hk
  rw [div_lt_iff₀ hpos]
  rw [div_lt_iff₀ htol] at hk
  linarith

theorem exists_lterm_lt {α z tol : ℝ} (hα : 0 ≤ α) (hz0 : 0 ≤ z) (hz1 : z < 1) (htol : 0 < tol) :
    ∃ k : ℕ, 1 ≤ k ∧ lterm α z k < tol := by
  have h1 : Tendsto (fun k : ℕ => z ^ k) atTop (𝓝 0) :=
    tendsto_pow_atTop_nhds_zero_of_lt_one hz0 hz1
  have h2 := (h1.eventually_lt_const htol).and (eventually_ge_atTop 1)
  obtain ⟨k, hk, hk1⟩ := h2.exists
  exact ⟨k, hk1, lt_of_le_of_lt (lterm_le_pow hα hz0 hk1) hk⟩

/-! ### zeta: summability and tail bound -/

theorem summable_zterm_succ {α : ℝ} (hα : 1 < α) : Summable (fun i : ℕ => zterm α (i + 1)) :=
  (summable_nat_add_iff 1).2 (Real.summable_one_div_nat_rpow.2 hα)

theorem sum_range_inv_sq_le {K : ℕ} (hK : 1 ≤ K) (n : ℕ) :
    ∑ i ∈ Finset.range n, (((i + K + 1 : ℕ) : ℝ) ^ 2)⁻¹
      ≤ 1 / (K : ℝ) - 1 / ((K + n : ℕ) : ℝ) := by
  induction n with
  | zero => simp
  | succ n ih =>
    rw [Finset.sum_range_succ]
    have hpos : (0 : ℝ) < ((K + n : ℕ) : ℝ) := by exact_mod_cast (by omega : 0 < K + n)
    have e1 : ((n + K + 1 : ℕ) : ℝ) = ((K + n : ℕ) : ℝ) + 1 := by push_cast; ring
    have e2 : ((K + (n + 1) : ℕ) : ℝ) = ((K + n : ℕ) : ℝ) + 1 := by push_cast; ring
    rw [e1, e2]
    generalize ((K + n : ℕ) : ℝ) = x at *
    have hx1 : 0 < x + 1 := by linarith
    have : ((x + 1) ^ 2)⁻¹ ≤ 1 / x - 1 / (x + 1) := by
      rw [div_sub_div _ _ hpos.ne' hx1.ne', inv_eq_one_div,
        div_le_div_iff₀ (by positivity) (by positivity)]
      nlinarith
    linarith

theorem zterm_le_of_le {α : ℝ} (hα : 2 ≤ α) {K k : ℕ} (hK : 1 ≤ K) (hk : K ≤ k) :
    zterm α k ≤ ((K : ℝ) ^ 2 * zterm α K) * ((k : ℝ) ^ 2)⁻¹ := by
  have hKpos : (0 : ℝ) < K := by exact_mod_cast hK
  have hKk : (K : ℝ) ≤ k := by exact_mod_cast hk
  have hkpos : (0 : ℝ) < k := lt_of_lt_of_le hKpos hKk
  have split : ∀ x : ℝ, 0 < x → x ^ α = x ^ 2 * x ^ (α - 2) := by
    intro x hx
    rw [← Real.rpow_natCast x 2, ← Real.rpow_add hx]
    congr 1; push_cast; ring
  unfold zterm
  rw [split _ hKpos, split _ hkpos]
  have hab : (K : ℝ) ^ (α - 2) ≤ (k : ℝ) ^ (α - 2) :=
    Real.rpow_le_rpow hKpos.le hKk (by linarith)
  have ha : 0 < (K : ℝ) ^ (α - 2) := Real.rpow_pos_of_pos hKpos _
  generalize (K : ℝ) ^ (α - 2) = a at *
  generalize (k : ℝ) ^ (α - 2) = b at *
  have hK2 : 0 < (K : ℝ) ^ 2 := by positivity
  have hk2 : 0 < (k : ℝ) ^ 2 := by positivity
  have e : (K : ℝ) ^ 2 * (1 / ((K : ℝ) ^ 2 * a)) * ((k : ℝ) ^ 2)⁻¹ = 1 / ((k : ℝ) ^ 2 * a) := by
    field_simp
  rw [e]
  exact one_div_le_one_div_of_le (by positivity) (mul_le_mul_of_nonneg_left hab hk2.le)

/-- `Σ_{k>K} k^{-α} ≤ K · K^{-α}` for `α ≥ 2` -/
theorem zeta_tail_le {α : ℝ} (hα : 2 ≤ α) {K : ℕ} (hK : 1 ≤ K) :
    ∑' i : ℕ, zterm α (i + K + 1) ≤ K * zterm α K := by
  have hKpos : (0 : ℝ) < K := by exact_mod_cast hK
  have hc0 : 0 ≤ (K : ℝ) ^ 2 * zterm α K := by
    have := zterm_nonneg α K
    positivity
  let g : ℕ → ℝ := fun i => (((i + K + 1 : ℕ) : ℝ) ^ 2)⁻¹
  have hg0 : ∀ i, 0 ≤ g i := fun i => by positivity
  have hgle : ∀ n, ∑ i ∈ Finset.range n, g i ≤ 1 / (K : ℝ) := fun n => by
    have h1 := sum_range_inv_sq_le hK n
    have h2 : (0 : ℝ) ≤ 1 / ((K + n : ℕ) : ℝ) := by positivity
    linarith
  have hgs : Summable g := summable_of_sum_range_le hg0 hgle
  have hgt : ∑' i, g i ≤ 1 / (K : ℝ) := Real.tsum_le_of_sum_range_le hg0 hgle
  have hzs : Summable (fun i : ℕ => zterm α (i + K + 1)) :=
    (summable_nat_add_iff (K + 1)).2 (Real.summable_one_div_nat_rpow.2 (by linarith))
  calc ∑' i : ℕ, zterm α (i + K + 1)
      ≤ ∑' i, ((K : ℝ) ^ 2 * zterm α K) * g i :=
        hzs.tsum_le_tsum (fun i => zterm_le_of_le hα hK (by omega)) (hgs.mul_left _)
    _ = ((K : ℝ) ^ 2 * zterm α K) * ∑' i, g i := tsum_mul_left
    _ ≤ ((K : ℝ) ^ 2 * zterm α K) * (1 / K) := mul_le_mul_of_nonneg_left hgt hc0
    _ = K * zterm α K := by field_simp

theorem zeta_tail_pos {α : ℝ} (hα : 1 < α) (K : ℕ) : 0 < ∑' i : ℕ, zterm α (i + K + 1) := by
  have hzs : Summable (fun i : ℕ => zterm α (i + K + 1)) :=
    (summable_nat_add_iff (K + 1)).2 (Real.summable_one_div_nat_rpow.2 hα)
  exact hzs.tsum_pos (fun i => zterm_nonneg α _) 0 (zterm_pos α (by omega))

/-! ### polylogarithm: summability and tail bound -/

theorem summable_lterm_succ {α z : ℝ} (hα : 0 ≤ α) (hz0 : 0 ≤ z) (hz1 : z < 1) :
    Summable (fun i : ℕ => lterm α z (i + 1)) :=
  Summable.of_nonneg_of_le (fun i => lterm_nonneg α hz0 _)
    (fun i => lterm_le_pow hα hz0 (by omega))
    ((summable_nat_add_iff 1).2 (summable_geometric_of_lt_one hz0 hz1))

theorem lterm_tail_term_le {α z : ℝ} (hα : 0 ≤ α) (hz : 0 ≤ z) {K : ℕ} (hK : 1 ≤ K) (i : ℕ) :
    lterm α z (i + K + 1) ≤ lterm α z K * (z * z ^ i) := by
  unfold lterm
  have hKpos : (0 : ℝ) < K := by exact_mod_cast hK
  have h1 : (K : ℝ) ^ α ≤ ((i + K + 1 : ℕ) : ℝ) ^ α :=
    Real.rpow_le_rpow hKpos.le (by exact_mod_cast (by omega : K ≤ i + K + 1)) hα
  have hKα : 0 < (K : ℝ) ^ α := Real.rpow_pos_of_pos hKpos _
  have e : z ^ (i + K + 1) = z ^ K * (z * z ^ i) := by ring
  rw [e, div_mul_eq_mul_div]
  exact div_le_div_of_nonneg_left (by positivity) hKα h1

/-- `Σ_{k>K} z^k / k^α ≤ (z^K / K^α) · z / (1 - z)` -/
theorem polylog_tail_le {α z : ℝ} (hα : 0 ≤ α) (hz0 : 0 ≤ z) (hz1 : z < 1) {K : ℕ} (hK : 1 ≤ K) :
    ∑' i : ℕ, lterm α z (i + K + 1) ≤ lterm α z K * (z / (1 - z)) := by
  have hs : Summable (fun i : ℕ => lterm α z (i + K + 1)) :=
    (summable_nat_add_iff (f := fun i : ℕ => lterm α z (i + 1)) K).2 (summable_lterm_succ hα hz0 hz1)
  have hg : HasSum (fun i : ℕ => lterm α z K * (z * z ^ i)) (lterm α z K * (z * (1 - z)⁻¹)) :=
    ((hasSum_geometric_of_lt_one hz0 hz1).mul_left z).mul_left _
  have := hasSum_le (fun i => lterm_tail_term_le hα hz0 hK i) hs.hasSum hg
  rwa [div_eq_mul_inv]

theorem polylog_tail_pos {α z : ℝ} (hα : 0 ≤ α) (hz0 : 0 < z) (hz1 : z < 1) (K : ℕ) :
    0 < ∑' i : ℕ, lterm α z (i + K + 1) := by
  have hs : Summable (fun i : ℕ => lterm α z (i + K + 1)) :=
    (summable_nat_add_iff (f := fun i : ℕ => lterm α z (i + 1)) K).2 (summable_lterm_succ hα hz0.le hz1)
  exact hs.tsum_pos (fun i => lterm_nonneg α hz0.le _) 0 (lterm_pos α hz0 (by omega))

/-! ### a truncated normalisation constant is close to the full one -/

theorem close_of_bounds {t C Z ε c : ℝ} (ht : 0 ≤ t) (hc : 0 < c) (hcC : c ≤ C) (hCZ : C ≤ Z)
    (hZC : Z - C ≤ ε) : t / Z ≤ t / C ∧ t / C - t / Z ≤ (ε / c) * (t / Z) := by
  have hC : 0 < C := lt_of_lt_of_le hc hcC
  have hZ : 0 < Z := lt_of_lt_of_le hC hCZ
  have hε : 0 ≤ ε := by linarith
  refine ⟨div_le_div_of_nonneg_left ht hC hCZ, ?_⟩
  have e : t / C - t / Z = ((Z - C) / C) * (t / Z) := by field_simp
  rw [e]
  refine mul_le_mul_of_nonneg_right ?_ (div_nonneg ht hZ.le)
  exact div_le_div₀ hε hZC hc hcC

theorem ratio_bounds {C Z ε c : ℝ} (hc : 0 < c) (hcC : c ≤ C) (hCZ : C ≤ Z) (hZC : Z - C ≤ ε) :
    1 ≤ Z / C ∧ Z / C ≤ 1 + ε / c := by
  have hC : 0 < C := lt_of_lt_of_le hc hcC
  have hε : 0 ≤ ε := by linarith
  refine ⟨(one_le_div hC).2 hCZ, ?_⟩
  have e : Z / C = 1 + (Z - C) / C := by field_simp; ring
  rw [e]
  have := div_le_div₀ hε hZC hc hcC
  linarith

/-! ### link to the executable rational loops -/

theorem zterm_cast (s k : ℕ) : (((1 : ℚ) / ((k ^ s : ℕ) : ℚ) : ℚ) : ℝ) = zterm (s : ℝ) k := by
  unfold zterm
  rw [Real.rpow_natCast]
  push_cast
  rfl

theorem zetaLoop_inv (s : ℕ) (tol : ℚ) : ∀ (fuel k : ℕ) (l l' : ℚ) (K : ℕ), 1 ≤ k →
    (∀ j, 1 ≤ j → j < k → ¬ zterm (s : ℝ) j < (tol : ℝ)) →
    (l : ℝ) = partialSum (zterm (s : ℝ)) (k - 1) →
    zetaLoop s tol fuel k l = some (l', K) →
    StopsAt (zterm (s : ℝ)) (tol : ℝ) K ∧ (l' : ℝ) = partialSum (zterm (s : ℝ)) K := by
  intro fuel
  induction fuel with
  | zero => intro k l l' K _ _ _ h; simp [zetaLoop] at h
  | succ fuel ih =>
    intro k l l' K hk hmin hl h
    simp only [zetaLoop] at h
    have hsum : ((l + 1 / ((k ^ s : ℕ) : ℚ) : ℚ) : ℝ) = partialSum (zterm (s : ℝ)) k := by
      obtain ⟨k', rfl⟩ : ∃ k', k = k' + 1 := ⟨k - 1, by omega⟩
      rw [partialSum_succ, Rat.cast_add, zterm_cast, hl]
      simp
    split at h
    · rename_i hlt
      simp only [Option.some.injEq, Prod.mk.injEq] at h
      obtain ⟨h1, h2⟩ := h
      subst h2
      refine ⟨⟨hk, ?_, hmin⟩, ?_⟩
      · rw [← zterm_cast]; exact_mod_cast hlt
      · rw [← h1]; exact hsum
    · rename_i hnlt
      have hk' : 1 ≤ k + 1 := by omega
      refine ih (k + 1) (l + 1 / ((k ^ s : ℕ) : ℚ)) l' K hk' ?_ ?_ h
      · intro j hj1 hjk
        rcases Nat.lt_succ_iff_lt_or_eq.1 hjk with hlt | rfl
        · exact hmin j hj1 hlt
        · rw [← zterm_cast]; exact_mod_cast hnlt
      · simpa using hsum

theorem lterm_cast (s k : ℕ) (z : ℚ) :
    (((z ^ k : ℚ) / ((k ^ s : ℕ) : ℚ) : ℚ) : ℝ) = lterm (s : ℝ) (z : ℝ) k := by
  unfold lterm
  rw [Real.rpow_natCast]
  push_cast
  rfl

theorem polylogLoop_inv (s : ℕ) (z tol : ℚ) (hz : 0 ≤ z) :
    ∀ (fuel k : ℕ) (zk l l' : ℚ) (K : ℕ), 1 ≤ k → zk = z ^ k →
    (∀ j, 1 ≤ j → j < k → ¬ lterm (s : ℝ) (z : ℝ) j < (tol : ℝ)) →
    (l : ℝ) = partialSum (lterm (s : ℝ) (z : ℝ)) (k - 1) →
    polylogLoop s z tol fuel k zk l = some (l', K) →
    StopsAt (lterm (s : ℝ) (z : ℝ)) (tol : ℝ) K ∧
      (l' : ℝ) = partialSum (lterm (s : ℝ) (z : ℝ)) K := by
  intro fuel
  induction fuel with
  | zero => intro k zk l l' K _ _ _ _ h; simp [polylogLoop] at h
  | succ fuel ih =>
    intro k zk l l' K hk hzk hmin hl h
    subst hzk
    simp only [polylogLoop] at h
    have hterm0 : ¬ (z ^ k / ((k ^ s : ℕ) : ℚ) < 0) := by
      have : (0 : ℚ) ≤ z ^ k / ((k ^ s : ℕ) : ℚ) := by positivity
      exact not_lt.2 this
    rw [if_neg hterm0] at h
    have hsum : ((l + z ^ k / ((k ^ s : ℕ) : ℚ) : ℚ) : ℝ)
        = partialSum (lterm (s : ℝ) (z : ℝ)) k := by
      obtain ⟨k', rfl⟩ : ∃ k', k = k' + 1 := ⟨k - 1, by omega⟩
      rw [partialSum_succ, Rat.cast_add, lterm_cast, hl]
      simp
    split at h
    · rename_i hlt
      simp only [Option.some.injEq, Prod.mk.injEq] at h
      obtain ⟨h1, h2⟩ := h
      subst h2
      refine ⟨⟨hk, ?_, hmin⟩, ?_⟩
      · rw [← lterm_cast]; exact_mod_cast hlt
      · rw [← h1]; exact hsum
    · rename_i hnlt
      have hk' : 1 ≤ k + 1 := by omega
      refine ih (k + 1) (z ^ k * z) (l + z ^ k / ((k ^ s : ℕ) : ℚ)) l' K hk' (pow_succ z k).symm ?_ ?_ h
      · intro j hj1 hjk
        rcases Nat.lt_succ_iff_lt_or_eq.1 hjk with hlt | rfl
        · exact hmin j hj1 hlt
        · rw [← lterm_cast]; exact_mod_cast hnlt
      · simpa using hsum

end Gcmpy.Distributions
