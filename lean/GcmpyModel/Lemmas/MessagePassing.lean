import Mathlib.Algebra.Order.Field.Rat
import Mathlib.Algebra.Order.Field.Basic
import Mathlib.Tactic.Linarith
import Mathlib.Tactic.Positivity
import GcmpyModel.Model.MessagePassing
import GcmpyModel.Lemmas.Dict
import GcmpyModel.Properties.C15
/-!
Helper lemmas for C17 (message passing, `GcmpyModel/Model/MessagePassing.lean`), numbers = `Rat`.

* `motifNodes_wf`, `mem_motifNodes` — the motif's own vertex list is a well-formed vertex list of its edge list;
* `message_is_expectation` — each update writes the exact bond-percolation expectation of its motif (C15);
* range: `prodOver_unit`, `newMessage_unit`, `inUnit_init`, `inUnit_sweep`, `inUnit_sweeps`, `outerSum_bounds`;
* order: `HLe`, `Rel`, `prodOver_mono`, `newMessage_antitone`, `rel_calcH`, `rel_sweep`, `rel_sweeps`, `outerSum_mono`;
* `φ = 0`: `newMessage_at_zero`, `sweep_zero_ones`, `sweeps_zero_ones`, `outerSum_of_ones`.
-/
namespace Gcmpy.MessagePassing
open Gcmpy Gcmpy.Graph Gcmpy.Automated

/-! ### vocabulary -/

/-- every label's own edge list is a simple graph, and the end points of a labelled edge are vertices of its motif -/
def LabelsOk (net : Net) : Prop :=
  ∀ e ∈ net.edges, Automated.Simple e.2.2.edges ∧ e.1 ∈ motifNodes e.2.2.edges ∧ e.2.1 ∈ motifNodes e.2.2.edges

/-- all stored messages lie in [0, 1] -/
def InUnit (H : HMap Rat) : Prop := ∀ p ∈ H, 0 ≤ p.2 ∧ p.2 ≤ 1

/-- pointwise order on message tables with the same key list -/
def HLe (H' H : HMap Rat) : Prop := H'.map (·.1) = H.map (·.1) ∧ ∀ k, readH H' k ≤ readH H k

/-! ### 1. `motifNodes` -/

theorem foldl_insert_spec (l : List Nat) (acc : List Nat) (h : acc.Nodup) :
    (l.foldl (fun acc v => if v ∈ acc then acc else acc ++ [v]) acc).Nodup ∧
    ∀ x, x ∈ l.foldl (fun acc v => if v ∈ acc then acc else acc ++ [v]) acc ↔ x ∈ acc ∨ x ∈ l := by
  induction l generalizing acc with
  | nil => simp [h]
  | cons y ys ih =>
    simp only [List.foldl_cons]
    by_cases hy : y ∈ acc
    · simp only [hy, if_true]
      refine ⟨(ih acc h).1, fun x => ?_⟩
      rw [(ih acc h).2, List.mem_cons]
      constructor
      · rintro (h | h)
        · exact Or.inl h
        · exact Or.inr (Or.inr h)
      · rintro (h | rfl | h)
        · exact Or.inl h
        · exact Or.inl hy
        · exact Or.inr h
    · simp only [hy, if_false]
      have h' : (acc ++ [y]).Nodup := by
        rw [List.nodup_append]
        refine ⟨h, List.nodup_singleton y, ?_⟩
        intro a ha b hb
        rw [List.mem_singleton] at hb
        subst hb
        intro e
        exact hy (e ▸ ha)
      refine ⟨(ih _ h').1, fun x => ?_⟩
      rw [(ih _ h').2, List.mem_cons, List.mem_append, List.mem_singleton]
      tauto

/-- the motif's own vertex list: duplicate free, contains every end point -/
theorem motifNodes_wf (es : List Edge) : WFGraph es (motifNodes es) := by
  unfold WFGraph motifNodes
  refine ⟨(foldl_insert_spec _ [] List.nodup_nil).1, fun e he => ?_⟩
  rw [(foldl_insert_spec _ [] List.nodup_nil).2, (foldl_insert_spec _ [] List.nodup_nil).2]
  constructor
  · right
    exact List.mem_flatMap.2 ⟨e, he, by simp⟩
  · right
    exact List.mem_flatMap.2 ⟨e, he, by simp⟩

theorem mem_motifNodes {es : List Edge} {v : Nat} :
    v ∈ motifNodes es ↔ ∃ e ∈ es, v = e.1 ∨ v = e.2 := by
  unfold motifNodes
  rw [(foldl_insert_spec _ [] List.nodup_nil).2]
  simp only [List.not_mem_nil, false_or, List.mem_flatMap, List.mem_cons, or_false]

/-! ### 2. every update writes an exact expectation -/

/-- every update sets the message to the exact bond-percolation expectation of its motif, with
`u j = ∏` of `j`'s messages from the motifs met among its neighbours outside this motif -/
theorem message_is_expectation (net : Net) (φ : Rat) (H : HMap Rat) {focal : Nat} {lab : Label}
    (hl : Automated.Simple lab.edges) (hf : focal ∈ motifNodes lab.edges) :
    newMessage net φ H focal lab =
      Automated.exactE ⟨motifNodes lab.edges, lab.edges⟩ φ
        (fun j => prodOver net H j ((neighbours net j).filter fun l => l ∉ lab.verts) [] 1) focal := by
  unfold newMessage
  exact automated_exact ⟨motifNodes lab.edges, lab.edges⟩ (motifNodes_wf _) hl hf φ _

theorem newMessage_eq_finset (net : Net) (φ : Rat) (H : HMap Rat) {focal : Nat} {lab : Label}
    (hl : Automated.Simple lab.edges) (hf : focal ∈ motifNodes lab.edges) :
    newMessage net φ H focal lab =
      Perc.exactE (motifNodes lab.edges).toFinset lab.edges.toFinset φ
        (fun j => prodOver net H j ((neighbours net j).filter fun l => l ∉ lab.verts) [] 1) focal := by
  unfold newMessage
  exact automated_exact_finset ⟨motifNodes lab.edges, lab.edges⟩ (motifNodes_wf _) hl hf φ _

/-! ### 3. range -/

theorem mem_of_get {κ ν : Type} [DecidableEq κ] {d : List (κ × ν)} {k : κ} {v : ν}
    (h : Dict.get d k = some v) : (k, v) ∈ d := by
  induction d with
  | nil => simp [Dict.get] at h
  | cons x r ih =>
    obtain ⟨a, w⟩ := x
    by_cases ha : a = k
    · subst ha
      simp only [Dict.get, if_true, Option.some.injEq] at h
      subst h
      exact List.mem_cons_self
    · simp only [Dict.get, if_neg ha] at h
      exact List.mem_cons_of_mem _ (ih h)

theorem readH_unit {H : HMap Rat} (hH : InUnit H) (k : Nat × Nat) : 0 ≤ readH H k ∧ readH H k ≤ 1 := by
  unfold readH
  cases hg : Dict.get H k with
  | none => simp
  | some v => simpa using hH _ (mem_of_get hg)

theorem readH_set (H : HMap Rat) (k k' : Nat × Nat) (v : Rat) :
    readH (Dict.set H k v) k' = if k = k' then v else readH H k' := by
  unfold readH
  rw [Dict.get_set]
  split <;> rfl

theorem prodOver_unit (net : Net) {H : HMap Rat} (hH : InUnit H) (j : Nat) (ls done : List Nat) (acc : Rat)
    (h0 : 0 ≤ acc) (h1 : acc ≤ 1) :
    0 ≤ prodOver net H j ls done acc ∧ prodOver net H j ls done acc ≤ 1 := by
  induction ls generalizing done acc with
  | nil => exact ⟨h0, h1⟩
  | cons l ls ih =>
    unfold prodOver
    split
    · exact ih done acc h0 h1
    · split
      · exact ih done acc h0 h1
      · have hr := readH_unit hH (j, ‹Label›.id)
        exact ih _ _ (mul_nonneg h0 hr.1) (mul_le_one₀ h1 hr.1 hr.2)

theorem newMessage_unit (net : Net) {φ : Rat} {H : HMap Rat} {focal : Nat} {lab : Label}
    (hl : Automated.Simple lab.edges) (hf : focal ∈ motifNodes lab.edges)
    (h0 : 0 ≤ φ) (h1 : φ ≤ 1) (hH : InUnit H) :
    0 ≤ newMessage net φ H focal lab ∧ newMessage net φ H focal lab ≤ 1 := by
  rw [newMessage_eq_finset net φ H hl hf]
  exact Perc.exactE_nonneg_le_one _ _ _ _ _ h0 h1
    (fun v _ => prodOver_unit net hH v _ [] 1 (by norm_num) (by norm_num))

theorem inUnit_set {H : HMap Rat} (hH : InUnit H) (k : Nat × Nat) {v : Rat} (h0 : 0 ≤ v) (h1 : v ≤ 1) :
    InUnit (Dict.set H k v) := by
  intro p hp
  rcases Dict.mem_set H k v p hp with h | h
  · exact hH p h
  · subst h; exact ⟨h0, h1⟩

theorem inUnit_calcH (net : Net) {φ : Rat} {H : HMap Rat} {focal : Nat} {lab : Label}
    (hl : Automated.Simple lab.edges) (hf : focal ∈ motifNodes lab.edges)
    (h0 : 0 ≤ φ) (h1 : φ ≤ 1) (hH : InUnit H) : InUnit (calcH net φ H focal lab) := by
  have := newMessage_unit net hl hf h0 h1 hH
  exact inUnit_set hH _ this.1 this.2

/-- invariants of a left fold whose steps are only taken at members of the list -/
theorem foldl_invariant {α β : Type} (P : β → Prop) (f : β → α → β) (l : List α)
    (hstep : ∀ b, ∀ a ∈ l, P b → P (f b a)) (b : β) (hb : P b) : P (l.foldl f b) := by
  induction l generalizing b with
  | nil => exact hb
  | cons x xs ih =>
    exact ih (fun b a ha => hstep b a (List.mem_cons_of_mem _ ha)) _ (hstep b x List.mem_cons_self hb)

theorem inUnit_init (net : Net) : InUnit (initH net (1/2 : Rat)) := by
  unfold initH
  refine foldl_invariant InUnit _ _ (fun H e _ hH => ?_) [] (by intro p hp; simp at hp)
  exact foldl_invariant InUnit _ _ (fun H k _ hH => inUnit_set hH _ (by norm_num) (by norm_num)) H hH

theorem inUnit_sweep {net : Net} (h : LabelsOk net) {φ : Rat} (h0 : 0 ≤ φ) (h1 : φ ≤ 1) {H : HMap Rat}
    (hH : InUnit H) : InUnit (sweep net φ H) := by
  unfold sweep
  refine foldl_invariant InUnit _ _ (fun H e he hH => ?_) H hH
  obtain ⟨hs, ha, hb⟩ := h e he
  exact inUnit_calcH net hs hb h0 h1 (inUnit_calcH net hs ha h0 h1 hH)

theorem inUnit_sweeps {net : Net} (h : LabelsOk net) {φ : Rat} (h0 : 0 ≤ φ) (h1 : φ ≤ 1) (n : Nat)
    {H : HMap Rat} (hH : InUnit H) : InUnit (sweeps net φ n H) := by
  induction n generalizing H with
  | zero => exact hH
  | succ n ih => exact ih (inUnit_sweep h h0 h1 hH)

theorem foldl_add_bounds (f : Nat → Rat) (l : List Nat) (hf : ∀ i ∈ l, 0 ≤ f i ∧ f i ≤ 1) (a : Rat) :
    a ≤ l.foldl (fun acc i => acc + f i) a ∧ l.foldl (fun acc i => acc + f i) a ≤ a + (l.length : Rat) := by
  induction l generalizing a with
  | nil => simp
  | cons x xs ih =>
    have hx := hf x List.mem_cons_self
    have := ih (fun i hi => hf i (List.mem_cons_of_mem _ hi)) (a + f x)
    simp only [List.foldl_cons, List.length_cons, Nat.cast_add, Nat.cast_one]
    constructor
    · linarith [this.1]
    · linarith [this.2]

theorem outerSum_bounds (net : Net) {H : HMap Rat} (hH : InUnit H) :
    0 ≤ outerSum net H ∧ outerSum net H ≤ (net.nodes.length : Rat) := by
  have := foldl_add_bounds (fun i => prodOver net H i (neighbours net i) [] 1) net.nodes
    (fun i _ => prodOver_unit net hH i _ [] 1 (by norm_num) (by norm_num)) 0
  unfold outerSum
  constructor
  · exact this.1
  · simpa using this.2

theorem length_pos_rat {net : Net} (hN : net.nodes ≠ []) : (0 : Rat) < (net.nodes.length : Rat) := by
  have : 0 < net.nodes.length := List.length_pos_iff.2 hN
  exact_mod_cast this

/-! ### 4. order -/

/-- two message tables with the same keys, pointwise ordered, both in the unit interval -/
def Rel (H' H : HMap Rat) : Prop := HLe H' H ∧ InUnit H' ∧ InUnit H

theorem prodOver_cons_none {net : Net} {H : HMap Rat} {j l : Nat} (ls done : List Nat) (acc : Rat)
    (h : labelOf net j l = none) :
    prodOver net H j (l :: ls) done acc = prodOver net H j ls done acc := by
  rw [prodOver, h]

theorem prodOver_cons_done {net : Net} {H : HMap Rat} {j l : Nat} {lab : Label} (ls : List Nat)
    {done : List Nat} (acc : Rat) (h : labelOf net j l = some lab) (hd : lab.id ∈ done) :
    prodOver net H j (l :: ls) done acc = prodOver net H j ls done acc := by
  rw [prodOver, h]
  simp only [hd, if_true]

theorem prodOver_cons_new {net : Net} {H : HMap Rat} {j l : Nat} {lab : Label} (ls : List Nat)
    {done : List Nat} (acc : Rat) (h : labelOf net j l = some lab) (hd : lab.id ∉ done) :
    prodOver net H j (l :: ls) done acc
      = prodOver net H j ls (lab.id :: done) (acc * readH H (j, lab.id)) := by
  rw [prodOver, h]
  simp only [hd, if_false]

/-- `prodOver` is monotone in the table (non-negative entries) and in the accumulator -/
theorem prodOver_mono (net : Net) {H' H : HMap Rat} (hle : ∀ k, readH H' k ≤ readH H k)
    (h0 : ∀ k, 0 ≤ readH H' k) (j : Nat) (ls done : List Nat) (acc' acc : Rat)
    (ha0 : 0 ≤ acc') (ha : acc' ≤ acc) :
    prodOver net H' j ls done acc' ≤ prodOver net H j ls done acc := by
  induction ls generalizing done acc' acc with
  | nil => exact ha
  | cons l ls ih =>
    cases hlab : labelOf net j l with
    | none =>
      rw [prodOver_cons_none ls done acc' hlab, prodOver_cons_none ls done acc hlab]
      exact ih done acc' acc ha0 ha
    | some lab =>
      by_cases hd : lab.id ∈ done
      · rw [prodOver_cons_done ls acc' hlab hd, prodOver_cons_done ls acc hlab hd]
        exact ih done acc' acc ha0 ha
      · rw [prodOver_cons_new ls acc' hlab hd, prodOver_cons_new ls acc hlab hd]
        exact ih _ _ _ (mul_nonneg ha0 (h0 _))
          (mul_le_mul ha (hle _) (h0 _) (ha0.trans ha))

/-- the new message is antitone in `φ` and monotone in the table -/
theorem newMessage_antitone (net : Net) {φ φ' : Rat} {H' H : HMap Rat} {focal : Nat} {lab : Label}
    (hl : Automated.Simple lab.edges) (hf : focal ∈ motifNodes lab.edges)
    (h0 : 0 ≤ φ) (hle : φ ≤ φ') (h1 : φ' ≤ 1)
    (hHH : ∀ k, readH H' k ≤ readH H k) (hH' : InUnit H') (hH : InUnit H) :
    newMessage net φ' H' focal lab ≤ newMessage net φ H focal lab := by
  rw [newMessage_eq_finset net φ' H' hl hf, newMessage_eq_finset net φ H hl hf]
  exact Perc.exactE_antitone _ _ φ φ' _ _ _ h0 hle h1
    (fun v _ => prodOver_mono net hHH (fun k => (readH_unit hH' k).1) v _ [] 1 1 (by norm_num) le_rfl)
    (fun v _ => (prodOver_unit net hH' v _ [] 1 (by norm_num) (by norm_num)).1)
    (fun v _ => (prodOver_unit net hH v _ [] 1 (by norm_num) (by norm_num)).2)

/-- `Dict.set` with the same key on tables with the same key list gives the same key list -/
theorem keys_set_congr {d' d : HMap Rat} (h : d'.map (·.1) = d.map (·.1)) (k : Nat × Nat) (v' v : Rat) :
    (Dict.set d' k v').map (·.1) = (Dict.set d k v).map (·.1) := by
  change Dict.keys d' = Dict.keys d at h
  change Dict.keys (Dict.set d' k v') = Dict.keys (Dict.set d k v)
  by_cases hk : k ∈ Dict.keys d
  · rw [Dict.keys_set_of_mem d k v hk, Dict.keys_set_of_mem d' k v' (h ▸ hk), h]
  · rw [Dict.keys_set_of_not_mem d k v hk, Dict.keys_set_of_not_mem d' k v' (h ▸ hk), h]

theorem hle_refl (H : HMap Rat) : HLe H H := ⟨rfl, fun _ => le_rfl⟩

theorem rel_refl {H : HMap Rat} (hH : InUnit H) : Rel H H := ⟨hle_refl H, hH, hH⟩

/-- one in-place update preserves the order between the run at `φ'` and the run at `φ ≤ φ'` -/
theorem rel_calcH (net : Net) {φ φ' : Rat} {H' H : HMap Rat} {focal : Nat} {lab : Label}
    (hl : Automated.Simple lab.edges) (hf : focal ∈ motifNodes lab.edges)
    (h0 : 0 ≤ φ) (hle : φ ≤ φ') (h1 : φ' ≤ 1) (hr : Rel H' H) :
    Rel (calcH net φ' H' focal lab) (calcH net φ H focal lab) := by
  obtain ⟨⟨hk, hHH⟩, hH', hH⟩ := hr
  refine ⟨⟨keys_set_congr hk _ _ _, fun k => ?_⟩,
    inUnit_calcH net hl hf (h0.trans hle) h1 hH', inUnit_calcH net hl hf h0 (hle.trans h1) hH⟩
  unfold calcH
  rw [readH_set, readH_set]
  split
  · exact newMessage_antitone net hl hf h0 hle h1 hHH hH' hH
  · exact hHH k

theorem foldl_rel {α β : Type} (P : β → β → Prop) (f g : β → α → β) (l : List α)
    (hstep : ∀ b b', ∀ a ∈ l, P b b' → P (f b a) (g b' a)) (b b' : β) (h : P b b') :
    P (l.foldl f b) (l.foldl g b') := by
  induction l generalizing b b' with
  | nil => exact h
  | cons x xs ih =>
    exact ih (fun b b' a ha => hstep b b' a (List.mem_cons_of_mem _ ha)) _ _
      (hstep b b' x List.mem_cons_self h)

theorem rel_sweep {net : Net} (h : LabelsOk net) {φ φ' : Rat} (h0 : 0 ≤ φ) (hle : φ ≤ φ') (h1 : φ' ≤ 1)
    {H' H : HMap Rat} (hr : Rel H' H) : Rel (sweep net φ' H') (sweep net φ H) := by
  unfold sweep
  refine foldl_rel Rel _ _ _ (fun b b' e he hb => ?_) H' H hr
  obtain ⟨hs, ha, hb'⟩ := h e he
  exact rel_calcH net hs hb' h0 hle h1 (rel_calcH net hs ha h0 hle h1 hb)

theorem rel_sweeps {net : Net} (h : LabelsOk net) {φ φ' : Rat} (h0 : 0 ≤ φ) (hle : φ ≤ φ') (h1 : φ' ≤ 1)
    (n : Nat) {H' H : HMap Rat} (hr : Rel H' H) : Rel (sweeps net φ' n H') (sweeps net φ n H) := by
  induction n generalizing H' H with
  | zero => exact hr
  | succ n ih => exact ih (rel_sweep h h0 hle h1 hr)

theorem foldl_add_mono (f' f : Nat → Rat) (l : List Nat) (hf : ∀ i ∈ l, f' i ≤ f i) (a' a : Rat) (ha : a' ≤ a) :
    l.foldl (fun acc i => acc + f' i) a' ≤ l.foldl (fun acc i => acc + f i) a := by
  induction l generalizing a' a with
  | nil => exact ha
  | cons x xs ih =>
    exact ih (fun i hi => hf i (List.mem_cons_of_mem _ hi)) _ _
      (add_le_add ha (hf x List.mem_cons_self))

theorem outerSum_mono (net : Net) {H' H : HMap Rat} (hr : Rel H' H) : outerSum net H' ≤ outerSum net H := by
  unfold outerSum
  exact foldl_add_mono _ _ _
    (fun i _ => prodOver_mono net hr.1.2 (fun k => (readH_unit hr.2.1 k).1) i _ [] 1 1 (by norm_num) le_rfl)
    0 0 le_rfl

/-! ### 5. `φ = 0` -/

theorem newMessage_at_zero (net : Net) (H : HMap Rat) {focal : Nat} {lab : Label}
    (hl : Automated.Simple lab.edges) (hf : focal ∈ motifNodes lab.edges) :
    newMessage net 0 H focal lab = 1 := by
  unfold newMessage
  exact automated_at_zero ⟨motifNodes lab.edges, lab.edges⟩ (motifNodes_wf _) hl hf _

theorem calcH_zero_read (net : Net) (H : HMap Rat) {focal : Nat} {lab : Label}
    (hl : Automated.Simple lab.edges) (hf : focal ∈ motifNodes lab.edges) (k : Nat × Nat) :
    readH (calcH net 0 H focal lab) k = if (focal, lab.id) = k then 1 else readH H k := by
  unfold calcH
  rw [readH_set, newMessage_at_zero net H hl hf]

/-- a run of in-place updates at `φ = 0` leaves every key that read 1 at 1 and sets the keys it touches to 1 -/
theorem foldl_zero_ones (net : Net) (l : List (Nat × Nat × Label))
    (hl : ∀ e ∈ l, Automated.Simple e.2.2.edges ∧ e.1 ∈ motifNodes e.2.2.edges ∧ e.2.1 ∈ motifNodes e.2.2.edges)
    (H : HMap Rat) (k : Nat × Nat)
    (hk : readH H k = 1 ∨ ∃ e ∈ l, k = (e.1, e.2.2.id) ∨ k = (e.2.1, e.2.2.id)) :
    readH (l.foldl (fun H e => calcH net 0 (calcH net 0 H e.1 e.2.2) e.2.1 e.2.2) H) k = 1 := by
  induction l generalizing H with
  | nil =>
    rcases hk with hk | ⟨e, he, _⟩
    · exact hk
    · simp at he
  | cons x xs ih =>
    obtain ⟨hs, ha, hb⟩ := hl x List.mem_cons_self
    rw [List.foldl_cons]
    apply ih (fun e he => hl e (List.mem_cons_of_mem _ he))
    have hread : readH (calcH net 0 (calcH net 0 H x.1 x.2.2) x.2.1 x.2.2) k
        = if (x.2.1, x.2.2.id) = k then 1 else if (x.1, x.2.2.id) = k then 1 else readH H k := by
      rw [calcH_zero_read net _ hs hb, calcH_zero_read net _ hs ha]
    rcases hk with hk | ⟨e, he, hke⟩
    · left; rw [hread, hk]; simp
    · rcases List.mem_cons.1 he with rfl | he'
      · left
        rw [hread]
        rcases hke with rfl | rfl
        · simp
        · simp
      · exact Or.inr ⟨e, he', hke⟩

/-- the keys read by `outerSum`: `(end point, motif id)` of the network's labelled edges -/
def EdgeKey (net : Net) (k : Nat × Nat) : Prop :=
  ∃ e ∈ net.edges, k = (e.1, e.2.2.id) ∨ k = (e.2.1, e.2.2.id)

theorem sweep_zero_ones {net : Net} (h : LabelsOk net) (H : HMap Rat) (k : Nat × Nat)
    (hk : readH H k = 1 ∨ EdgeKey net k) : readH (sweep net 0 H) k = 1 :=
  foldl_zero_ones net net.edges h H k hk

theorem sweeps_zero_preserve {net : Net} (h : LabelsOk net) (n : Nat) (H : HMap Rat) (k : Nat × Nat)
    (hk : readH H k = 1) : readH (sweeps net 0 n H) k = 1 := by
  induction n generalizing H with
  | zero => exact hk
  | succ n ih => exact ih _ (sweep_zero_ones h H k (Or.inl hk))

theorem sweeps_zero_ones {net : Net} (h : LabelsOk net) {n : Nat} (hn : 1 ≤ n) (H : HMap Rat) (k : Nat × Nat)
    (hk : EdgeKey net k) : readH (sweeps net 0 n H) k = 1 := by
  obtain ⟨m, rfl⟩ : ∃ m, n = m + 1 := ⟨n - 1, by omega⟩
  exact sweeps_zero_preserve h m _ k (sweep_zero_ones h H k (Or.inr hk))

theorem labelOf_some {net : Net} {j l : Nat} {lab : Label} (h : labelOf net j l = some lab) :
    ∃ e ∈ net.edges, e.2.2 = lab ∧ ((e.1 = j ∧ e.2.1 = l) ∨ (e.1 = l ∧ e.2.1 = j)) := by
  unfold labelOf at h
  rw [Option.map_eq_some_iff] at h
  obtain ⟨e, he, rfl⟩ := h
  refine ⟨e, List.mem_of_find?_eq_some he, rfl, ?_⟩
  simpa using List.find?_some he

theorem edgeKey_of_labelOf {net : Net} {j l : Nat} {lab : Label} (h : labelOf net j l = some lab) :
    EdgeKey net (j, lab.id) := by
  obtain ⟨e, he, rfl, h | h⟩ := labelOf_some h
  · exact ⟨e, he, Or.inl (by rw [h.1])⟩
  · exact ⟨e, he, Or.inr (by rw [h.2])⟩

theorem prodOver_of_ones (net : Net) {H : HMap Rat} (hH : ∀ k, EdgeKey net k → readH H k = 1)
    (j : Nat) (ls done : List Nat) (acc : Rat) : prodOver net H j ls done acc = acc := by
  induction ls generalizing done acc with
  | nil => rfl
  | cons l ls ih =>
    cases hlab : labelOf net j l with
    | none => rw [prodOver_cons_none ls done acc hlab]; exact ih done acc
    | some lab =>
      by_cases hd : lab.id ∈ done
      · rw [prodOver_cons_done ls acc hlab hd]; exact ih done acc
      · rw [prodOver_cons_new ls acc hlab hd, ih, hH _ (edgeKey_of_labelOf hlab), mul_one]

theorem foldl_add_one (l : List Nat) (f : Nat → Rat) (hf : ∀ i ∈ l, f i = 1) (a : Rat) :
    l.foldl (fun acc i => acc + f i) a = a + (l.length : Rat) := by
  induction l generalizing a with
  | nil => simp
  | cons x xs ih =>
    rw [List.foldl_cons, ih (fun i hi => hf i (List.mem_cons_of_mem _ hi)), hf x List.mem_cons_self]
    simp only [List.length_cons, Nat.cast_add, Nat.cast_one]
    ring

theorem outerSum_of_ones (net : Net) {H : HMap Rat} (hH : ∀ k, EdgeKey net k → readH H k = 1) :
    outerSum net H = (net.nodes.length : Rat) := by
  unfold outerSum
  rw [foldl_add_one _ _ (fun i _ => prodOver_of_ones net hH i _ [] 1)]
  simp

/-! ### 7. what the neighbour product ranges over -/

/-- the cover labels describe the network -/
structure Consistent (net : Net) : Prop where
  /-- every labelled edge of the network is one of its motif's edges, up to orientation -/
  edge_in_motif : ∀ e ∈ net.edges, (e.1, e.2.1) ∈ e.2.2.edges ∨ (e.2.1, e.1) ∈ e.2.2.edges
  /-- `lab.verts` lists exactly the vertices of `lab.edges` -/
  verts_eq : ∀ e ∈ net.edges, ∀ v, v ∈ e.2.2.verts ↔ v ∈ motifNodes e.2.2.edges
  /-- every motif edge is an edge of the network carrying the same label -/
  motif_in_net : ∀ e ∈ net.edges, ∀ m ∈ e.2.2.edges,
    (m.1, m.2, e.2.2) ∈ net.edges ∨ (m.2, m.1, e.2.2) ∈ net.edges
  /-- labels with equal id are equal -/
  id_inj : ∀ e ∈ net.edges, ∀ e' ∈ net.edges, e.2.2.id = e'.2.2.id → e.2.2 = e'.2.2

/-- `Consistent` from conditions that quantify over list members only (decidable on a concrete network) -/
theorem consistent_of_bounded {net : Net}
    (h1 : ∀ e ∈ net.edges, (e.1, e.2.1) ∈ e.2.2.edges ∨ (e.2.1, e.1) ∈ e.2.2.edges)
    (h2 : ∀ e ∈ net.edges, ∀ v ∈ e.2.2.verts, v ∈ motifNodes e.2.2.edges)
    (h2' : ∀ e ∈ net.edges, ∀ v ∈ motifNodes e.2.2.edges, v ∈ e.2.2.verts)
    (h3 : ∀ e ∈ net.edges, ∀ m ∈ e.2.2.edges,
      (m.1, m.2, e.2.2) ∈ net.edges ∨ (m.2, m.1, e.2.2) ∈ net.edges)
    (h4 : ∀ e ∈ net.edges, ∀ e' ∈ net.edges, e.2.2.id = e'.2.2.id → e.2.2 = e'.2.2) : Consistent net :=
  ⟨h1, fun e he v => ⟨h2 e he v, h2' e he v⟩, h3, h4⟩

/-- two distinct motifs share at most one vertex (edge-disjoint cover of a simple graph) -/
def ShareAtMostOne (net : Net) : Prop :=
  ∀ e ∈ net.edges, ∀ e' ∈ net.edges, ∀ a b, a ≠ b → a ∈ e.2.2.verts → b ∈ e.2.2.verts →
    a ∈ e'.2.2.verts → b ∈ e'.2.2.verts → e.2.2 = e'.2.2

/-- the bounded (decidable) form of `ShareAtMostOne` -/
theorem shareAtMostOne_of_bounded {net : Net}
    (h : ∀ e ∈ net.edges, ∀ e' ∈ net.edges, ∀ a ∈ e.2.2.verts, ∀ b ∈ e.2.2.verts, a ≠ b →
      a ∈ e'.2.2.verts → b ∈ e'.2.2.verts → e.2.2 = e'.2.2) : ShareAtMostOne net :=
  fun e he e' he' a b hab ha hb ha' hb' => h e he e' he' a ha b hb hab ha' hb'

/-- ids of the motifs met along the neighbour list `ls` of `j` -/
def idsOf (net : Net) (j : Nat) (ls : List Nat) : List Nat :=
  ls.filterMap fun l => (labelOf net j l).map (·.id)

/-- ids of the motifs that contain an edge at `j` -/
def motifIdsAt (net : Net) (j : Nat) : List Nat :=
  (net.edges.filter fun e => e.1 = j ∨ e.2.1 = j).map (·.2.2.id)

/-- `prodOver` multiplies the accumulator by one factor per distinct, not yet done, motif id met -/
theorem prodOver_eq_prod (net : Net) (H : HMap Rat) (j : Nat) (ls done : List Nat) (acc : Rat) :
    prodOver net H j ls done acc
      = acc * ∏ id ∈ (idsOf net j ls).toFinset \ done.toFinset, readH H (j, id) := by
  induction ls generalizing done acc with
  | nil => simp [prodOver, idsOf]
  | cons l ls ih =>
    cases hlab : labelOf net j l with
    | none =>
      rw [prodOver_cons_none ls done acc hlab, ih]
      simp [idsOf, hlab]
    | some lab =>
      have hids : idsOf net j (l :: ls) = lab.id :: idsOf net j ls := by simp [idsOf, hlab]
      by_cases hd : lab.id ∈ done
      · rw [prodOver_cons_done ls acc hlab hd, ih, hids, List.toFinset_cons,
          Finset.insert_sdiff_of_mem _ (List.mem_toFinset.2 hd)]
      · rw [prodOver_cons_new ls acc hlab hd, ih, hids]
        have hset : (lab.id :: idsOf net j ls).toFinset \ done.toFinset
            = insert lab.id ((idsOf net j ls).toFinset \ (lab.id :: done).toFinset) := by
          ext x
          simp only [List.toFinset_cons, Finset.mem_sdiff, Finset.mem_insert, List.mem_toFinset]
          constructor
          · rintro ⟨hx | hx, hxd⟩
            · exact Or.inl hx
            · by_cases hxl : x = lab.id
              · exact Or.inl hxl
              · exact Or.inr ⟨hx, fun h => h.elim hxl hxd⟩
          · rintro (rfl | ⟨hx, hxd⟩)
            · exact ⟨Or.inl rfl, hd⟩
            · exact ⟨Or.inr hx, fun h => hxd (Or.inr h)⟩
        have hnot : lab.id ∉ (idsOf net j ls).toFinset \ (lab.id :: done).toFinset := by
          simp
        rw [hset, Finset.prod_insert hnot, mul_assoc]

theorem labelOf_isSome_of_edge {net : Net} {e : Nat × Nat × Label} (he : e ∈ net.edges) {j l : Nat}
    (hjl : (e.1 = j ∧ e.2.1 = l) ∨ (e.1 = l ∧ e.2.1 = j)) : ∃ lab, labelOf net j l = some lab := by
  unfold labelOf
  cases hf : net.edges.find? fun e => (e.1 = j ∧ e.2.1 = l) ∨ (e.1 = l ∧ e.2.1 = j) with
  | some x => exact ⟨_, rfl⟩
  | none =>
    rw [List.find?_eq_none] at hf
    exact absurd (by simpa using hjl) (hf e he)

theorem mem_neighbours {net : Net} {j l : Nat} :
    l ∈ neighbours net j ↔ ∃ e ∈ net.edges, (e.1 = j ∧ e.2.1 = l) ∨ (e.1 = l ∧ e.2.1 = j) := by
  unfold neighbours
  rw [mem_dedup, mem_nbrs]
  unfold Graph.Adj
  simp only [List.mem_map, Prod.mk.injEq]
  constructor
  · rintro (⟨e, he, h1, h2⟩ | ⟨e, he, h1, h2⟩)
    · exact ⟨e, he, Or.inl ⟨h1, h2⟩⟩
    · exact ⟨e, he, Or.inr ⟨h1, h2⟩⟩
  · rintro ⟨e, he, ⟨h1, h2⟩ | ⟨h1, h2⟩⟩
    · exact Or.inl ⟨e, he, h1, h2⟩
    · exact Or.inr ⟨e, he, h1, h2⟩

theorem ends_in_verts {net : Net} (hc : Consistent net) {e : Nat × Nat × Label} (he : e ∈ net.edges) :
    e.1 ∈ e.2.2.verts ∧ e.2.1 ∈ e.2.2.verts := by
  rw [hc.verts_eq e he, hc.verts_eq e he, mem_motifNodes, mem_motifNodes]
  rcases hc.edge_in_motif e he with h | h
  · exact ⟨⟨_, h, Or.inl rfl⟩, ⟨_, h, Or.inr rfl⟩⟩
  · exact ⟨⟨_, h, Or.inr rfl⟩, ⟨_, h, Or.inl rfl⟩⟩

theorem ends_ne {net : Net} (hc : Consistent net) (h : LabelsOk net) {e : Nat × Nat × Label}
    (he : e ∈ net.edges) : e.1 ≠ e.2.1 := by
  obtain ⟨⟨_, hloop, _⟩, _, _⟩ := h e he
  rcases hc.edge_in_motif e he with h' | h'
  · exact hloop _ h'
  · exact fun e' => hloop _ h' e'.symm

/-- **the neighbour product is the product over the other motifs of `j`**: on a consistent network whose
motifs pairwise share at most one vertex, the inner product that `calculate_H_tau` forms for a member `j`
of the motif `e.2.2` is `∏ H[(j, id)]` over the ids of the motifs at `j` other than this one -/
theorem prodOver_other_motifs {net : Net} (hc : Consistent net) (h : LabelsOk net)
    (hd : ShareAtMostOne net) (H : HMap Rat) {e : Nat × Nat × Label} (he : e ∈ net.edges) {j : Nat}
    (hj : j ∈ e.2.2.verts) :
    prodOver net H j ((neighbours net j).filter fun l => l ∉ e.2.2.verts) [] 1
      = ∏ id ∈ (motifIdsAt net j).toFinset.erase e.2.2.id, readH H (j, id) := by
  rw [prodOver_eq_prod, one_mul]
  congr 1
  ext id
  simp only [List.toFinset_nil, Finset.sdiff_empty, List.mem_toFinset, Finset.mem_erase]
  unfold idsOf motifIdsAt
  simp only [List.mem_filterMap, List.mem_filter, decide_eq_true_eq, Option.map_eq_some_iff,
    List.mem_map]
  constructor
  · rintro ⟨l, ⟨hl, hlv⟩, lab', hlab', rfl⟩
    obtain ⟨e', he', rfl, hends⟩ := labelOf_some hlab'
    have hv := ends_in_verts hc he'
    refine ⟨fun hid => hlv ?_, e', ⟨he', ?_⟩, rfl⟩
    · have : e'.2.2 = e.2.2 := hc.id_inj e' he' e he hid
      rw [← this]
      rcases hends with hh | hh
      · exact hh.2 ▸ hv.2
      · exact hh.1 ▸ hv.1
    · rcases hends with hh | hh
      · exact Or.inl hh.1
      · exact Or.inr hh.2
  · rintro ⟨hid, e', ⟨he', hj'⟩, rfl⟩
    have hv := ends_in_verts hc he'
    have hne := ends_ne hc h he'
    -- the other end point of `e'`
    obtain ⟨l, hends, hjl⟩ : ∃ l, ((e'.1 = j ∧ e'.2.1 = l) ∨ (e'.1 = l ∧ e'.2.1 = j)) ∧ j ≠ l := by
      rcases hj' with hj' | hj'
      · exact ⟨e'.2.1, Or.inl ⟨hj', rfl⟩, hj' ▸ hne⟩
      · exact ⟨e'.1, Or.inr ⟨rfl, hj'⟩, hj' ▸ hne.symm⟩
    have hjv : j ∈ e'.2.2.verts := by
      rcases hends with hh | hh
      · exact hh.1 ▸ hv.1
      · exact hh.2 ▸ hv.2
    have hlv : l ∈ e'.2.2.verts := by
      rcases hends with hh | hh
      · exact hh.2 ▸ hv.2
      · exact hh.1 ▸ hv.1
    obtain ⟨lab'', hlab''⟩ := labelOf_isSome_of_edge he' hends
    obtain ⟨e'', he'', rfl, hends''⟩ := labelOf_some hlab''
    have hv'' := ends_in_verts hc he''
    have hjv'' : j ∈ e''.2.2.verts := by
      rcases hends'' with hh | hh
      · exact hh.1 ▸ hv''.1
      · exact hh.2 ▸ hv''.2
    have hlv'' : l ∈ e''.2.2.verts := by
      rcases hends'' with hh | hh
      · exact hh.2 ▸ hv''.2
      · exact hh.1 ▸ hv''.1
    have hsame : e'.2.2 = e''.2.2 := hd e' he' e'' he'' j l hjl hjv hlv hjv'' hlv''
    refine ⟨l, ⟨mem_neighbours.2 ⟨e', he', hends⟩, fun hlin => hid ?_⟩, e''.2.2, hlab'', by rw [hsame]⟩
    have : e'.2.2 = e.2.2 := hd e' he' e he j l hjl hjv hlv hj hlin
    rw [this]

/-- on a consistent network the motifs with an edge at `j` are exactly the motifs that list `j` as a member -/
theorem mem_motifIdsAt {net : Net} (hc : Consistent net) {j id : Nat} :
    id ∈ motifIdsAt net j ↔ ∃ e ∈ net.edges, j ∈ e.2.2.verts ∧ e.2.2.id = id := by
  unfold motifIdsAt
  simp only [List.mem_map, List.mem_filter, decide_eq_true_eq]
  constructor
  · rintro ⟨e, ⟨he, hj | hj⟩, rfl⟩
    · exact ⟨e, he, hj ▸ (ends_in_verts hc he).1, rfl⟩
    · exact ⟨e, he, hj ▸ (ends_in_verts hc he).2, rfl⟩
  · rintro ⟨e, he, hj, rfl⟩
    rw [hc.verts_eq e he, mem_motifNodes] at hj
    obtain ⟨m, hm, hjm⟩ := hj
    rcases hc.motif_in_net e he m hm with h | h
    · refine ⟨_, ⟨h, ?_⟩, rfl⟩
      rcases hjm with rfl | rfl
      · exact Or.inl rfl
      · exact Or.inr rfl
    · refine ⟨_, ⟨h, ?_⟩, rfl⟩
      rcases hjm with rfl | rfl
      · exact Or.inr rfl
      · exact Or.inl rfl

end Gcmpy.MessagePassing
