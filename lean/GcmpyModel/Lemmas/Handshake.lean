import GcmpyModel.Model.Handshake
/-! Lemmas about the handshaking-lemma repair (`bump`, `patchCol`, `patchAll`). -/
namespace Gcmpy.Handshake
open Gcmpy.Generate

/-- entry `i` of row `v` (0 outside the sequence) -/
def deg (jds : List (List Nat)) (v i : Nat) : Nat := (jds.getD v []).getD i 0

/-- all rows have length `T` -/
def Rect (jds : List (List Nat)) (T : Nat) : Prop := ∀ r ∈ jds, r.length = T

/-! ### basic facts -/

theorem colSum_nil (k : Nat) : colSum [] k = 0 := rfl

theorem colSum_cons (r : List Nat) (rs : List (List Nat)) (k : Nat) :
    colSum (r :: rs) k = r.getD k 0 + colSum rs k := by
  simp [colSum]

theorem deg_cons_zero (r : List Nat) (rs : List (List Nat)) (i : Nat) :
    deg (r :: rs) 0 i = r.getD i 0 := by
  simp [deg]

theorem deg_cons_succ (r : List Nat) (rs : List (List Nat)) (v i : Nat) :
    deg (r :: rs) (v + 1) i = deg rs v i := by
  simp [deg]

theorem rect_cons {r : List Nat} {rs : List (List Nat)} {T : Nat} :
    Rect (r :: rs) T ↔ r.length = T ∧ Rect rs T := by
  simp [Rect]

theorem ncols_of_rect (jds : List (List Nat)) (T : Nat) (hR : Rect jds T) (hN : jds ≠ []) :
    ncols jds = T := by
  induction jds with
  | nil => exact absurd rfl hN
  | cons r rs ih =>
    rcases rect_cons.1 hR with ⟨h1, h2⟩
    cases rs with
    | nil => simpa [ncols] using h1
    | cons r' rs' =>
      have := ih h2 (by simp)
      simp only [ncols] at this ⊢
      omega

/-- column sums are monotone under pointwise `≤` (equal lengths) -/
theorem colSum_mono (jds jds' : List (List Nat)) (hlen : jds'.length = jds.length)
    (hle : ∀ v i, deg jds v i ≤ deg jds' v i) (i : Nat) : colSum jds i ≤ colSum jds' i := by
  induction jds generalizing jds' with
  | nil => simp [colSum_nil]
  | cons r rs ih =>
    cases jds' with
    | nil => simp at hlen
    | cons r' rs' =>
      have h0 := hle 0 i
      rw [deg_cons_zero, deg_cons_zero] at h0
      have h1 := ih rs' (by simpa using hlen) (fun v k => by
        have := hle (v + 1) k
        rwa [deg_cons_succ, deg_cons_succ] at this)
      rw [colSum_cons, colSum_cons]; omega

/-! ### `bump` -/

theorem length_bump (jds : List (List Nat)) (j i : Nat) : (bump jds j i).length = jds.length := by
  simp [bump]

theorem rect_bump (jds : List (List Nat)) (T j i : Nat) (hR : Rect jds T) : Rect (bump jds j i) T := by
  intro r hr
  unfold bump at hr
  rcases List.getElem_of_mem hr with ⟨n, hn, rfl⟩
  rw [List.getElem_modify]
  simp only [List.length_modify] at hn
  split
  · rw [List.length_modify]; exact hR _ (List.getElem_mem _)
  · exact hR _ (List.getElem_mem _)

theorem getD_modify_succ (r : List Nat) (i k : Nat) :
    (r.modify i (· + 1)).getD k 0 = r.getD k 0 + if k = i ∧ i < r.length then 1 else 0 := by
  simp only [List.getD_eq_getElem?_getD, List.getElem?_modify]
  by_cases h : i = k
  · subst h
    by_cases h2 : i < r.length
    · simp [h2]
    · simp [h2]
  · have : ¬ (k = i ∧ i < r.length) := fun h' => h h'.1.symm
    simp [h, this]

theorem deg_bump (jds : List (List Nat)) (j i v i' : Nat) :
    deg (bump jds j i) v i' =
      deg jds v i' + if v = j ∧ i' = i ∧ j < jds.length ∧ i < (jds.getD j []).length then 1 else 0 := by
  unfold deg bump
  by_cases h : j = v
  · subst h
    by_cases h2 : j < jds.length
    · have e : (jds.modify j fun r => r.modify i (· + 1)).getD j [] = (jds.getD j []).modify i (· + 1) := by
        simp [List.getD_eq_getElem?_getD, h2]
      rw [e, getD_modify_succ]
      simp [h2]
    · have e : (jds.modify j fun r => r.modify i (· + 1)).getD j [] = jds.getD j [] := by
        simp [List.getD_eq_getElem?_getD, List.getElem?_eq_none (Nat.le_of_not_lt h2)]
      rw [e]; simp [h2]
  · have e : (jds.modify j fun r => r.modify i (· + 1)).getD v [] = jds.getD v [] := by
      simp [List.getD_eq_getElem?_getD, h]
    have : ¬ (v = j ∧ i' = i ∧ j < jds.length ∧ i < (jds.getD j []).length) := fun h' => h h'.1.symm
    rw [e, if_neg this]; rfl

theorem deg_le_bump (jds : List (List Nat)) (j i v i' : Nat) : deg jds v i' ≤ deg (bump jds j i) v i' := by
  rw [deg_bump]; omega

theorem colSum_bump (jds : List (List Nat)) (j i i' : Nat) :
    colSum (bump jds j i) i' =
      colSum jds i' + if i' = i ∧ j < jds.length ∧ i < (jds.getD j []).length then 1 else 0 := by
  induction jds generalizing j with
  | nil => simp [bump, colSum_nil]
  | cons r rs ih =>
    cases j with
    | zero =>
      have : bump (r :: rs) 0 i = r.modify i (· + 1) :: rs := by simp [bump]
      rw [this, colSum_cons, colSum_cons, getD_modify_succ]
      simp only [List.length_cons, List.getD_cons_zero, Nat.zero_lt_succ, true_and]
      omega
    | succ j =>
      have : bump (r :: rs) (j + 1) i = r :: bump rs j i := by simp [bump]
      rw [this, colSum_cons, colSum_cons, ih]
      simp only [List.length_cons, List.getD_cons_succ, Nat.add_lt_add_iff_right]
      omega

/-- bumping an in-range row of a rectangular sequence adds exactly one stub to column `i` -/
theorem colSum_bump_rect (jds : List (List Nat)) (T j i i' : Nat) (hR : Rect jds T) (hj : j < jds.length)
    (hi : i < T) : colSum (bump jds j i) i' = colSum jds i' + if i' = i then 1 else 0 := by
  have : (jds.getD j []).length = T := by
    rw [List.getD_eq_getElem?_getD, List.getElem?_eq_getElem hj]
    exact hR _ (List.getElem_mem _)
  rw [colSum_bump, this]
  simp [hj, hi]

/-! ### `need` -/

theorem need_eq (s n : Nat) (hs : 0 < s) : need s n = (s - n % s) % s := by
  unfold need
  have := Nat.mod_lt n hs
  split
  · exact (Nat.mod_eq_of_lt (by omega)).symm
  · have h0 : n % s = 0 := by omega
    rw [h0]; simp

theorem need_lt (s n : Nat) (hs : 0 < s) : need s n < s := by
  rw [need_eq s n hs]; exact Nat.mod_lt _ hs

theorem need_of_dvd (s n : Nat) (h : s ∣ n) : need s n = 0 := by
  unfold need
  simp [Nat.mod_eq_zero_of_dvd h]

theorem dvd_add_need (s n : Nat) (hs : 0 < s) : s ∣ n + need s n := by
  unfold need
  have hlt := Nat.mod_lt n hs
  have hdiv := Nat.mod_add_div n s
  split
  · refine ⟨n / s + 1, ?_⟩
    rw [Nat.mul_add, Nat.mul_one]; omega
  · refine ⟨n / s, ?_⟩
    omega

/-- `n + need s n` is the least multiple of `s` that is `≥ n` -/
theorem add_need_le (s n m : Nat) (hs : 0 < s) (hnm : n ≤ m) (hd : s ∣ m) : n + need s n ≤ m := by
  unfold need
  have hlt := Nat.mod_lt n hs
  have hdiv := Nat.mod_add_div n s
  rcases hd with ⟨q, rfl⟩
  split
  · have hq : n / s < q := by
      rcases Nat.lt_or_ge (n / s) q with h | h
      · exact h
      · have := Nat.mul_le_mul_left s h
        omega
    have := Nat.mul_le_mul_left s (Nat.succ_le_of_lt hq)
    rw [Nat.mul_succ] at this
    omega
  · omega

/-! ### `patchCol` -/

theorem patchCol_snd (i n : Nat) (jds : List (List Nat)) (picks : List Nat) :
    (patchCol i n jds picks).2 = picks.drop n := by
  induction n generalizing jds picks with
  | zero => simp [patchCol]
  | succ n ih =>
    rw [patchCol, ih]
    cases picks <;> simp

theorem headD_lt (jds : List (List Nat)) (picks : List Nat) (hN : jds ≠ [])
    (hp : ∀ p ∈ picks, p < jds.length) : picks.headD 0 < jds.length := by
  cases picks with
  | nil => exact List.length_pos_iff.2 hN
  | cons p ps => exact hp p (by simp)

theorem patchCol_spec (T i n : Nat) (jds : List (List Nat)) (picks : List Nat) (hR : Rect jds T)
    (hN : jds ≠ []) (hp : ∀ p ∈ picks, p < jds.length) (hi : i < T) :
    (patchCol i n jds picks).1.length = jds.length ∧ Rect (patchCol i n jds picks).1 T ∧
    (∀ v k, deg jds v k ≤ deg (patchCol i n jds picks).1 v k) ∧
    (∀ k, colSum (patchCol i n jds picks).1 k = colSum jds k + if k = i then n else 0) := by
  induction n generalizing jds picks with
  | zero => simp [patchCol, hR]
  | succ n ih =>
    rw [patchCol]
    have hj := headD_lt jds picks hN hp
    have hlen := length_bump jds (picks.headD 0) i
    have hN' : bump jds (picks.headD 0) i ≠ [] := by
      intro e; rw [e] at hlen; exact hN (List.length_eq_zero_iff.1 hlen.symm)
    have hp' : ∀ p ∈ picks.tail, p < (bump jds (picks.headD 0) i).length := by
      intro p hp1; rw [hlen]; exact hp p (List.mem_of_mem_tail hp1)
    rcases ih (bump jds (picks.headD 0) i) picks.tail (rect_bump jds T _ i hR) hN' hp' with ⟨h1, h2, h3, h4⟩
    refine ⟨by rw [h1, hlen], h2, fun v k => Nat.le_trans (deg_le_bump jds _ i v k) (h3 v k), fun k => ?_⟩
    rw [h4, colSum_bump_rect jds T _ i k hR hj hi]
    split <;> omega

/-! ### `patchAll` -/

theorem patchAll_snd (sizes : List Nat) (l : List (Nat × Nat)) (jds : List (List Nat)) (picks : List Nat) :
    (patchAll sizes l jds picks).2 = picks.drop (l.map fun p => need (sizes.getD p.2 0) p.1).sum := by
  induction l generalizing jds picks with
  | nil => simp [patchAll]
  | cons p r ih =>
    rcases p with ⟨ntop, i⟩
    simp only [patchAll]
    rw [ih, patchCol_snd, List.drop_drop]
    simp

theorem patchAll_spec (sizes : List Nat) (T : Nat) (l : List (Nat × Nat)) (jds : List (List Nat))
    (picks : List Nat) (hR : Rect jds T) (hN : jds ≠ []) (hp : ∀ p ∈ picks, p < jds.length)
    (hl : ∀ p ∈ l, p.2 < T ∧ p.1 = colSum jds p.2) (hnd : (l.map (·.2)).Nodup) :
    (patchAll sizes l jds picks).1.length = jds.length ∧ Rect (patchAll sizes l jds picks).1 T ∧
    (∀ v k, deg jds v k ≤ deg (patchAll sizes l jds picks).1 v k) ∧
    (∀ k, colSum (patchAll sizes l jds picks).1 k =
      colSum jds k + if k ∈ l.map (·.2) then need (sizes.getD k 0) (colSum jds k) else 0) := by
  induction l generalizing jds picks with
  | nil => simp [patchAll, hR]
  | cons p r ih =>
    rcases p with ⟨ntop, i⟩
    simp only [patchAll]
    have hhd := hl (ntop, i) (by simp)
    simp only at hhd
    rcases hhd with ⟨hi, hntop⟩
    rcases patchCol_spec T i (need (sizes.getD i 0) ntop) jds picks hR hN hp hi with ⟨c1, c2, c3, c4⟩
    have hsnd := patchCol_snd i (need (sizes.getD i 0) ntop) jds picks
    simp only [List.map_cons, List.nodup_cons] at hnd
    rcases hnd with ⟨hnotin, hnd'⟩
    have hN' : (patchCol i (need (sizes.getD i 0) ntop) jds picks).1 ≠ [] := by
      intro e; rw [e] at c1; exact hN (List.length_eq_zero_iff.1 c1.symm)
    have hp' : ∀ p ∈ (patchCol i (need (sizes.getD i 0) ntop) jds picks).2,
        p < (patchCol i (need (sizes.getD i 0) ntop) jds picks).1.length := by
      intro p hp1; rw [c1]; rw [hsnd] at hp1; exact hp p (List.mem_of_mem_drop hp1)
    have hl' : ∀ p ∈ r, p.2 < T ∧ p.1 = colSum (patchCol i (need (sizes.getD i 0) ntop) jds picks).1 p.2 := by
      intro p hpr
      have := hl p (List.mem_cons_of_mem _ hpr)
      refine ⟨this.1, ?_⟩
      have hne : p.2 ≠ i := by
        intro e; apply hnotin; rw [← e]; exact List.mem_map.2 ⟨p, hpr, rfl⟩
      rw [c4, if_neg hne, this.2]; rfl
    rcases ih _ _ c2 hN' hp' hl' hnd' with ⟨d1, d2, d3, d4⟩
    refine ⟨by rw [d1, c1], d2, fun v k => Nat.le_trans (c3 v k) (d3 v k), fun k => ?_⟩
    rw [d4, c4]
    by_cases hk : k = i
    · subst hk
      simp [hnotin, hntop]
    · have hiff : k ∈ List.map (·.2) ((ntop, i) :: r) ↔ k ∈ List.map (·.2) r := by
        rw [List.map_cons, List.mem_cons]
        exact ⟨fun h => h.resolve_left hk, Or.inr⟩
      rw [if_neg hk]
      by_cases hm : k ∈ List.map (·.2) r
      · rw [if_pos hm, if_pos (hiff.2 hm)]; rfl
      · rw [if_neg hm, if_neg (fun h => hm (hiff.1 h))]

/-- nothing to repair: the sequence and the picks come back unchanged -/
theorem patchAll_noop (sizes : List Nat) (l : List (Nat × Nat)) (jds : List (List Nat)) (picks : List Nat)
    (h : ∀ p ∈ l, need (sizes.getD p.2 0) p.1 = 0) : patchAll sizes l jds picks = (jds, picks) := by
  induction l with
  | nil => rfl
  | cons p r ih =>
    rcases p with ⟨ntop, i⟩
    have h0 := h (ntop, i) (by simp)
    simp only at h0
    simp only [patchAll, h0, patchCol]
    exact ih fun p hp => h p (List.mem_cons_of_mem _ hp)

/-! ### `handshake` -/

theorem handshake_spec (sizes : List Nat) (T : Nat) (jds : List (List Nat)) (picks : List Nat)
    (hR : Rect jds T) (hN : jds ≠ []) (hp : ∀ p ∈ picks, p < jds.length) :
    (handshake sizes jds picks).length = jds.length ∧ Rect (handshake sizes jds picks) T ∧
    (∀ v k, deg jds v k ≤ deg (handshake sizes jds picks) v k) ∧
    (∀ k < T, colSum (handshake sizes jds picks) k =
      colSum jds k + need (sizes.getD k 0) (colSum jds k)) := by
  unfold handshake
  rw [ncols_of_rect jds T hR hN]
  have hl : ∀ p ∈ (List.range T).map (fun i => (colSum jds i, i)), p.2 < T ∧ p.1 = colSum jds p.2 := by
    intro p hp1
    rcases List.mem_map.1 hp1 with ⟨i, hi, rfl⟩
    exact ⟨List.mem_range.1 hi, rfl⟩
  have hmap : ((List.range T).map (fun i => (colSum jds i, i))).map (·.2) = List.range T := by
    simp [List.map_map, Function.comp_def]
  have hnd : (((List.range T).map (fun i => (colSum jds i, i))).map (·.2)).Nodup := by
    rw [hmap]; exact List.nodup_range
  rcases patchAll_spec sizes T _ jds picks hR hN hp hl hnd with ⟨h1, h2, h3, h4⟩
  refine ⟨h1, h2, h3, fun k hk => ?_⟩
  rw [h4, hmap, if_pos (List.mem_range.2 hk)]

theorem handshake_noop (sizes : List Nat) (jds : List (List Nat)) (picks : List Nat)
    (h : ∀ i < ncols jds, sizes.getD i 0 ∣ colSum jds i) : handshake sizes jds picks = jds := by
  unfold handshake
  rw [patchAll_noop]
  intro p hp
  rcases List.mem_map.1 hp with ⟨i, hi, rfl⟩
  exact need_of_dvd _ _ (h i (List.mem_range.1 hi))

end Gcmpy.Handshake
