import GcmpyModel.Model.SplitDegree
import GcmpyModel.Lemmas.Dict
import Mathlib.Algebra.Field.Rat
import Mathlib.Algebra.BigOperators.Group.List.Basic
import Mathlib.Algebra.BigOperators.Ring.List
import Mathlib.Data.List.Nodup
/-! Helper lemmas for property C07 (`JointDegreeSplitDegree`, `JointDegreeDelta`). -/
namespace Gcmpy.SplitDegree
open Gcmpy Gcmpy.Loaders

/-! ### `edgesOf` -/

theorem edgesOf_append_singleton (row : JD) (i : Nat) :
    edgesOf (row ++ [i]) = edgesOf row + (row.length + 1) * i := by
  simp [edgesOf, List.zipIdx_append]

theorem zipIdx_replicate_zero_sum (n s : Nat) :
    (((List.replicate n 0).zipIdx s).map fun (p : Nat × Nat) => (p.2 + 1) * p.1).sum = 0 := by
  induction n generalizing s with
  | zero => simp
  | succ n ih => simp [List.replicate_succ, List.zipIdx_cons, ih]

/-- the "pure" joint degree `(k, 0, …, 0)` uses `k` edges -/
theorem edgesOf_pure (k n : Nat) : edgesOf (k :: List.replicate n 0) = k := by
  have := zipIdx_replicate_zero_sum n 1
  simp only [edgesOf, List.zipIdx_cons, List.map_cons, List.sum_cons]
  simp only [Nat.zero_add] at *
  rw [this]; simp

theorem length_pure (k n : Nat) : (k :: List.replicate n 0).length = n + 1 := by simp

/-! ### `validSplits` -/

theorem validSplits_sound' (k t : Nat) : ∀ jd ∈ validSplits k t, jd.length = t ∧ edgesOf jd = k := by
  fun_induction validSplits k t with
  | case1 => simp
  | case2 r => intro jd h; simp at h; subst h; simp [edgesOf]
  | case3 r t ih =>
    intro jd h
    simp only [List.mem_flatMap, List.mem_map, List.mem_range] at h
    obtain ⟨i, hi, row, hrow, rfl⟩ := h
    obtain ⟨hl, he⟩ := ih i row hrow
    have : i * (t + 2) ≤ r := (Nat.le_div_iff_mul_le (by omega)).1 (by omega)
    refine ⟨by simp [hl], ?_⟩
    rw [edgesOf_append_singleton, he, hl, Nat.mul_comm (t + 1 + 1) i, show t + 1 + 1 = t + 2 from rfl]
    omega

theorem validSplits_complete' (t : Nat) : ∀ (k : Nat) (jd : JD), jd.length = t + 1 → edgesOf jd = k →
    jd ∈ validSplits k (t + 1) := by
  induction t with
  | zero =>
    intro k jd hl he
    match jd, hl with
    | [a], _ => simp [edgesOf] at he; simp [validSplits, he]
  | succ t ih =>
    intro k jd hl he
    have hne : jd ≠ [] := by intro h; simp [h] at hl
    obtain ⟨row, i, rfl⟩ : ∃ row i, jd = row ++ [i] :=
      ⟨jd.dropLast, jd.getLast hne, (List.dropLast_concat_getLast hne).symm⟩
    have hrl : row.length = t + 1 := by simpa using hl
    rw [edgesOf_append_singleton, hrl, show t + 1 + 1 = t + 2 from rfl] at he
    have h1 : i * (t + 2) ≤ k := by rw [Nat.mul_comm]; omega
    simp only [validSplits, List.mem_flatMap, List.mem_map, List.mem_range]
    refine ⟨i, ?_, row, ih _ row hrl ?_, rfl⟩
    · have := (Nat.le_div_iff_mul_le (show 0 < t + 2 by omega)).2 h1; omega
    · rw [Nat.mul_comm] at h1 ⊢; omega

theorem validSplits_nodup' (k t : Nat) : (validSplits k t).Nodup := by
  fun_induction validSplits k t with
  | case1 => simp
  | case2 r => simp
  | case3 r t ih =>
    rw [List.nodup_flatMap]
    refine ⟨fun i _ => (ih i).map (fun a b h => List.append_cancel_right h), ?_⟩
    refine (List.nodup_range).imp ?_
    intro i j hij
    simp only [Function.onFun]
    intro x hx hy
    simp only [List.mem_map] at hx hy
    obtain ⟨a, _, rfl⟩ := hx
    obtain ⟨b, _, hb⟩ := hy
    have := congrArg List.getLast? hb
    simp at this
    exact hij this.symm

theorem validSplits_ne_nil (k t : Nat) (ht : 1 ≤ t) : validSplits k t ≠ [] := by
  obtain ⟨n, rfl⟩ : ∃ n, t = n + 1 := ⟨t - 1, by omega⟩
  have := validSplits_complete' n k (k :: List.replicate n 0) (by simp) (edgesOf_pure k n)
  intro h; rw [h] at this; simp at this

/-! ### sums -/

theorem foldl_add_eq_sum (l : List Rat) : l.foldl (· + ·) 0 = l.sum := by
  have : ∀ a : Rat, l.foldl (· + ·) a = a + l.sum := by
    induction l with
    | nil => simp
    | cons x r ih => intro a; simp [ih, add_assoc]
  simpa using this 0

/-- `W k`: the total (unnormalised) weight of the splits of `k` -/
def splitTotal (probs : List Rat) (k : Nat) : Rat :=
  ((validSplits k probs.length).map (splitWeight probs)).sum

/-- the rows `resolve_degree(k, w)` writes: every split of `k` with its normalised weight times `w` -/
def splitRows (probs : List Rat) (w : Rat) (k : Nat) : Table :=
  (validSplits k probs.length).map fun jd => (jd, w * (splitWeight probs jd / splitTotal probs k))

/-! ### folding `Dict.set` -/

theorem set_of_not_mem (d : Table) (k : JD) (v : Rat) (h : k ∉ Dict.keys d) :
    Dict.set d k v = d ++ [(k, v)] := by
  induction d with
  | nil => simp [Dict.set]
  | cons x r ih =>
    obtain ⟨a, w⟩ := x
    simp only [Dict.keys, List.map_cons, List.mem_cons, not_or] at h
    have h1 : ¬ a = k := fun e => h.1 e.symm
    simp only [Dict.set, if_neg h1, List.cons_append]
    congr 1
    exact ih h.2

theorem foldl_set_zip_map (l : List JD) (f : JD → Rat) (g : Rat → Rat) (t : Table) :
    (l.zip (l.map f)).foldl (fun t (x : JD × Rat) => Dict.set t x.1 (g x.2)) t
      = l.foldl (fun t jd => Dict.set t jd (g (f jd))) t := by
  induction l generalizing t with
  | nil => rfl
  | cons a l ih => simp [ih]

theorem get_foldl_set (l : List JD) (h : JD → Rat) (t : Table) (x : JD) :
    Dict.get (l.foldl (fun t jd => Dict.set t jd (h jd)) t) x
      = if x ∈ l then some (h x) else Dict.get t x := by
  induction l generalizing t with
  | nil => simp
  | cons a l ih =>
    simp only [List.foldl_cons, ih, Dict.get_set, List.mem_cons]
    by_cases h1 : x ∈ l
    · simp [h1]
    · by_cases h2 : a = x
      · subst h2; simp [h1]
      · have : ¬ x = a := fun e => h2 e.symm
        simp [h1, h2, this]

theorem foldl_set_eq_append (l : List JD) (h : JD → Rat) (t : Table) (hn : l.Nodup)
    (hd : ∀ x ∈ l, x ∉ Dict.keys t) :
    l.foldl (fun t jd => Dict.set t jd (h jd)) t = t ++ l.map fun jd => (jd, h jd) := by
  induction l generalizing t with
  | nil => simp
  | cons a l ih =>
    rw [List.nodup_cons] at hn
    rw [List.foldl_cons, set_of_not_mem _ _ _ (hd a List.mem_cons_self), ih _ hn.2]
    · simp
    · intro x hx
      simp only [Dict.keys, List.map_append, List.map_cons, List.map_nil, List.mem_append,
        List.mem_singleton, not_or]
      refine ⟨hd x (List.mem_cons_of_mem _ hx), ?_⟩
      rintro rfl; exact hn.1 hx

/-! ### `resolve` -/

theorem resolve_eq (probs : List Rat) (k : Nat) (w : Rat) (table : Table) (ht : 1 ≤ probs.length) :
    resolve probs k w table =
      if splitTotal probs k = 0 then .error .zeroDivision
      else .ok ((validSplits k probs.length).foldl
        (fun t jd => Dict.set t jd (w * (splitWeight probs jd / splitTotal probs k))) table) := by
  have hne := validSplits_ne_nil k probs.length ht
  have : (validSplits k probs.length).isEmpty = false := by
    simpa [List.isEmpty_iff] using hne
  simp only [resolve, this, foldl_add_eq_sum]
  simp only [Bool.false_eq_true, if_false]
  rw [← splitTotal]
  congr 2
  exact foldl_set_zip_map _ (splitWeight probs) (fun p => w * (p / splitTotal probs k)) table

theorem resolve_ok_append (probs : List Rat) (k : Nat) (w : Rat) (table table' : Table)
    (ht : 1 ≤ probs.length) (hk : ∀ jd ∈ Dict.keys table, edgesOf jd ≠ k)
    (h : resolve probs k w table = .ok table') :
    splitTotal probs k ≠ 0 ∧ table' = table ++ splitRows probs w k := by
  rw [resolve_eq _ _ _ _ ht] at h
  split at h
  · cases h
  · rename_i hz
    refine ⟨hz, ?_⟩
    injection h with h
    rw [← h, foldl_set_eq_append _ _ _ (validSplits_nodup' _ _)]
    · rfl
    · intro x hx hx'
      exact hk x hx' (validSplits_sound' _ _ x hx).2

/-! ### `normalise` -/

/-- the table `normalise` returns: every value divided by the total -/
theorem normalise_ok {t T : Table} (h : normalise t = .ok T) :
    T = t.map (fun p => (p.1, p.2 / (t.map (·.2)).sum)) ∧ (t ≠ [] → (t.map (·.2)).sum ≠ 0) := by
  simp only [normalise, foldl_add_eq_sum] at h
  split at h
  · rename_i he
    have : t = [] := by simpa using he
    subst this
    injection h with h
    exact ⟨by simp [← h], fun h => absurd rfl h⟩
  · split at h
    · cases h
    · rename_i hz
      injection h with h
      exact ⟨h.symm, fun _ => hz⟩

theorem sum_map_div (l : List Rat) (z : Rat) : (l.map (· / z)).sum = l.sum / z := by
  simp only [div_eq_mul_inv]
  exact List.sum_map_mul_right l id z⁻¹ |>.trans (by simp)

theorem normalise_sums_one {t T : Table} (h : normalise t = .ok T) (hT : T ≠ []) :
    (T.map (·.2)).sum = 1 := by
  obtain ⟨rfl, hz⟩ := normalise_ok h
  have hne : t ≠ [] := by rintro rfl; simp at hT
  rw [List.map_map]
  have : ((fun p : JD × Rat => p.2) ∘ fun p : JD × Rat => (p.1, p.2 / (t.map (·.2)).sum))
      = (· / (t.map (·.2)).sum) ∘ (fun p : JD × Rat => p.2) := rfl
  rw [this, ← List.map_map, sum_map_div, div_self (hz hne)]

/-! ### tables assembled class by class (`ks.flatMap F`, the rows `F k` all using `k` edges) -/

section Classes
variable (F : Nat → Table) (fp : Nat → Rat) (ks : List Nat)

theorem sum_flatMap_classes (hS : ∀ k ∈ ks, ((F k).map (·.2)).sum = fp k) :
    ((ks.flatMap F).map (·.2)).sum = (ks.map fp).sum := by
  induction ks with
  | nil => simp
  | cons a ks ih =>
    rw [List.flatMap_cons, List.map_append, List.sum_append, List.map_cons, List.sum_cons,
      hS a List.mem_cons_self, ih fun k hk => hS k (List.mem_cons_of_mem _ hk)]

theorem filter_flatMap_none (hE : ∀ k ∈ ks, ∀ p ∈ F k, edgesOf p.1 = k) (k : Nat) (hk : k ∉ ks) :
    (ks.flatMap F).filter (fun p => edgesOf p.1 = k) = [] := by
  rw [List.filter_eq_nil_iff]
  intro p hp
  obtain ⟨k', hk', hp'⟩ := List.mem_flatMap.1 hp
  have := hE k' hk' p hp'
  simp only [decide_eq_true_eq]
  rintro rfl; rw [this] at hk; exact hk hk'

theorem filter_flatMap_class (hnd : ks.Nodup) (hE : ∀ k ∈ ks, ∀ p ∈ F k, edgesOf p.1 = k)
    (k : Nat) (hk : k ∈ ks) :
    (ks.flatMap F).filter (fun p => edgesOf p.1 = k) = F k := by
  induction ks with
  | nil => simp at hk
  | cons a ks ih =>
    rw [List.nodup_cons] at hnd
    have hE' : ∀ k ∈ ks, ∀ p ∈ F k, edgesOf p.1 = k := fun k hk => hE k (List.mem_cons_of_mem _ hk)
    rw [List.flatMap_cons, List.filter_append]
    by_cases hak : a = k
    · subst hak
      rw [filter_flatMap_none F ks hE' a hnd.1, List.append_nil, List.filter_eq_self]
      intro p hp
      simpa using hE a List.mem_cons_self p hp
    · have hk' : k ∈ ks := by
        rcases List.mem_cons.1 hk with h | h
        · exact absurd h.symm hak
        · exact h
      rw [ih hnd.2 hE' hk']
      have : (F a).filter (fun p => edgesOf p.1 = k) = [] := by
        rw [List.filter_eq_nil_iff]
        intro p hp
        simp only [decide_eq_true_eq]
        rw [hE a List.mem_cons_self p hp]; exact hak
      rw [this, List.nil_append]

theorem keys_flatMap_nodup (hnd : ks.Nodup) (hE : ∀ k ∈ ks, ∀ p ∈ F k, edgesOf p.1 = k)
    (hN : ∀ k ∈ ks, (Dict.keys (F k)).Nodup) : (Dict.keys (ks.flatMap F)).Nodup := by
  simp only [Dict.keys, List.map_flatMap]
  rw [List.nodup_flatMap]
  refine ⟨hN, ?_⟩
  have hp : ks.Pairwise (fun a b => a ∈ ks ∧ b ∈ ks ∧ a ≠ b) := by
    rw [List.pairwise_iff_forall_sublist]
    intro a b hab
    have h2 := hab.subset
    refine ⟨h2 (by simp), h2 (by simp), ?_⟩
    rintro rfl
    exact (List.nodup_cons.1 (hab.nodup hnd)).1 (by simp)
  refine hp.imp ?_
  rintro a b ⟨ha, hb, hab⟩
  simp only [Function.onFun]
  intro x hx hy
  obtain ⟨p, hp, rfl⟩ := List.mem_map.1 hx
  obtain ⟨q, hq, hpq⟩ := List.mem_map.1 hy
  have h1 := hE a ha p hp
  have h2 := hE b hb q hq
  rw [hpq] at h2
  exact hab (h1.symm.trans h2)

variable {F fp ks} {T : Table}

theorem classes_total (hS : ∀ k ∈ ks, ((F k).map (·.2)).sum = fp k)
    (hT : normalise (ks.flatMap F) = .ok T) :
    T = (ks.flatMap F).map (fun p => (p.1, p.2 / (ks.map fp).sum)) := by
  rw [← sum_flatMap_classes F fp ks hS]; exact (normalise_ok hT).1

theorem classes_keys (hS : ∀ k ∈ ks, ((F k).map (·.2)).sum = fp k)
    (hT : normalise (ks.flatMap F) = .ok T) :
    T.map (·.1) = ks.flatMap (fun k => (F k).map (·.1)) := by
  rw [classes_total hS hT, List.map_map, List.map_flatMap]
  rfl

theorem classes_mass (hnd : ks.Nodup) (hE : ∀ k ∈ ks, ∀ p ∈ F k, edgesOf p.1 = k)
    (hS : ∀ k ∈ ks, ((F k).map (·.2)).sum = fp k)
    (hT : normalise (ks.flatMap F) = .ok T) (k : Nat) (hk : k ∈ ks) :
    ((T.filter (fun p => edgesOf p.1 = k)).map (·.2)).sum = fp k / (ks.map fp).sum := by
  rw [classes_total hS hT, List.filter_map]
  have : ((fun p : JD × Rat => decide (edgesOf p.1 = k)) ∘ fun p : JD × Rat => (p.1, p.2 / (ks.map fp).sum))
      = fun p : JD × Rat => decide (edgesOf p.1 = k) := rfl
  rw [this, filter_flatMap_class F ks hnd hE k hk, List.map_map]
  have : ((fun p : JD × Rat => p.2) ∘ fun p : JD × Rat => (p.1, p.2 / (ks.map fp).sum))
      = (· / (ks.map fp).sum) ∘ (fun p : JD × Rat => p.2) := rfl
  rw [this, ← List.map_map, sum_map_div, hS k hk]

theorem classes_get (hnd : ks.Nodup) (hE : ∀ k ∈ ks, ∀ p ∈ F k, edgesOf p.1 = k)
    (hN : ∀ k ∈ ks, (Dict.keys (F k)).Nodup)
    (hS : ∀ k ∈ ks, ((F k).map (·.2)).sum = fp k)
    (hT : normalise (ks.flatMap F) = .ok T) (k : Nat) (hk : k ∈ ks) (jd : JD) (v : Rat)
    (hv : (jd, v) ∈ F k) :
    Dict.get T jd = some (v / (ks.map fp).sum) := by
  have hkeys : (Dict.keys T).Nodup := by
    have := keys_flatMap_nodup F ks hnd hE hN
    rw [Dict.keys, classes_keys hS hT]
    simpa only [Dict.keys, List.map_flatMap] using this
  have hmem : (jd, v / (ks.map fp).sum) ∈ T := by
    rw [classes_total hS hT]
    exact List.mem_map.2 ⟨(jd, v), List.mem_flatMap.2 ⟨k, hk, hv⟩, rfl⟩
  exact Dict.get_of_mem T hkeys _ hmem

end Classes

/-! ### the rows of one class -/

theorem rangeAB_nodup (lo hi : Nat) : (rangeAB lo hi).Nodup :=
  List.nodup_range.map fun a b h => by simpa using h

theorem mem_rangeAB (lo hi k : Nat) : k ∈ rangeAB lo hi ↔ lo ≤ k ∧ k < hi := by
  simp only [rangeAB, List.mem_map, List.mem_range]
  constructor
  · rintro ⟨a, ha, rfl⟩; omega
  · rintro ⟨h1, h2⟩; exact ⟨k - lo, by omega, by omega⟩

theorem splitRows_keys (probs : List Rat) (w : Rat) (k : Nat) :
    (splitRows probs w k).map (·.1) = validSplits k probs.length := by
  simp [splitRows, List.map_map, Function.comp_def]

theorem splitRows_edges (probs : List Rat) (w : Rat) (k : Nat) :
    ∀ p ∈ splitRows probs w k, edgesOf p.1 = k := by
  intro p hp
  have : p.1 ∈ (splitRows probs w k).map (·.1) := List.mem_map_of_mem hp
  rw [splitRows_keys] at this
  exact (validSplits_sound' _ _ _ this).2

theorem splitRows_nodup (probs : List Rat) (w : Rat) (k : Nat) :
    (Dict.keys (splitRows probs w k)).Nodup := by
  rw [Dict.keys, splitRows_keys]; exact validSplits_nodup' _ _

theorem splitRows_sum (probs : List Rat) (w : Rat) (k : Nat) (hW : splitTotal probs k ≠ 0) :
    ((splitRows probs w k).map (·.2)).sum = w := by
  simp only [splitRows, List.map_map, Function.comp_def]
  have : (List.map (fun x => splitWeight probs x / splitTotal probs k) (validSplits k probs.length))
      = ((validSplits k probs.length).map (splitWeight probs)).map (· / splitTotal probs k) := by
    rw [List.map_map]; rfl
  rw [List.sum_map_mul_left, this, sum_map_div, ← splitTotal, div_self hW, mul_one]

/-- the rows `JointDegreeDelta` writes for degree `k` -/
def deltaRows (nTop : Nat) (probs : List Rat) (fp : Nat → Rat) (target k : Nat) : Table :=
  if k ≠ target then [(k :: List.replicate (nTop - 1) 0, fp k)] else splitRows probs (fp k) k

theorem deltaRows_edges (nTop : Nat) (probs : List Rat) (fp : Nat → Rat) (target k : Nat) :
    ∀ p ∈ deltaRows nTop probs fp target k, edgesOf p.1 = k := by
  intro p hp
  unfold deltaRows at hp
  split at hp
  · simp only [List.mem_singleton] at hp; subst hp; exact edgesOf_pure _ _
  · exact splitRows_edges _ _ _ p hp

theorem deltaRows_nodup (nTop : Nat) (probs : List Rat) (fp : Nat → Rat) (target k : Nat) :
    (Dict.keys (deltaRows nTop probs fp target k)).Nodup := by
  unfold deltaRows
  split
  · simp [Dict.keys]
  · exact splitRows_nodup _ _ _

theorem deltaRows_sum (nTop : Nat) (probs : List Rat) (fp : Nat → Rat) (target k : Nat)
    (hW : k = target → splitTotal probs k ≠ 0) :
    ((deltaRows nTop probs fp target k).map (·.2)).sum = fp k := by
  unfold deltaRows
  split
  · simp
  · rename_i h
    exact splitRows_sum _ _ _ (hW (by simpa using h))

/-! ### the loops -/

theorem keys_append_edges {t0 rows : Table} {k : Nat} {ks : List Nat} (hk : k ∉ ks)
    (h0 : ∀ jd ∈ Dict.keys t0, edgesOf jd ∉ k :: ks) (hr : ∀ p ∈ rows, edgesOf p.1 = k) :
    ∀ jd ∈ Dict.keys (t0 ++ rows), edgesOf jd ∉ ks := by
  intro jd hjd
  simp only [Dict.keys, List.map_append, List.mem_append] at hjd
  rcases hjd with h | h
  · exact fun hm => h0 jd h (List.mem_cons_of_mem _ hm)
  · obtain ⟨p, hp, rfl⟩ := List.mem_map.1 h
    rw [hr p hp]; exact hk

theorem resolveRange_ok (probs : List Rat) (fp : Nat → Rat) (ht : 1 ≤ probs.length) :
    ∀ (ks : List Nat) (t0 T0 : Table), ks.Nodup → (∀ jd ∈ Dict.keys t0, edgesOf jd ∉ ks) →
      resolveRange probs fp ks t0 = .ok T0 →
      (∀ k ∈ ks, splitTotal probs k ≠ 0) ∧
        T0 = t0 ++ ks.flatMap (fun k => splitRows probs (fp k) k) := by
  intro ks
  induction ks with
  | nil => intro t0 T0 _ _ h; simp only [resolveRange] at h; injection h with h; simp [h]
  | cons k ks ih =>
    intro t0 T0 hnd h0 h
    rw [List.nodup_cons] at hnd
    simp only [resolveRange, bind, Except.bind] at h
    split at h
    · cases h
    · rename_i t' hres
      obtain ⟨hW, rfl⟩ := resolve_ok_append probs k (fp k) t0 t' ht
        (fun jd hjd e => h0 jd hjd (e ▸ List.mem_cons_self)) hres
      obtain ⟨hWs, rfl⟩ := ih _ T0 hnd.2
        (keys_append_edges hnd.1 h0 (splitRows_edges _ _ _)) h
      refine ⟨?_, by simp⟩
      intro k' hk'
      rcases List.mem_cons.1 hk' with rfl | h'
      · exact hW
      · exact hWs k' h'

theorem deltaRange_ok (probs : List Rat) (fp : Nat → Rat) (target : Nat) (ht : 1 ≤ probs.length) :
    ∀ (ks : List Nat) (t0 T0 : Table), ks.Nodup → (∀ jd ∈ Dict.keys t0, edgesOf jd ∉ ks) →
      deltaRange probs.length probs fp target ks t0 = .ok T0 →
      (target ∈ ks → splitTotal probs target ≠ 0) ∧
        T0 = t0 ++ ks.flatMap (deltaRows probs.length probs fp target) := by
  intro ks
  induction ks with
  | nil => intro t0 T0 _ _ h; simp only [deltaRange] at h; injection h with h; simp [h]
  | cons k ks ih =>
    intro t0 T0 hnd h0 h
    rw [List.nodup_cons] at hnd
    simp only [deltaRange] at h
    split at h
    · rename_i hkt
      rw [set_of_not_mem] at h
      · obtain ⟨hWs, rfl⟩ := ih _ T0 hnd.2
          (keys_append_edges (k := k) hnd.1 h0 (by
            intro p hp; simp only [List.mem_singleton] at hp; subst hp; exact edgesOf_pure _ _)) h
        refine ⟨?_, by simp [deltaRows, hkt]⟩
        intro hm
        rcases List.mem_cons.1 hm with rfl | h'
        · exact absurd rfl hkt
        · exact hWs h'
      · intro hm
        exact h0 _ hm (by rw [edgesOf_pure]; exact List.mem_cons_self)
    · rename_i hkt
      have hkt : k = target := by simpa using hkt
      simp only [bind, Except.bind] at h
      split at h
      · cases h
      · rename_i t' hres
        obtain ⟨hW, rfl⟩ := resolve_ok_append probs k (fp k) t0 t' ht
          (fun jd hjd e => h0 jd hjd (e ▸ List.mem_cons_self)) hres
        obtain ⟨_, rfl⟩ := ih _ T0 hnd.2
          (keys_append_edges hnd.1 h0 (splitRows_edges _ _ _)) h
        refine ⟨fun _ => hkt ▸ hW, by simp [deltaRows, hkt]⟩

/-! ### the two loaders: loop followed by `normalise` -/

theorem splitDegree_ok {fp : Nat → Rat} {probs : List Rat} {lo hi : Nat} {T : Table}
    (ht : 1 ≤ probs.length) (h : splitDegree fp probs lo hi = .ok T) :
    (∀ k ∈ rangeAB lo hi, splitTotal probs k ≠ 0) ∧
      normalise ((rangeAB lo hi).flatMap fun k => splitRows probs (fp k) k) = .ok T := by
  simp only [splitDegree, bind, Except.bind] at h
  split at h
  · cases h
  · rename_i T0 h0
    obtain ⟨hW, rfl⟩ := resolveRange_ok probs fp ht _ [] T0 (rangeAB_nodup lo hi) (by simp [Dict.keys]) h0
    exact ⟨hW, by simpa using h⟩

theorem delta_ok {fp : Nat → Rat} {probs : List Rat} {lo hi target : Nat} {T : Table}
    (ht : 1 ≤ probs.length) (h : delta probs.length fp probs lo hi target = .ok T) :
    (target ∈ rangeAB lo hi → splitTotal probs target ≠ 0) ∧
      normalise ((rangeAB lo hi).flatMap (deltaRows probs.length probs fp target)) = .ok T := by
  simp only [delta, bind, Except.bind] at h
  split at h
  · cases h
  · rename_i T0 h0
    obtain ⟨hW, rfl⟩ := deltaRange_ok probs fp target ht _ [] T0 (rangeAB_nodup lo hi)
      (by simp [Dict.keys]) h0
    exact ⟨hW, by simpa using h⟩

theorem split_hS {fp : Nat → Rat} {probs : List Rat} {lo hi : Nat} {T : Table}
    (ht : 1 ≤ probs.length) (h : splitDegree fp probs lo hi = .ok T) :
    ∀ k ∈ rangeAB lo hi, ((splitRows probs (fp k) k).map (·.2)).sum = fp k :=
  fun k hk => splitRows_sum _ _ _ ((splitDegree_ok ht h).1 k hk)

theorem delta_hS {fp : Nat → Rat} {probs : List Rat} {lo hi target : Nat} {T : Table}
    (ht : 1 ≤ probs.length) (h : delta probs.length fp probs lo hi target = .ok T) :
    ∀ k ∈ rangeAB lo hi, ((deltaRows probs.length probs fp target k).map (·.2)).sum = fp k :=
  fun k hk => deltaRows_sum _ _ _ _ _ fun e => by subst e; exact (delta_ok ht h).1 hk

end Gcmpy.SplitDegree
